#!/bin/sh
# Build the mirfacts rustc driver (offline, zero crates). Everything else is Python 3 stdlib.
set -e
cd "$(dirname "$0")/driver"
CARGO_NET_OFFLINE=true cargo build --release --offline
test -x target/release/mirfacts
