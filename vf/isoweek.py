"""C02-W: the ISO 8601 week number computed by days_to_wyear, decided for every date by residue classes of the 400-year cycle.

(An earlier version of this rule proved the formula symbolically for the years >= 1 only; it was replaced by the class analysis below
when that showed the week numbers of years before 0001 to be wrong -- see DESIGN.md section 7.)"""
from . import domain as D
from . import textsem as T

WY = 'util::date::convert::days_to_wyear'
CUM = [0, 31, 59, 90, 120, 151, 181, 212, 243, 273, 304, 334]


# ------------------------------------------------------------------------------------------------------------------
# C02-W: the ISO week of every date, by residue classes of the 400-year cycle (both eras)
LEN = [31, 28, 31, 30, 31, 30, 31, 31, 30, 31, 30, 31]
KMAX = 14_698
I32 = {'k': 'int', 's': True, 'bits': 32, 'name': 'i32'}
U32 = {'k': 'int', 's': False, 'bits': 32, 'name': 'u32'}


def o_leap(A):
    return A % 4 == 0 and (A % 100 != 0 or A % 400 == 0)


def o_jan1(A):
    """day number of 1 January of the astronomical year A (0001-01-01 = 0, a Monday)"""
    b = A - 1
    return 365 * b + b // 4 - b // 100 + b // 400


def o_weeks(A):
    J = o_jan1(A) % 7
    return 53 if (J == 3 or (o_leap(A) and J == 2)) else 52


def o_week(A, m, day):
    """ISO 8601 week number from the definition: the week (Monday..Sunday) belongs to the year that holds its Thursday"""
    leap = o_leap(A)
    doy0 = CUM[m - 1] + (1 if (leap and m >= 3) else 0) + day - 1
    wd = (doy0 + o_jan1(A)) % 7
    n = doy0 + 3 - wd
    if n < 0:
        return n, o_weeks(A - 1)
    if n > 364 + (1 if leap else 0):
        return n, 1
    return n, n // 7 + 1


def find_thursday(s, rv, DAY, C1, J):
    """the value the code branches on / divides by 7 that is the day of the year of the Thursday of the week, found by its form (not by the name
    of a local): n = (day + C1) + 3 - d with d a remainder modulo 7 in [0, 6] congruent to day + C1 + J, where day + C1 is the zero-based
    day of the year and J the Monday-based weekday of 1 January (both from the calendar definition).  Returns (n, d, reason when not found)."""
    cands = set()
    for t in s.tested:
        if isinstance(t, int):
            tm = D.TERM.get(t)
            if tm is not None and tm[0] in ('Lt', 'Le', 'Gt', 'Ge', 'Eq', 'Ne'):
                cands.update(x for x in tm[1:] if isinstance(x, int))
    stack, seen = [rv[1]], set()
    while stack:
        v = stack.pop()
        if v in seen or len(seen) > 5000:
            continue
        seen.add(v)
        tm = D.TERM.get(v)
        if tm is not None and tm[0] != 'const':
            if tm[0] in ('Div', 'div_euclid') and isinstance(tm[1], int):
                cands.add(tm[1])
            stack.extend(x for x in tm[1:] if isinstance(x, int))
        a = D.AFF.get(v)
        if a is not None:
            stack.extend(y for y in a.co if isinstance(y, int))
    why = 'no value the result depends on has the form (zero-based day of the year) + 3 - (weekday of the day)'
    # when the weekday of 1 January makes f + 3 and f + g - e the same number, n = (f + 3) - (f + 3) % 7 is kept as 7 * ((f + 3) / 7) and the
    # result divides f + 3 directly: rebuild n from such a dividend
    for x in sorted(cands):
        ax = D.aff_of(x)
        if not ax.mod and ax.co == {DAY: 1} and ax.c0 == C1 + 3:
            q_, r_ = D.divmod_euclid(s, x, 7) if D.get_iv(s, x)[0] < 0 else D.divmod_vids(s, x, 7)
            ql, qh = D.get_iv(s, q_)
            n_ = D.term_vid(s, ('Sub', x, r_), 7 * ql if ql != -D.INF else -D.INF, 7 * qh if qh != D.INF else D.INF, D.aff_scale(D.aff_of(q_), 7))
            cands.add(n_)
            seen.add(r_)
    # remainders modulo 7 among the values the result and the branch conditions of this path are built from
    rems = sorted({t_[3] for v_ in (seen | cands) for t_ in D.TRIPLES.get(v_, ()) if t_[1] == 7})
    for n in sorted(cands):
        a = D.aff_of(n)
        if a.mod:
            continue
        ds = [y for y, c in a.co.items() if y != DAY and c == -1 and isinstance(y, int)] if a.co.get(DAY) == 1 else []
        ds += [r_ for r_ in rems if r_ not in ds]           # (the form may be folded, e.g. x - x % 7 kept as 7 * (x / 7): compare up to the triples)
        for d in ds:
            if not D.aff_equiv(a, D.aff_add(D.Aff({DAY: 1}, C1 + 3), D.Aff({d: 1}, 0), -1), st=s):
                why = f'a candidate for the Thursday of the week is {a}; with the zero-based day of the year day + {C1} it is not f + 3 - d'
                continue
            dl, dh = D.get_iv(s, d)
            if dl < 0 or dh > 6 or not D.aff_equiv(D.aff_of(d), D.Aff({DAY: 1}, C1 + J), 7, st=s):
                why = (f'the weekday used for the Thursday of the week is not (day of year + {J}) mod 7 in [0, 6] '
                       f'(1 January of this year class is weekday {J}, Monday = 0): it is {D.aff_of(d)} in [{dl}, {dh}]')
                continue
            return n, d, None
    return None, None, why


def _week_worker(job):
    from .cli import Ctx
    from .numeric import Numeric
    from .absint import St
    from .models import const_int
    cfg, chunk = job
    ctx = Ctx('C02', 'quick', 0)
    N = Numeric(ctx, cfg, max_disj=200, max_steps=400_000)
    I = N.I
    I.return_partition[WY] = lambda I_, st, v: id(st)
    KV = D.sym_vid(0, KMAX, 'cycle')
    DAY = D.sym_vid(1, 31, 'day')
    cur = {}

    def k_dtd(I_, st, args, dty, site):
        kind, era, j = cur['year']
        # AD years = 1 (mod 400): the year 1 itself is analysed as a constant (its January / February look at the year before it)
        st.iv[KV] = (1 if (kind == 'class' and era > 0 and j == 1) else 0, KMAX)
        st.iv[DAY] = (1, cur['len'])
        if kind == 'class':
            y = I_.binop(st, 'Mul', ('i', KV, 'i32'), const_int(400 * era, 'i32'), I32, None, None)
            y = I_.binop(st, 'Add', y, const_int(era * j, 'i32'), I32, None, None)
        else:
            y = const_int(j, 'i32')
        return [(st, ('t', (y, const_int(cur['m'], 'u32'), ('i', DAY, 'u32'))))]
    I.contracts[T.K_DTD] = k_dtd
    problems = []
    npaths = 0
    for (ykind, era, j, A, m) in chunk:
        leap = o_leap(A)
        ln = LEN[m - 1] + (1 if (leap and m == 2) else 0)
        cur.update({'year': (ykind, era, j), 'm': m, 'len': ln})
        yname = (f'{"AD" if era > 0 else "BC"} years = {j} (mod 400)' if ykind == 'class' else f'year {j}')
        name = f'{yname}|month {m}'
        st = St()
        st.frames[0] = {}
        I.cur_entry = 'C02 iso week'
        I.stack = []
        try:
            outs = I.call_body(st, WY, [I.top(st, I32, 'days')], ('entry', WY))
        except Exception as e:      # noqa
            problems.append((name, f'analysis failed: {e}'))
            I.stack = []
            continue
        J = o_jan1(A) % 7
        C1 = CUM[m - 1] + (1 if (leap and m >= 3) else 0) - 1
        oracle = [o_week(A, m, dd) for dd in range(1, ln + 1)]
        seen_n = set()
        msg = None
        for s, rv in outs:
            npaths += 1
            if rv[0] != 'i':
                msg = msg or 'the result is not an integer'
                continue
            n, d, why = find_thursday(s, rv, DAY, C1, J)
            if n is None:
                msg = msg or why
                continue
            nl, nh = D.get_iv(s, n)
            rl, rh = D.get_iv(s, rv[1])
            q7 = D.divmod_vids(s, n, 7)[0]
            is_q = q7 is not None and D.aff_equiv(D.aff_of(rv[1]), D.aff_add(D.aff_of(q7), D.aff_const(1)), st=s)
            for (no, wk) in oracle:
                if not (nl <= no <= nh):
                    continue
                seen_n.add(no)
                if rl == rh:
                    got = int(rl)
                elif is_q:
                    got = int(no / 7) + 1          # truncating division, as in the code
                else:
                    msg = msg or f'the result on the path with n in [{nl}, {nh}] is neither a constant nor n / 7 + 1'
                    break
                if got != wk:
                    msg = msg or (f'when the Thursday of the week is day {no} of the year (zero-based; the year has {365 + leap} days) the result is week {got}, '
                                  f'ISO 8601 says week {wk}')
                    break
        if msg is None and not outs:
            msg = 'no result'
        if msg is None:
            lost = sorted({no for no, _w in oracle} - seen_n)
            if lost:
                msg = f'no result path covers the days whose Thursday is day {lost[:3]} of the year'
        if msg:
            problems.append((name, msg))
    obl = {}
    for key, o in I.obl.items():
        if o.fn == WY:
            obl[o.id()] = (o.ok, o.fail)
    return problems, npaths, len(chunk), obl


_CACHE = {}


def run_week_classes():
    """all classes through the worker pool: (problems, paths, classes, obligations of days_to_wyear: id -> [ok contexts, failed contexts])"""
    if 'r' in _CACHE:
        return _CACHE['r']
    import multiprocessing as mp
    jobs = []
    for j in range(1, 401):
        for m in range(1, 13):
            jobs.append(('class', 1, j, j + 800, m))
    for j in range(3, 403):
        for m in range(1, 13):
            jobs.append(('class', -1, j, 1 - j, m))
    for y in (1, -1, -2):
        for m in range(1, 13):
            jobs.append(('const', 0, y, y if y > 0 else y + 1, m))
    for y in list(range(5_879_601, 5_879_612)) + list(range(-5_879_611, -5_879_600)):
        for m in range(1, 13):
            jobs.append(('const', 0, y, y if y > 0 else y + 1, m))
    nproc = min(16, max(1, mp.cpu_count()))
    chunks = [('default', jobs[i::nproc]) for i in range(nproc)]
    with mp.get_context('fork').Pool(nproc) as pool:
        res = pool.map(_week_worker, chunks, chunksize=1)
    problems = [p for r in res for p in r[0]]
    npaths = sum(r[1] for r in res)
    ncls = sum(r[2] for r in res)
    tot = {}
    for r in res:
        for oid, (okc, failc) in r[3].items():
            a = tot.setdefault(oid, [0, 0])
            a[0] += okc
            a[1] += failc
    _CACHE['r'] = (problems, npaths, ncls, tot)
    return _CACHE['r']


def discharge_wyear_obligations(ctx):
    """obligations inside days_to_wyear (overflow, casts): the classes are an exhaustive partition of the dates days_to_date can return
    (C01), and each class over-approximates the paths its dates can take, so an obligation that holds in every class context in which it is
    reached holds for every day number"""
    problems, npaths, ncls, tot = run_week_classes()
    if ncls < 9800:
        return
    ctx.auto_by_classes = {oid: f'holds in all {okc} year-class x month contexts of the ISO week class analysis in which it is reached'
                           for oid, (okc, failc) in tot.items() if failc == 0 and okc >= 1}


def check_iso_week_classes(ctx):
    """C02-W: for every year (400 AD and 400 BC residue classes with a symbolic cycle index, the years 1, -1, -2 and the years at both ends of
    the range one by one) x month, with the day of the month symbolic: f, d and n of days_to_wyear are the zero-based day of the year, the
    Monday-based weekday and the day of the year of the week's Thursday (constants from the calendar definition), and on every result path
    the week number is the ISO 8601 one for every day the path can hold."""
    problems, npaths, ncls, tot = run_week_classes()
    ctx.rule('C02-W ISO 8601 week per year class (400-year cycle, both eras, symbolic cycle index) x month, day symbolic', ncls, ncls - len({p[0] for p in problems}),
             floor=9800, sample={'paths': npaths})
    discharge_wyear_obligations(ctx)
    by_year = {}
    for name, msg in problems:
        by_year.setdefault(name.split('|')[0], []).append((name, msg))
    for i, (y, lst) in enumerate(sorted(by_year.items())):
        if i >= 6:
            break
        name, msg = lst[0]
        ctx.finding(f'C02:ISOWEEK-CLASS|{y}', 'C02-W ISO week by year class', None,
                    f'days_to_wyear, {name.replace("|", ", ")}: {msg}' + (f' (and {len(lst) - 1} more months of this class; {len(by_year)} classes in all)' if len(lst) > 1 or len(by_year) > 1 else ''))
