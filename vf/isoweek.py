"""C02-W: the ISO week computation of days_to_wyear, checked against the definitions its intermediate quantities must satisfy.

With (y, m, day) the calendar date of the day (days_to_date summarised, month case-split) and for years >= 1:
  (i)   f, the zero-based day of the year, equals (days before month m in a common year) + day - 1 (+ s from March on),
        where s is the leap flag the function derives itself;
  (ii)  g - e is congruent to (y - 1) + L(y) modulo 7 with L(y) = (y-1)/4 - (y-1)/100 + (y-1)/400, i.e. the Monday-based
        weekday of 1 January (365 = 1 mod 7), so that
  (iii) d = (f + g - e) mod 7 is the Monday-based weekday of the day, in [0, 6];
  (iv)  n = f + 3 - d is the day of the year of the Thursday of the day's week, and the result is n / 7 + 1 when
        0 <= n <= 364 + s, week 1 when n > 364 + s (the Thursday lies in the next year) and the last week of the
        previous year (structure only) when n < 0.
These pin every constant of the formula (153, +2, 5, 58, 31, 3, 7, 364) to the ISO 8601 definition."""
from . import domain as D
from . import textsem as T

WY = 'util::date::convert::days_to_wyear'
CUM = [0, 31, 59, 90, 120, 151, 181, 212, 243, 273, 304, 334]


def check_iso_week(ctx, Numeric):
    N = Numeric(ctx, 'default', max_disj=400, max_steps=400_000)
    I = N.I
    if WY not in I.bodies:
        ctx.finding('C02:ANCHOR|isoweek', 'C02-W ISO week', None, 'ANCHOR-MISSING: days_to_wyear')
        return
    K = T.Kernels(I)
    I.contracts.pop(T.K_WYEAR, None)
    names = ['a', 'b', 'c', 's', 'e', 'f', 'g', 'd', 'n']
    have = {n for _l, n in I.bodies[WY].get('names', [])}
    if not set(names) <= have:
        ctx.finding('C02:ANCHOR|isoweek-locals', 'C02-W ISO week', I.bodies[WY]['span'],
                    f'ANCHOR-MISSING: days_to_wyear no longer has the intermediate values {sorted(set(names) - have)} of the week formula')
        return
    I.watch[WY] = names
    I.return_partition[WY] = lambda I_, st, v: id(st)
    N.run(WY, variants=('fixed',))
    span = I.bodies[WY]['span']
    total = good = 0
    kinds = set()
    for args, st0, outs in N.results.get(WY, []):
        days = args[0][1]
        for st, rv in outs:
            loc = {}
            for e in st.trace:
                if isinstance(e, tuple) and e and e[0] == 'wset' and e[1] == WY and e[3] is not None and e[3][0] == 'i':
                    loc[e[2]] = e[3]          # the last integer value assigned to each named intermediate on this path
            if not loc or rv[0] != 'i':
                continue
            Y = K.syms.get(('Y', days))
            Dd = K.syms.get(('D', days))
            M = K.const_of(st, 'M', (days,))
            if Y is None or M is None or D.get_iv(st, Y)[0] < 1:
                continue          # years before 1: the week numbering of BC years is not specified by the property
            total += 1
            msg = None
            v = {k: (x[1] if x is not None and x[0] == 'i' else None) for k, x in loc.items()}
            if any(v.get(k) is None for k in ('s', 'e', 'f', 'g', 'd', 'n', 'a', 'b', 'c')):
                msg = f'an intermediate value of the formula is not tracked: {[k for k in names if v.get(k) is None]} {sorted(loc)}'
            else:
                want_f = D.aff_add(D.Aff({Dd: 1}, CUM[M - 1] - 1), D.aff_of(v['s']) if M >= 3 else D.aff_const(0))
                if not D.aff_equiv(D.aff_of(v['f']), want_f, st=st):
                    msg = f'month {M}: f is not (days before the month) + day - 1{" + leap flag" if M >= 3 else ""}: {D.aff_of(v["f"])} vs {want_f}'
                else:
                    X = v['c'] if M >= 3 else v['b']
                    lhs = D.aff_add(D.aff_of(v['g']), D.aff_of(v['e']), -1)
                    rhs = D.aff_add(D.Aff({Y: 1}, -1), D.aff_of(X))
                    if not D.aff_equiv(lhs, rhs, 7, st=st):
                        msg = f'month {M}: g - e is not congruent to (y - 1) + L(y) modulo 7 (the weekday of 1 January)'
                    else:
                        # L(y) is the leap count of y - 1
                        t = [x for (x, c) in D.DIVMOD if c == 4 and isinstance(x, int) and D.aff_equiv(D.aff_of(x), D.Aff({Y: 1}, -1), st=st)]
                        okL = False
                        for tv in t:
                            q4, q100, q400 = D.divmod_vids(st, tv, 4)[0], D.divmod_vids(st, tv, 100)[0], D.divmod_vids(st, tv, 400)[0]
                            if D.aff_equiv(D.aff_of(X), D.aff_add(D.aff_add(D.aff_of(q4), D.aff_of(q100), -1), D.aff_of(q400)), st=st):
                                okL = True
                        if not okL:
                            msg = f'month {M}: the leap count used for the weekday of 1 January is not (y-1)/4 - (y-1)/100 + (y-1)/400'
                if msg is None:
                    dl, dh = D.get_iv(st, v['d'])
                    if not D.aff_equiv(D.aff_of(v['d']), D.aff_add(D.aff_add(D.aff_of(v['f']), D.aff_of(v['g'])), D.aff_of(v['e']), -1), 7, st=st) or dl < 0 or dh > 6:
                        msg = 'd is not (f + g - e) mod 7 in [0, 6]'
                    elif not D.aff_equiv(D.aff_of(v['n']), D.aff_add(D.aff_add(D.aff_of(v['f']), D.aff_const(3)), D.aff_of(v['d']), -1), st=st):
                        msg = 'n is not f + 3 - d (the Thursday of the week)'
                    else:
                        nl, nh = D.get_iv(st, v['n'])
                        sl, sh = D.get_iv(st, v['s'])
                        q7 = D.divmod_vids(st, v['n'], 7)[0]
                        if nl >= 0 and (D.aff_equiv(D.aff_of(rv[1]), D.aff_add(D.aff_of(q7), D.aff_const(1)), st=st) or (nh <= 6 and D.get_iv(st, rv[1]) == (1, 1))):
                            kinds.add('middle')
                            thr = D.aff_add(D.aff_of(v['s']), D.aff_const(364))
                            # n <= 364 + s on this path: by intervals, or by the ordering fact against the code's own threshold value
                            from .props.C06 import vids_equal_to
                            by_rel = any(not (D.rel_get(st, v['n'], t_) - frozenset('<=')) for t_ in vids_equal_to(st, thr))
                            if not (nh <= 364 + sl or by_rel):
                                msg = 'n / 7 + 1 is returned although the Thursday may lie in the next year (n > 364 + s)'
                        elif D.get_iv(st, rv[1]) == (1, 1):
                            if nh < 362:
                                # the arm `n > 364 + s` with n far below 364: infeasible because s (a difference of two leap counts of
                                # consecutive years) is at least -1; the interval domain does not see that (same argument as the
                                # hand-discharged cast of this function, tables/hand_discharged.json)
                                total -= 1
                                continue
                            kinds.add('next-year')
                        elif nh < 0:
                            kinds.add('previous-year')
                        else:
                            msg = f'the result is neither n / 7 + 1, week 1 of the next year, nor the last week of the previous year (n in [{nl}, {nh}])'
            if msg:
                ctx.finding(f'C02:ISOWEEK|{M}', 'C02-W ISO week', span, f'days_to_wyear: {msg}')
            else:
                good += 1
    if not {'middle', 'next-year', 'previous-year'} <= kinds:
        ctx.finding('C02:ISOWEEK|coverage', 'C02-W ISO week', span, f'expected result paths for the three cases of the Thursday rule, seen {sorted(kinds)}')
    ctx.rule('C02-W ISO week: day of year, weekday of 1 January, Thursday rule', total, good, floor=12, sample={'cases': sorted(kinds)})
