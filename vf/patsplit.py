"""C11-S: how a pattern is cut into parts (util::parse::parse_format_string), decided as a transition table.

The function is a two-state machine over the characters of the pattern (inside / outside quoted text).  It is interpreted on an unknown
pattern for the first characters of every path (the loop is unrolled; results after a join are not judged); per character the rule reads
the events of the path -- the character, the value of the "inside quotes" flag before and after, whether a new part was pushed or the
character was appended to the last part, and the outcome of the "last part starts with this character" test -- and compares them with
the documented behaviour:

    quote,  outside  -> new part,            now inside          quote,  inside   -> appended,            now outside
    other,  inside   -> appended, stays inside
    other,  outside  -> appended if the last part starts with the same character (a run of one symbol), otherwise a new part

(`''` is replaced by a placeholder character before the scan and restored by the callers; that replacement is a std call.)  This is what
makes "fields are runs of one letter, quoted text is one part" true for every pattern, and it is independent of how the code writes the
decision (nested match, boolean expression, ...): only the events count."""
from . import domain as D
from .numeric import Numeric

FN = 'util::parse::parse_format_string'


def check_pattern_split(ctx, facts):
    if not ctx.anchor(facts.bodies, FN, 'C11-S pattern splitting'):
        return
    span = facts.bodies[FN]['span']
    N = Numeric(ctx, 'default', max_disj=600, max_steps=600_000)
    I = N.I
    names = {n for _l, n in facts.bodies[FN].get('names', [])}
    flags = [l for l, n in facts.bodies[FN].get('names', []) if facts.bodies[FN]['locals'][l].get('k') == 'bool']
    if len(flags) < 1:
        ctx.finding('C11:SPLIT|anchor', 'C11-S pattern splitting', span, 'parse_format_string has no boolean state (inside / outside quoted text)')
        return
    # the state flag: the boolean local that is assigned inside the loop (found by its type, not by its name)
    flag_names = [n for l, n in facts.bodies[FN].get('names', []) if l in flags]
    I.watch[FN] = flag_names
    m_vpush = I.find_model('std::vec::Vec::<T, A>::push')
    m_spush = I.find_model('std::string::String::push')
    m_sw = I.find_model('core::str::<impl str>::starts_with')
    m_next = I.find_model("<std::str::Chars<'a> as std::iter::Iterator>::next")

    def vpush(I_, st, args, dty, site):
        if site.get('fn', '').startswith(FN):
            st.trace = st.trace + (('newpart',),)
        return m_vpush(I_, st, args, dty, site)

    def spush(I_, st, args, dty, site):
        if site.get('fn', '').startswith(FN):
            st.trace = st.trace + (('append', args[1][1] if args[1][0] == 'i' else None),)
        return m_spush(I_, st, args, dty, site)

    def sw(I_, st, args, dty, site):
        if site.get('fn', '').startswith(FN):
            s1, s0 = st.clone(), st.clone()
            s1.trace = s1.trace + (('sw', 1),)
            s0.trace = s0.trace + (('sw', 0),)
            from .models import const_int
            return [(s1, const_int(1, 'bool')), (s0, const_int(0, 'bool'))]
        return m_sw(I_, st, args, dty, site)

    def nxt(I_, st, args, dty, site):
        outs = m_next(I_, st, args, dty, site)
        if site.get('fn', '') == FN:
            for s2, v in outs or []:
                if v[0] == 'e' and 1 in v[2] and 0 not in v[2] and v[2][1][0][0] == 'i':
                    s2.trace = s2.trace + (('ch', v[2][1][0][1]),)
                elif v[0] == 'e' and 0 in v[2] and 1 not in v[2]:
                    s2.trace = s2.trace + (('end',),)
        return outs
    I.models['std::vec::Vec::<T, A>::push'] = vpush
    I.models['std::string::String::push'] = spush
    I.models['core::str::<impl str>::starts_with'] = sw
    I.models["<std::str::Chars<'a> as std::iter::Iterator>::next"] = nxt
    I.unroll_for[FN] = 4
    I.return_partition[FN] = lambda I_, st, v: id(st)
    N.run(FN, variants=('fixed',))
    q = D.const_vid(39)
    seen = {}
    problems = {}
    for args, st0, outs in N.results.get(FN, []):
        for st, rv in outs:
            ev = [e for e in st.trace if isinstance(e, tuple) and e]
            flag = {}          # name -> 0/1
            steps = []
            cur = None
            nparts = 0
            # the state of the scan is the boolean that exists before the first character is read (other booleans are per-character temporaries)
            state_flags = []
            for e in ev:
                if e[0] == 'ch':
                    break
                if e[0] == 'wset' and e[1] == FN and e[2] in flag_names and e[2] not in state_flags:
                    state_flags.append(e[2])
            for e in ev:
                if e[0] == 'joined':
                    cur = None
                    break
                if e[0] == 'wset' and e[1] == FN and e[2] in flag_names and e[3] is not None and e[3][0] == 'i':
                    lo, hi = D.get_iv(st, e[3][1])
                    val = int(lo) if lo == hi else None
                    if cur is not None:
                        cur['after'][e[2]] = val
                    flag[e[2]] = val
                elif e[0] == 'ch':
                    if cur is not None:
                        steps.append(cur)
                    cur = {'c': e[1], 'before': dict(flag), 'after': {}, 'sw': None, 'act': [], 'parts_before': nparts}
                elif e[0] == 'end':
                    if cur is not None:
                        steps.append(cur)
                    cur = None
                elif cur is not None and e[0] == 'sw':
                    cur['sw'] = e[1]
                elif cur is not None and e[0] in ('newpart', 'append'):
                    cur['act'].append(e[0])
                    if e[0] == 'newpart':
                        nparts += 1
            for stp in steps:
                rel = D.rel_get(st, stp['c'], q)
                is_quote = True if rel == frozenset('=') else (False if '=' not in rel else None)
                # the state flag of this step: the watched boolean that has a known value before the character (the one the code toggles)
                fl = [n for n in state_flags if stp['before'].get(n) is not None]
                if is_quote is None or len(fl) != 1:
                    continue
                fname = fl[0]
                inside = bool(stp['before'][fname])
                after = stp['after'].get(fname, stp['before'][fname])
                if is_quote:
                    cat = 'quote inside' if inside else 'quote outside'
                    want_act, want_after = ('append' if inside else 'newpart'), (0 if inside else 1)
                elif inside:
                    cat, want_act, want_after = 'other inside', 'append', 1
                else:
                    if stp['sw'] is None and stp['parts_before'] == 0:
                        cat, want_act, want_after = 'other outside, no part yet', 'newpart', 0
                    elif stp['sw'] is None:
                        cat, want_act, want_after = 'other outside (no comparison with the last part)', None, 0
                    else:
                        cat = 'other outside, last part starts with it' if stp['sw'] else 'other outside, last part does not start with it'
                        want_act, want_after = ('append' if stp['sw'] else 'newpart'), 0
                seen[cat] = seen.get(cat, 0) + 1
                msg = None
                if want_act is None:
                    msg = 'outside quoted text a character other than a quote is handled without asking whether the last part starts with it (runs of one symbol)'
                elif stp['act'] != [want_act]:
                    msg = f'the character must be {"appended to the last part" if want_act == "append" else "pushed as a new part"}, the code does {stp["act"] or "nothing"}'
                elif after is None or int(after) != want_after:
                    msg = f'afterwards the scan must be {"inside" if want_after else "outside"} quoted text'
                if msg:
                    problems.setdefault(cat, msg)
    need = ['quote outside', 'quote inside', 'other inside', 'other outside, last part starts with it', 'other outside, last part does not start with it']
    for cat, msg in sorted(problems.items()):
        ctx.finding(f'C11:SPLIT|{cat}', 'C11-S pattern splitting', span, f'parse_format_string, {cat}: {msg}')
    missing = [c for c in need if c not in seen]
    if not seen and not problems:
        ctx.finding('C11:SPLIT|scan', 'C11-S pattern splitting', span,
                    'parse_format_string: the pattern is not scanned character by character (no step driven by the chars() of the pattern was found): '
                    'literal text of more than one byte per character would be torn apart')
    elif missing and not problems:
        ctx.finding('C11:SPLIT|coverage', 'C11-S pattern splitting', span, f'parse_format_string: no analysed step for the case(s) {missing}')
    ctx.rule('C11-S parse_format_string: quote toggles the state and opens / closes a part, other characters extend a run or start a part', max(len(need), 1),
             len([c for c in need if c in seen and c not in problems]), floor=5, sample={'steps per case': seen})
