"""C11 -- format renders every documented symbol exactly as the documented table says."""
from .. import domain as D
from ..numeric import Numeric
from ..entries import install_partitions
from .. import textsem as T
from .. import shape

LEVEL = 'other'
EXPLANATION = ('The three symbol tables in the doc comments of Date::format, Time::format and DateTime::format are parsed at run time and are the oracle. '
               'For every documented pattern run (and longer runs) the part formatter that the type uses is analysed on the literal run with the '
               'calendar/clock kernels replaced by value-partitioned summaries (month, weekday, hour and the sign of the year are case-split, the rest '
               'are ranges); format! is interpreted on its template, so every output path is a list of text segments (literals, zero-padded numbers). '
               'Decided per row: (R1) every documented example is producible by a segment list of the row with exactly the documented padding; '
               '(R2) each output path equals the table semantics for its case: the right kernel value (year, month, day, day of year, week, weekday '
               'numbering, 12/24 hour variants, minute, second), the right name table entry per month/weekday, era/period/zone shapes, pad widths; '
               '(R3) the value range equals the hint where one is given; (R4) longer runs behave as the starred default row; (R5) symbols outside the '
               'table are copied. Not decided: the kernels themselves (C01, C02, C08), the splitting of a pattern into runs (parse_format_string), '
               'sub-second digit values beyond their range, yy for negative years.')
META = {
    'technique': 'static analysis: abstract interpretation of the part formatters per documented pattern run (value-partitioned kernel summaries, '
                 'symbolic text segments from format! templates) compared with the Markdown symbol tables of the doc comments',
    'note': 'trusted: rustc MIR, vf/models.py (format! template decoding), kernels summarised (their correctness is C01/C02/C08)',
}

TYPES = [
    ('date::Date::format', 'util::format::format_date_part', 'date'),
    ('time::Time::format', 'util::format::format_time_part', 'time'),
    ('datetime::DateTime::format', 'util::format::format_part', 'both'),
]
DATE_SYMS = set('GyqMwdDe')
TIME_SYMS = set('abhHKkmsnXx')
NPD = 86_400 * 10**9
NPS = 10**9


def lit_arg(text):
    def f(I, st, ty):
        return ('str', I.lit_str(st, text))
    return f


def nanos_arg(I, st, ty):
    return I.top(st, ty, 'nanoseconds', lo=0, hi=NPD - 1)


def off_arg(I, st, ty):
    return I.top(st, ty, 'offset', lo=-86_399, hi=86_399)


CANON = {'util::format::format_date_part': ['chars', 'days'], 'util::format::format_time_part': ['chars', 'nanoseconds', 'offset'],
         'util::format::format_part': ['chars', 'days', 'nanoseconds', 'offset']}


class Runner:
    def __init__(self, ctx):
        self.ctx = ctx
        self.N = Numeric(ctx, 'default', max_disj=2000, max_steps=3_000_000)
        self.I = self.N.I
        install_partitions(self.I)
        self.K = T.Kernels(self.I)
        self.cache = {}
        self.abs_syms = {}
        self.off_vids = set()
        self.I.contracts['core::num::<impl i32>::unsigned_abs'] = self.unsigned_abs

    def unsigned_abs(self, I, st, args, dty, site):
        """|x| as a fresh non-negative symbol per sign of x (std semantics of unsigned_abs): every field derived from it is then
        a function of a non-negative quantity, which the div/mod linearisation handles exactly"""
        a = args[0]
        if a[0] != 'i' or a[1] not in self.off_vids:
            return None
        lo, hi = D.get_iv(st, a[1])
        outs = []
        if hi >= 0:
            s1 = st.clone()
            if D.set_iv(s1, a[1], max(lo, 0), hi):
                v = self.abs_syms.get((a[1], '+'))
                if v is None:
                    v = D.sym_vid(0, 86_399, '|offset| (offset >= 0)')
                    self.abs_syms[(a[1], '+')] = v
                s1.iv[v] = (max(lo, 0), hi)
                outs.append((s1, ('i', v, 'u32')))
        if lo < 0:
            s2 = st.clone()
            if D.set_iv(s2, a[1], lo, min(hi, -1)):
                v = self.abs_syms.get((a[1], '-'))
                if v is None:
                    v = D.sym_vid(1, 86_399, '|offset| (offset < 0)')
                    self.abs_syms[(a[1], '-')] = v
                s2.iv[v] = (max(1, -min(hi, -1)), -lo)
                outs.append((s2, ('i', v, 'u32')))
        return outs

    def off_arg(self, I, st, ty):
        v = I.top(st, ty, 'offset', lo=-86_399, hi=86_399)
        self.off_vids.add(v[1])
        return v

    def run(self, fn, pattern):
        key = (fn, pattern)
        if key in self.cache:
            return self.cache[key]
        I = self.I
        I.return_partition[fn] = lambda I_, st, v: id(st)
        for f in ('util::format::format_date_part', 'util::format::format_time_part', 'util::format::format_month', 'util::format::format_wday',
                  'util::format::format_period', 'util::format::format_zone', 'util::format::zero_padded', 'util::format::zero_padded_i',
                  'util::format::add_ordinal_indicator'):
            I.return_partition[f] = lambda I_, st, v: id(st)
        label = f'{fn}[{pattern}]'
        # parameters by their role; a renamed parameter is recognised by its position
        roles = CANON.get(fn)
        body = I.bodies[fn]
        if roles is None or len(roles) != body['argc']:
            roles = [n for _l, n in sorted(body.get('names', []))][:body['argc']]
        gens = {'chars': lit_arg(pattern), 'nanoseconds': nanos_arg, 'offset': self.off_arg}
        self.N.run(fn, label=label, overrides={f'{r}@{i + 1}': gens[r] for i, r in enumerate(roles) if r in gens}, variants=('fixed',))
        outs = []
        names = roles
        for args, st0, res in self.N.results.get(label, []):
            amap = dict(zip(names, args))
            for st, rv in res:
                outs.append((st, T.pieces_of(I, st, rv), amap))
        self.cache[key] = outs
        return outs


def env_of(R, st, amap):
    K = R.K
    env = {}
    d = amap.get('days')
    if d is not None and d[0] == 'i':
        lo, hi = D.get_iv(st, d[1])
        env['neg_days'] = True if hi < 0 else False if lo >= 0 else None
        env['days'] = d[1]
        y = K.syms.get(('Y', d[1]))
        if y is not None and y in st.iv:
            ylo, yhi = D.get_iv(st, y)
            env['neg_year'] = True if yhi < 0 else False if ylo > 0 else None
        env['Y'] = y
        for kind in ('M', 'D', 'DOY', 'W'):
            env[kind + '_sym'] = K.syms.get((kind, d[1]))
        env['M'] = K.const_of(st, 'M', (d[1],))
        for flag in (0, 1):
            env[f'WD{flag}'] = K.const_of(st, 'WD', (d[1], flag))
    n = amap.get('nanoseconds')
    if n is not None and n[0] == 'i':
        lo, hi = D.get_iv(st, n[1])
        env['nanos'] = n[1]
        env['nanos_iv'] = (lo, hi)
        env['h'] = K.const_of(st, 'h', (n[1],))
        env['m_sym'] = K.syms.get(('m', n[1]))
        env['s_sym'] = K.syms.get(('s', n[1]))
    o = amap.get('offset')
    if o is not None and o[0] == 'i':
        env['off'] = o[1]
        env['off_iv'] = D.get_iv(st, o[1])
        env['abs_syms'] = R.abs_syms
    return env


class Mismatch(Exception):
    pass


def need(v, what):
    if v is None:
        raise Mismatch(f'the analysis did not determine {what} on this path')
    return v


def width_default(k, default, mx):
    return default if k > mx else k


def expected(letter, k, env, st, pieces):
    """the table's meaning of `letter` repeated k times, for the case described by env: list of expected pieces
       ('lit', text) | ('val', width, const) | ('sym', width, coeff, sym vid, add) | ('rng', width, lo, hi)"""
    if letter == 'G':
        neg = need(env.get('neg_days'), 'the sign of the day number')
        if k <= 3:
            return [('lit', 'BC' if neg else 'AD')]
        if k == 5:
            return [('lit', 'B' if neg else 'A')]
        return [('lit', 'Before Christ' if neg else 'Anno Domini')]
    if letter == 'y':
        if k == 2:
            return 'yy'
        neg = need(env.get('neg_year'), 'the sign of the year')
        return ([('lit', '-')] if neg else []) + [('sym', k, -1 if neg else 1, need(env.get('Y'), 'the year'), 0)]
    if letter == 'q':
        q = (need(env.get('M'), 'the month') - 1) // 3 + 1
        if k in (1, 2):
            return [('val', k, q)]
        if k == 3:
            return [('lit', 'Q'), ('val', 1, q)]
        if k == 4:
            o = T.ordinal(q)
            return [('val', 1, q), ('lit', o[len(str(q)):] + ' quarter')]
        return [('val', 1, q)]
    if letter == 'M':
        m = need(env.get('M'), 'the month')
        if k in (1, 2):
            return [('val', k, m)]
        name = T.MONTH_WIDE[m - 1]
        return [('lit', name[:3] if k == 3 else name[:1] if k == 5 else name)]
    if letter == 'w':
        return [('sym', width_default(k, 2, 2), 1, need(env.get('W_sym'), 'the week of year'), 0)]
    if letter == 'd':
        return [('sym', width_default(k, 2, 2), 1, need(env.get('D_sym'), 'the day of month'), 0)]
    if letter == 'D':
        return [('sym', width_default(k, 1, 3), 1, need(env.get('DOY_sym'), 'the day of year'), 0)]
    if letter == 'e':
        if k in (7, 8):
            return [('val', k - 6, need(env.get('WD1'), 'the weekday (Monday first)') + 1)]
        wd = need(env.get('WD0'), 'the weekday (Sunday first)')
        if k in (1, 2):
            return [('val', k, wd + 1)]
        name = T.WDAY_WIDE[wd]
        if 3 <= k <= 6:
            return [('lit', {3: name[:3], 4: name, 5: name[:1], 6: name[:2]}[k])]
        return [('val', 1, wd + 1)]
    if letter in 'ab':
        nv = need(env.get('nanos'), 'the time of day')
        secs = D.divmod_vids(st, nv, NPS)[0]
        lo, hi = D.get_iv(st, secs)
        # a boundary value excluded by an earlier `!=` test is recorded as an ordering fact, not in the interval
        while lo < hi and '=' not in D.rel_get(st, secs, D.const_vid(lo)):
            lo += 1
        while lo < hi and '=' not in D.rel_get(st, secs, D.const_vid(hi)):
            hi -= 1
        L = width_default(k, 3, 5)
        names = {1: ('AM', 'PM', 'noon', 'midnight'), 2: ('AM', 'PM', 'noon', 'midnight'), 3: ('am', 'pm', 'noon', 'midnight'),
                 4: ('a.m.', 'p.m.', 'noon', 'midnight'), 5: ('a', 'p', 'n', 'mi')}[L]
        if letter == 'b':
            classes = [((0, 0), 3), ((43_200, 43_200), 2), ((1, 43_199), 0), ((43_201, 86_399), 1)]
        else:
            classes = [((0, 43_199), 0), ((43_200, 86_399), 1)]
        for (a, b), idx in classes:
            if a <= lo and hi <= b:
                return [('lit', names[idx])]
        raise Mismatch(f'one output path covers seconds of day {lo}..{hi}, which is not inside one documented period')
    if letter in 'hHKk':
        h = need(env.get('h'), 'the hour')
        v = {'h': 12 if h % 12 == 0 else h % 12, 'H': h, 'K': h % 12, 'k': 24 if h == 0 else h}[letter]
        return [('val', width_default(k, 2, 2), v)]
    if letter == 'm':
        return [('sym', width_default(k, 2, 2), 1, need(env.get('m_sym'), 'the minute'), 0)]
    if letter == 's':
        return [('sym', width_default(k, 2, 2), 1, need(env.get('s_sym'), 'the second'), 0)]
    if letter == 'n':
        L = width_default(k, 3, 5)
        digits = {1: 1, 2: 2, 3: 3, 4: 6, 5: 9}[L]
        return [('rng', digits, 0, 10 ** digits - 1)]
    if letter in 'Xx':
        return 'zone'
    return [('lit', letter * k)]


def term_shape(v, leaf, depth=0):
    """the defining expression of a value as a nested tuple, with `leaf` replaced by a placeholder and constants by their value"""
    if v == leaf:
        return 'ABS'
    if v in D.CONSTVAL:
        return ('c', D.CONSTVAL[v])
    t = D.TERM.get(v)
    if t is None or depth > 12:
        return ('v', v)
    return (t[0],) + tuple(term_shape(x, leaf, depth + 1) if isinstance(x, int) else x for x in t[1:])


def check_zone(letter, k, env, st, pieces, others=()):
    lo, hi = need(env.get('off_iv'), 'the offset')
    o = env['off']
    if letter == 'X' and lo == hi == 0:
        if pieces != [('lit', 'Z')]:
            raise Mismatch("offset 0 with X must print 'Z'")
        return
    if lo < 0 <= hi:
        raise Mismatch('one output path covers negative and non-negative offsets')
    neg = hi < 0
    if not pieces or pieces[0] != ('lit', '-' if neg else '+'):
        raise Mismatch(f"the sign of a {'negative' if neg else 'non-negative'} offset must be {'-' if neg else '+'}")
    rest = pieces[1:]
    nums = [p for p in rest if p[0] == 'zp']
    lits = [p[1] if p[0] == 'lit' else None for p in rest]
    colon = k not in (1, 2, 4)
    if any(p[0] not in ('zp', 'lit') for p in rest) or any(p[2] != 2 for p in nums):
        raise Mismatch('zone fields must be two-digit zero-padded numbers')
    # allowed shapes
    shapes = {1: (['n'], ['n', 'n']), 2: (['n', 'n'],), 4: (['n', 'n'], ['n', 'n', 'n']), 5: (['n', ':', 'n'], ['n', ':', 'n', ':', 'n'])}
    allowed = shapes.get(k, (['n', ':', 'n'],))
    got = ['n' if p[0] == 'zp' else p[1] for p in rest]
    if got not in [list(a) for a in allowed]:
        raise Mismatch(f'zone shape {got} is not one of {allowed} documented for {letter * k}')
    absv = env.get('abs_syms', {}).get((o, '-' if neg else '+'))
    if absv is None:
        raise Mismatch('the zone fields are not derived from offset.unsigned_abs()')
    q1, r1 = D.divmod_vids(st, absv, 3600)
    q2, r2 = D.divmod_vids(st, r1, 60)
    want = [q1, q2, r2]
    good = True
    for w, p in zip(want, nums):
        if p[1] != w and not D.aff_equiv(D.aff_of(p[1]), D.aff_of(w), st=st):
            good = False
    # fields that are not printed must be zero where the table makes them optional (X/x minutes, XXXX/XXXXX seconds)
    if k == 1 and len(nums) == 1 and D.get_iv(st, q2) != (0, 0):
        good = False
    if k in (4, 5) and len(nums) == 2 and D.get_iv(st, r2) != (0, 0):
        good = False
    if k == 1 and len(nums) == 2 and D.get_iv(st, q2)[0] < 1:
        good = False
    if k in (4, 5) and len(nums) == 3 and D.get_iv(st, r2)[0] < 1:
        good = False
    iv = None
    rng = [(0, 23), (0, 59), (0, 59)]
    for (a, b), p in zip(rng, nums):
        l, h = D.get_iv(st, p[1])
        if l < a or h > b:
            raise Mismatch(f'zone field range [{l}, {h}] exceeds [{a}, {b}]')
    if not good:
        raise Mismatch('the printed fields are not hour = |offset| / 3600, minute = |offset| % 3600 / 60, second = |offset| % 60 (or an optional field is dropped while it can be non-zero)')


def check_yy(R, env, st, pieces):
    """yy: the last two digits of the year (the year itself when its text has at most two characters), zero padded to 2"""
    I = R.I
    nums = [p for p in pieces if p[0] in ('zp', 'num')]
    if len(nums) != 1 or nums[0][0] != 'zp' or nums[0][2] != 2:
        raise Mismatch('expected one number zero padded to 2 digits')
    v = nums[0][1]
    Y = need(env.get('Y'), 'the year')
    ident = I.parsed_from.get(v)
    if ident is None:
        whole = D.aff_equiv(D.aff_of(v), D.aff_of(Y), st=st) or D.aff_equiv(D.aff_of(v), D.aff_scale(D.aff_of(Y), -1), st=st)
        if not whole:
            # the last two digits computed arithmetically: |year| mod 100
            for (x, c, q, r) in D.TRIPLES.get(v, ()):
                if r == v and c == 100 and (D.aff_equiv(D.aff_of(x), D.aff_of(Y), st=st) or D.aff_equiv(D.aff_of(x), D.aff_scale(D.aff_of(Y), -1), st=st)):
                    return
            raise Mismatch('the number is neither the year nor its last two digits')
        # the whole year is printed: only when its decimal text has at most two characters (-9 ..= 99)
        lens = getattr(I, 'int_text_len', {}).get(Y, [])
        ylo, yhi = D.get_iv(st, Y)
        short_text = bool(lens) and min(D.get_iv(st, lv)[1] for lv in lens) <= 2
        if not short_text and not (-9 <= ylo and yhi <= 99):
            raise Mismatch('the year is printed as it is on a path where its text can have more than two characters (yy shows the last two digits)')
        return
    so = I.slice_of.get(ident)
    if so is None:
        raise Mismatch('the two-digit year is parsed from a text that is not a part of the year')
    base, a, e = so
    if I.int_text.get(base) != Y:
        raise Mismatch('the two-digit year is not taken from the decimal text of the year')
    # the slice is [len - 2, len): find the length of the base text through the end bound
    ln = D.aff_add(D.aff_of(e), D.aff_of(a), -1)
    if D.eval_aff(st, ln) != (2, 2):
        raise Mismatch(f'the digits taken from the year are not exactly two ({D.eval_aff(st, ln)})')
    from ..models import strv_of
    # end == length of the text: the slice ends where the text ends (an open-ended range `[len-2..]`)
    if I.slice_end_is_len.get(ident) is not True:
        raise Mismatch('the two digits are not the last two of the year')


def env_of_zone(st, o):
    return {'off': o, 'off_iv': D.get_iv(st, o)}


def compare(exp, st, pieces):
    got = list(pieces)
    if len(got) != len(exp):
        raise Mismatch(f'expected {len(exp)} segment(s) {exp}, the code produces {T.render_shape(st, pieces)}')
    for e, g in zip(exp, got):
        if e[0] == 'lit':
            if g != ('lit', e[1]):
                raise Mismatch(f'expected the text {e[1]!r}, the code produces {T.render_shape(st, [g])}')
            continue
        if g[0] not in ('zp', 'num'):
            raise Mismatch(f'expected a number, the code produces {T.render_shape(st, [g])}')
        if g[2] != e[1]:
            raise Mismatch(f'expected zero padding to {e[1]} digit(s), the code pads to {g[2]}')
        lo, hi = D.get_iv(st, g[1])
        if e[0] == 'val':
            if (lo, hi) != (e[2], e[2]):
                raise Mismatch(f'expected the value {e[2]}, the code prints a value in [{lo}, {hi}]')
        elif e[0] == 'sym':
            want = D.aff_add(D.aff_scale(D.aff_of(e[3]), e[2]), D.aff_const(e[4]))
            if not D.aff_equiv(D.aff_of(g[1]), want, st=st):
                raise Mismatch(f'the printed number is not the expected kernel value ({D.NAME.get(e[3], e[3])} * {e[2]} + {e[4]})')
        elif e[0] == 'rng':
            if (lo, hi) != (e[2], e[3]):
                raise Mismatch(f'expected a value range [{e[2]}, {e[3]}], the code prints a value in [{lo}, {hi}]')


def check_arguments(ctx, facts):
    """D0b: the values handed to the part formatter are the local reading of the value: (days, nanoseconds) shifted by the resolved
    offset for DateTime, the shifted nanoseconds for Time, the day number for Date; and the offset argument is the resolved offset"""
    from ..entries import DATETIME, TIME, DATE
    for api, partfn, kind in TYPES:
        if api not in facts.bodies:
            continue
        N = Numeric(ctx, 'default', max_disj=200, max_steps=400_000)
        I = N.I
        seen = {'parts': [], 'shift': [], 'resolved': []}

        def part(I_, st, args, dty, site, seen=seen):
            seen['parts'].append(tuple(a[1] if a[0] == 'i' else None for a in args[1:]))
            s2 = st.clone()
            return [(s2, I_.top(s2, dty, 'formatted part'))]

        def shift_dn(I_, st, args, dty, site, seen=seen):
            s2 = st.clone()
            d = I_.top(s2, {'k': 'int', 's': True, 'bits': 32, 'name': 'i32'}, 'local days')
            n = I_.top(s2, {'k': 'int', 's': False, 'bits': 64, 'name': 'u64'}, 'local nanoseconds', lo=0, hi=NPD - 1)
            seen['shift'].append((tuple(a[1] if a[0] == 'i' else None for a in args), (d[1], n[1])))
            return [(s2, ('t', (d, n)))]

        def shift_n(I_, st, args, dty, site, seen=seen):
            s2 = st.clone()
            n = I_.top(s2, {'k': 'int', 's': False, 'bits': 64, 'name': 'u64'}, 'local nanoseconds', lo=0, hi=NPD - 1)
            seen['shift'].append((tuple(a[1] if a[0] == 'i' else None for a in args), (n[1],)))
            return [(s2, n)]
        I.contracts[partfn] = part
        I.contracts['util::offset::add_offset_to_dn'] = shift_dn
        I.contracts['util::offset::add_offset_to_nanos'] = shift_n
        inner = I.contracts.get('offset::Offset::resolve')

        def resolve(I_, st, args, dty, site, seen=seen, inner=inner):
            outs = inner(I_, st, args, dty, site) if inner else None
            for s2, v in outs or ():
                if v[0] == 'i':
                    seen['resolved'].append(v[1])
            return outs
        I.contracts['offset::Offset::resolve'] = resolve
        selfv = {}

        def grab(I_, st, ty, selfv=selfv):
            v = I_.top(st, ty, 'self')
            from ..entries import apply_invariants
            apply_invariants(I_, st, v)
            tgt = I_.read_resolved(st, ('L',) + v[1]) if v[0] == 'r' else v
            selfv['v'] = tgt
            return v
        N.run(api, overrides={'self': grab} if kind == 'date' else None)
        good = bool(seen['parts'])
        why = 'the part formatter is never reached'
        for p in seen['parts']:
            if kind == 'date':
                sv = selfv.get('v')
                days = sv[2][0][1] if sv and sv[0] == 's' else None
                if p[0] != days:
                    good, why = False, 'the day number handed to the part formatter is not self.days'
            else:
                sh = [x for x in seen['shift'] if tuple(x[1]) == tuple(p[:len(x[1])])]
                if not sh:
                    good, why = False, 'the value handed to the part formatter is not the result of add_offset_to_dn / add_offset_to_nanos'
                    continue
                off_in = sh[0][0][-1]
                if off_in not in seen['resolved'] or p[-1] != off_in:
                    good, why = False, 'the offset used for the shift / handed to the part formatter is not offset.resolve()'
        ctx.rule('C11-D0b the part formatter receives the local reading of the value and the resolved offset', 1, 1 if good else 0,
                 sample={'api': api, 'part calls observed': len(seen['parts'])})
        if not good:
            ctx.finding(f'C11:ARGS|{api}', 'C11-D0b arguments', facts.bodies[api]['span'], f'{api}: {why}')


def check(ctx):
    from ..patsplit import check_pattern_split
    R0 = Numeric(ctx)
    check_pattern_split(ctx, R0.facts)          # (before the Runner: every Numeric resets the global value tables)
    R = Runner(ctx)
    facts = R.N.facts
    g = shape.call_graph(facts)
    nrows = 0
    for api, partfn, kind in TYPES:
        if not ctx.anchor(facts.bodies, api, 'C11 format entry points') or not ctx.anchor(facts.bodies, partfn, 'C11 part formatter'):
            continue
        # the API formats every unquoted run with exactly this part formatter
        callees = set()
        for f in [api] + [c for c in g.get(api, ()) if c.startswith(api + '::{closure')]:
            callees |= g.get(f, set())
        used = {c for c in callees if c in ('util::format::format_date_part', 'util::format::format_time_part', 'util::format::format_part')}
        ctx.rule('C11-D0 the format API delegates each run to its part formatter', 1, 1 if used == {partfn} else 0, sample={'api': api, 'uses': sorted(used)})
        if used != {partfn}:
            ctx.finding(f'C11:DELEGATE|{api}', 'C11-D0', facts.bodies[api]['span'], f'{api} is expected to format runs with {partfn} only, it calls {sorted(used)}')
        rows = T.parse_doc_table(facts.bodies[api].get('docs') or '')
        ctx.rule('C11 documented table rows parsed', len(rows), len(rows), floor={'date': 25, 'time': 30, 'both': 55}[kind] - 5, sample={'api': api, 'rows': len(rows)})
        by_letter = {}
        for field, pats, ex, hint, unlimited in rows:
            for p in pats:
                by_letter.setdefault(p[0], []).append((len(p), ex, hint, unlimited))
        want = DATE_SYMS if kind == 'date' else TIME_SYMS if kind == 'time' else DATE_SYMS | TIME_SYMS
        if set(by_letter) != want:
            ctx.finding(f'C11:SYMBOLS|{api}', 'C11-D1 symbol set', None, f'documented symbols of {api} are {sorted(by_letter)}, expected {sorted(want)}')
        for letter, lst in sorted(by_letter.items()):
            kmax = max(k for k, *_ in lst)
            star = [k for k, _e, hint, _u in lst if '*' in hint]
            unlimited = any(u for *_x, u in lst)
            ks = sorted({k for k, *_ in lst} | {kmax + 1, kmax + 3})
            shapes = {}
            for k in ks:
                pat = letter * k
                outs = R.run(partfn, pat)
                nrows += 1
                key = f'{api}|{pat}'
                if not outs:
                    ctx.finding(f'C11:NORESULT|{key}', 'C11 coverage', None, f'{partfn}({pat!r}) produced no output path')
                    continue
                bad = None
                for st, pieces, amap in outs:
                    try:
                        env = env_of(R, st, amap)
                        exp = expected(letter, k if not (unlimited and k > kmax) else k, env, st, pieces)
                        if letter == 'y' and k > kmax and not unlimited:
                            exp = None
                        if exp == 'zone':
                            check_zone(letter, k, env, st, pieces, outs)
                        elif exp == 'yy':
                            check_yy(R, env, st, pieces)
                        elif exp is not None:
                            compare(exp, st, pieces)
                        elif any(p[0] == 'opq' for p in pieces):
                            raise Mismatch('the output text could not be described')
                    except Mismatch as e:
                        bad = (str(e), T.render_shape(st, pieces))
                        break
                ctx.rule('C11-R2 every output path of a pattern run has the table semantics', 1, 0 if bad else 1,
                         sample={'pattern': pat, 'paths': len(outs), 'example path': T.render_shape(outs[0][0], outs[0][1])})
                if bad:
                    ctx.finding(f'C11:SEMANTICS|{key}', 'C11-R2 table semantics', facts.bodies[partfn]['span'],
                                f'{api}: pattern {pat!r}: {bad[0]} (output path: {bad[1]})')
                shapes[k] = sorted({T.shape_key(st, pieces) for st, pieces, _a in outs}, key=repr)
                # R1 / R3 on documented rows
                for kk, ex, hint, _u in lst:
                    if kk != k:
                        continue
                    for e in ex:
                        good = any(T.match_example(st, pieces, e) for st, pieces, _a in outs)
                        ctx.rule('C11-R1 documented example producible with the documented padding', 1, 1 if good else 0, sample={'pattern': pat, 'example': e})
                        if not good:
                            ctx.finding(f'C11:EXAMPLE|{key}|{e}', 'C11-R1 examples', None,
                                        f'{api}: the documented example {e!r} of pattern {pat!r} cannot be produced; the code produces: ' +
                                        '; '.join(sorted({T.render_shape(st, pieces) for st, pieces, _a in outs})[:6]))
                    import re
                    m = re.search(r'\[?(\d+)-(\d+)\]?', hint)
                    if m:
                        lo, hi = int(m.group(1)), int(m.group(2))
                        vals = [D.get_iv(st, p[1]) for st, pieces, _a in outs for p in pieces if p[0] in ('zp', 'num')]
                        got = (min(v[0] for v in vals), max(v[1] for v in vals)) if vals else None
                        ctx.rule('C11-R3 value range equals the documented hint', 1, 1 if got == (lo, hi) else 0, sample={'pattern': pat, 'hint': hint})
                        if got != (lo, hi):
                            ctx.finding(f'C11:RANGE|{key}', 'C11-R3 hint range', None, f'{api}: pattern {pat!r} is documented as {lo}-{hi}, the code prints values in {got}')
            # R4: longer runs behave as the starred row (or keep growing for the unlimited year)
            if star and not unlimited:
                for k in (kmax + 1, kmax + 3):
                    same = shapes.get(k) == shapes.get(star[0])
                    ctx.rule('C11-R4 longer runs behave as the default row', 1, 1 if same else 0, sample={'pattern': letter * k, 'default': letter * star[0]})
                    if not same:
                        ctx.finding(f'C11:DEFAULT|{api}|{letter * k}', 'C11-R4 default row', None,
                                    f'{api}: {letter * k!r} is longer than every documented run and must behave as the default {letter * star[0]!r}')
        # R5: symbols outside the table are copied
        for pat in ('Q', 'zz', 'T', '-', 'Y'):
            if pat[0] in by_letter:
                continue
            outs = R.run(partfn, pat)
            good = bool(outs) and all(pieces == [('lit', pat)] for _st, pieces, _a in outs)
            ctx.rule('C11-R5 characters outside the table are copied', 1, 1 if good else 0, sample={'pattern': pat})
            if not good:
                ctx.finding(f'C11:LITERAL|{api}|{pat}', 'C11-R5 literals', None, f'{api}: {pat!r} is not a documented symbol and must be copied unchanged')
    check_arguments(ctx, facts)
    ctx.cov['pattern_runs_analysed'] = nrows
    ctx.cov['entries'] += [f'{fn}[{p}]' for (fn, p) in R.cache]
    R.N.judge(kinds=('ARITH', 'BOUNDS', 'CAST', 'UNWRAP', 'PANIC', 'STDPRE'), allowed_causes=())
    ctx.cov['trusted_base'] += ['rustc MIR of the dev profile', 'vf/models.py rows: ' + ', '.join(sorted(R.I.models_used))[:900]]
