"""C10 -- an offset changes how an instant is read, never which instant it is (DESIGN section 4, C10)."""
from .. import domain as D
from ..absint import const_int
from ..numeric import Numeric, flow_walk, NPD, OFF_MAX, DATETIME, TIME, OFFSET
from ..entries import MIN_I, MAX_I, mk_datetime, mk_time
from ..models import deref
from .C03 import value_vids, offset_symbols
from .C04 import instant, struct_of

LEVEL = 'other'
EXPLANATION = ('(D1) set_offset copies days and nanoseconds and stores the given offset; (D2) every DateTime/Time getter reads the '
               'fields only through a value that is provably the instant shifted by +1e9*offset (exact affine identity at the day/nanosecond '
               'split for DateTime, congruence modulo 24 h with range [0, 24 h) for Time): neither the result nor any branch on the way '
               'depends on the raw fields or the offset except through that value; (D3) as_offset builds the instant I - 1e9*offset and stores the '
               'offset, so the local reading is unchanged; (D4) Offset::from_seconds/from_hms accept exactly [-86_399, 86_399] / '
               '[-23,23]x[0,59]^2, store seconds == +/-(3600h+60m+s), resolve returns the stored value and resolve_hms decomposes it exactly; '
               '(D5) no getter can panic when the value is at least one day inside the range ends; (D6) the zone fields of format (x/X runs of '
               '1..5 letters, Time and DateTime part formatters) print the sign of the carried offset and |offset| split into hours, minutes, '
               'seconds on every output path. Getter numerics beyond the shift are not decided.')
META = {
    'technique': 'static analysis: MIR abstract interpretation; exact affine identity of the shifted instant, flows-only-through dependence on the definition DAG, passthrough by value identity; symbolic output text of the zone field per pattern run',
    'note': 'trusted: rustc MIR, vf/models.py. Getters at the two extreme representable days are covered by the known finding C10:EDGE (local instant outside the range).',
}

DTD = '<datetime::DateTime as shared::DateUtilities>::'
DTT = '<datetime::DateTime as shared::TimeUtilities>::'
TT = '<time::Time as shared::TimeUtilities>::'
DT_GETTERS = [DTD + g for g in ('year', 'month', 'day', 'day_of_year', 'weekday')] + [DTT + g for g in ('hour', 'minute', 'second', 'milli', 'micro', 'nano')]
T_GETTERS = [TT + g for g in ('hour', 'minute', 'second', 'milli', 'micro', 'nano')]


def margin_dt(I, st, ty):
    """&DateTime at least one day inside the range ends, offset Fixed(sym)"""
    v = mk_datetime(I, st, 'fixed', 'self', local_in_range=False)
    D.set_iv(st, v[2][0][1], -(1 << 31) + 1, (1 << 31) - 2)
    return ('r', I.alloc(st, v))


def check_dt_getter(ctx, N, fn):
    I = N.I
    n = ok = 0
    for args, st0, outs in N.results.get(fn, []):
        recv = struct_of(I, st0, args[0], DATETIME)
        offs = offset_symbols(I, st0, args)
        if not offs:
            continue
        (off,) = tuple(offs)[:1]
        X = D.aff_add(instant(recv), D.aff_scale(D.aff_of(off), 10**9))
        raw = {recv[2][0][1], recv[2][1][1], off}
        for st, rv in outs:
            n += 1
            # cut vids: the shifted instant itself, and (d, n) pairs with 86_400e9*d + n == X, 0 <= n < 86_400e9
            cand = [v for v in st.iv if v not in D.CONSTVAL and v not in raw]
            xs = {v for v in D.AFF_INDEX.get(X.key(), ())}
            lns = set()
            for v in cand:
                lo, hi = D.get_iv(st, v)
                if 0 <= lo and hi < NPD and (v in D.TRIPLES or v in D.AFF) and D.aff_equiv(D.aff_of(v), X, NPD, st=st):
                    lns.add(v)
            lds = set()
            for v in cand:
                if v in lns:
                    continue
                lo, hi = D.get_iv(st, v)
                if lo < -(1 << 31) or hi >= (1 << 31) or not (v in D.TRIPLES or v in D.AFF):
                    continue
                for ln in lns:
                    if D.aff_equiv(D.aff_add(D.aff_scale(D.aff_of(v), NPD), D.aff_of(ln)), X, 0, st=st):
                        lds.add(v)
                        break
            cuts = xs | lns | lds
            vv = set()
            value_vids(rv, vv)
            # data dependence of the result (control dependence is not checked here: the split itself branches on the sign of `days`)
            bad, opaque = flow_walk(st, vv, lambda v: v in cuts, raw)
            if not bad and not opaque and (lns or xs):
                ok += 1
            else:
                ctx.finding(f'C10:READS-RAW|{fn}', 'F6 flows only through the shifted instant', I.bodies[fn]['span'],
                            f'{fn}: the result or a branch depends on {sorted(D.NAME.get(b, b) for b in bad)} (opaque: {len(opaque)}) without passing through '
                            f'the instant shifted by the offset (86_400e9*days + nanoseconds + 1e9*offset); shifted-value candidates found: {len(cuts)}')
    ctx.rule('C10-D2 DateTime getters read through the offset', n, ok, floor=1, sample={'getter': fn})


def check_time_getter(ctx, N, fn):
    I = N.I
    n = ok = 0
    for args, st0, outs in N.results.get(fn, []):
        recv = struct_of(I, st0, args[0], TIME)
        offs = offset_symbols(I, st0, args)
        if not offs:
            continue
        (off,) = tuple(offs)[:1]
        X = D.aff_add(D.aff_of(recv[2][0][1]), D.aff_scale(D.aff_of(off), 10**9))
        raw = {recv[2][0][1], off}
        for st, rv in outs:
            n += 1
            cuts = set()
            for v in st.iv:
                if v in raw or v in D.CONSTVAL:
                    continue
                lo, hi = D.get_iv(st, v)
                if 0 <= lo and hi < NPD and (v in D.TRIPLES or v in D.AFF or v in D.TERM) and D.aff_equiv(D.aff_of(v), X, NPD, st=st):
                    cuts.add(v)
            vv = set()
            value_vids(rv, vv)
            bad, opaque = flow_walk(st, vv | {t for t in st.tested if isinstance(t, int)}, lambda v: v in cuts, raw)
            if not bad and not opaque and cuts:
                ok += 1
            else:
                ctx.finding(f'C10:READS-RAW|{fn}', 'F6 flows only through the shifted time of day', I.bodies[fn]['span'],
                            f'{fn}: the result depends on {sorted(D.NAME.get(b, b) for b in bad)} without passing through (nanoseconds + 1e9*offset) mod 24 h')
    ctx.rule('C10-D2 Time getters read through the offset', n, ok, floor=1, sample={'getter': fn})


def check(ctx):
    N = Numeric(ctx)
    I = N.I
    # ---- D1: set_offset
    for ty, path in (('datetime::DateTime', DATETIME), ('time::Time', TIME)):
        fn = f'<{ty} as shared::OffsetUtilities>::set_offset'
        N.run(fn, local_in_range=False)
        n = ok = 0
        for args, st0, outs in N.results.get(fn, []):
            recv = struct_of(I, st0, args[0], path)
            for st, rv in outs:
                n += 1
                if rv[0] == 's' and rv[1] == path and rv[2][:-1] == recv[2][:-1] and rv[2][-1] == args[1]:
                    ok += 1
                else:
                    ctx.finding(f'C10:SETOFFSET|{fn}', 'F6 passthrough', I.bodies[fn]['span'], f'{fn}: fields are not copied unchanged / offset not stored as given')
        ctx.rule('C10-D1 set_offset passthrough', n, ok, floor=1)
        fn = f'<{ty} as shared::OffsetUtilities>::get_offset'
        N.run(fn)
        n = ok = 0
        for args, st0, outs in N.results.get(fn, []):
            recv = struct_of(I, st0, args[0], path)
            for st, rv in outs:
                n += 1
                ok += 1 if rv == recv[2][-1] else 0
                if rv != recv[2][-1]:
                    ctx.finding(f'C10:GETOFFSET|{fn}', 'F6 passthrough', None, f'{fn} does not return the stored offset')
        ctx.rule('C10-D1 get_offset passthrough', n, ok, floor=1)
    # ---- D3: as_offset
    fn = '<datetime::DateTime as shared::OffsetUtilities>::as_offset'
    N.run(fn)
    n = ok = 0
    for args, st0, outs in N.results.get(fn, []):
        recv = struct_of(I, st0, args[0], DATETIME)
        o = args[1]
        offv = o[2][0][0][1] if 0 in o[2] else getattr(I, '_local_off', {}).get(fn)
        for st, rv in outs:
            n += 1
            exp = D.aff_add(instant(recv), D.aff_scale(D.aff_of(offv), 10**9), -1)
            if rv[0] == 's' and D.aff_equiv(instant(rv), exp, 0, st=st) and rv[2][2] == o:
                ok += 1
            else:
                ctx.finding(f'C10:ASOFFSET|{fn}', 'AFF', I.bodies[fn]['span'], 'DateTime::as_offset: result instant is not I - 1e9*offset with the offset stored')
    ctx.rule('C10-D3 as_offset moves the instant by minus the offset', n, ok, floor=1)
    fn = '<time::Time as shared::OffsetUtilities>::as_offset'
    N.run(fn)
    n = ok = 0
    for args, st0, outs in N.results.get(fn, []):
        recv = struct_of(I, st0, args[0], TIME)
        o = args[1]
        offv = o[2][0][0][1] if 0 in o[2] else getattr(I, '_local_off', {}).get(fn)
        for st, rv in outs:
            n += 1
            exp = D.aff_add(D.aff_of(recv[2][0][1]), D.aff_scale(D.aff_of(offv), 10**9), -1)
            if rv[0] == 's' and D.aff_equiv(D.aff_of(rv[2][0][1]), exp, NPD, st=st) and rv[2][1] == o:
                ok += 1
            else:
                ctx.finding(f'C10:ASOFFSET|{fn}', 'AFF', I.bodies[fn]['span'], 'Time::as_offset: result is not (t - 1e9*offset) mod 24 h with the offset stored')
    ctx.rule('C10-D3 as_offset (Time)', n, ok, floor=1)
    # ---- D4: Offset constructors / resolve
    fn = 'offset::Offset::from_seconds'
    N.run(fn)
    n = ok = 0
    hull = None
    for args, st0, outs in N.results.get(fn, []):
        for st, rv in outs:
            if rv[0] == 'e' and set(rv[2]) == {0}:
                n += 1
                val = rv[2][0][0]
                l, h = D.get_iv(st, args[0][1])
                hull = (l, h) if hull is None else (min(l, hull[0]), max(h, hull[1]))
                if val[0] == 'e' and set(val[2]) == {0} and val[2][0][0][1] == args[0][1]:
                    ok += 1
                else:
                    ctx.finding('C10:FROMSECONDS', 'passthrough', I.bodies[fn]['span'], 'Offset::from_seconds does not store its argument unchanged')
    ctx.rule('C10-D4 from_seconds stores its argument', n, ok, floor=1)
    good = hull == (-OFF_MAX, OFF_MAX)
    ctx.rule('C10-D4 from_seconds accepts exactly +/-86_399', 1, 1 if good else 0)
    if not good:
        ctx.finding('C10:ACCEPT|offset::Offset::from_seconds', 'accepted set', I.bodies[fn]['span'], f'Offset::from_seconds accepts {hull}, documented range is [-86399, 86399]')
    fn = 'offset::Offset::from_hms'
    N.run(fn)
    n = ok = 0
    hulls = [None, None, None]
    for args, st0, outs in N.results.get(fn, []):
        h_, m_, s_ = args
        for st, rv in outs:
            if rv[0] == 'e' and set(rv[2]) == {0}:
                n += 1
                for i, a in enumerate(args):
                    l, h = D.get_iv(st, a[1])
                    hulls[i] = (l, h) if hulls[i] is None else (min(l, hulls[i][0]), max(h, hulls[i][1]))
                val = rv[2][0][0][2][0][0]
                mag = D.aff_add(D.aff_scale(D.aff_of(m_[1]), 60), D.aff_of(s_[1]))
                lo, hi = D.get_iv(st, h_[1])
                sign = 1 if lo >= 0 else (-1 if hi < 0 else 0)
                exp = D.aff_add(D.aff_scale(D.aff_of(h_[1]), 3600), mag, sign)
                if sign and D.aff_equiv(D.aff_of(val[1]), exp, 0, st=st):
                    ok += 1
                else:
                    ctx.finding('C10:FROMHMS', 'AFF', I.bodies[fn]['span'], f'Offset::from_hms: stored seconds are not 3600*h +/- (60*m + s): got {D.aff_of(val[1])}')
    ctx.rule('C10-D4 from_hms stores 3600h +/- (60m+s)', n, ok, floor=2)
    good = hulls == [(-23, 23), (0, 59), (0, 59)]
    ctx.rule('C10-D4 from_hms accepted set', 1, 1 if good else 0)
    if not good:
        ctx.finding('C10:ACCEPT|offset::Offset::from_hms', 'accepted set', I.bodies[fn]['span'], f'Offset::from_hms accepts {hulls}')
    # resolve on Fixed returns the payload (real body, no contract)
    con = I.contracts.pop('offset::Offset::resolve')
    fn = 'offset::Offset::resolve'
    N.run(fn, label=fn + ' [Fixed]', variants=('fixed',))
    n = ok = 0
    for args, st0, outs in N.results.get(fn + ' [Fixed]', []):
        for st, rv in outs:
            n += 1
            if rv[0] == 'i' and rv[1] == args[0][2][0][0][1]:
                ok += 1
            else:
                ctx.finding('C10:RESOLVE', 'passthrough', I.bodies[fn]['span'], 'Offset::resolve(Fixed(s)) does not return s')
    ctx.rule('C10-D4 resolve(Fixed(s)) == s', n, ok, floor=1)
    I.contracts['offset::Offset::resolve'] = con
    fn = 'offset::Offset::resolve_hms'
    # the offset is +-(3600 H + 60 M + S) with H = 0..23 one by one and M, S symbolic in [0, 59]: whatever formula the code uses, the
    # result must be (+-H, M, S) -- hour with the sign of the offset, minute and second as magnitudes
    I32_ = {'k': 'int', 's': True, 'bits': 32, 'name': 'i32'}
    MV, SV = D.sym_vid(0, 59, 'M'), D.sym_vid(0, 59, 'S')
    n = ok = 0
    saved_res = I.contracts.get('offset::Offset::resolve')
    cases = [(sg, H, (0, 59), (0, 59)) for sg in (1, -1) for H in range(24) if not (sg == -1 and H == 0)]
    cases += [(-1, 0, (0, 59), (1, 59)), (-1, 0, (1, 59), (0, 0))]        # a negative offset below one hour is not zero
    for sign, H, mr, sr in cases:
        if True:
            def res(I_, st, args, dty, site, sign=sign, H=H, mr=mr, sr=sr):
                st.iv[MV], st.iv[SV] = mr, sr
                v = I_.binop(st, 'Mul', ('i', MV, 'i32'), const_int(60 * sign, 'i32'), I32_, None, None)
                v = I_.binop(st, 'Add', v, I_.binop(st, 'Mul', ('i', SV, 'i32'), const_int(sign, 'i32'), I32_, None, None), I32_, None, None)
                v = I_.binop(st, 'Add', v, const_int(3600 * H * sign, 'i32'), I32_, None, None)
                return [(st, v)]
            I.contracts['offset::Offset::resolve'] = res
            label = f'{fn}[{"+" if sign > 0 else "-"}{H}h {mr} {sr}]'
            N.run(fn, label=label, variants=('fixed',))
            for args, st0, outs in N.results.get(label, []):
                for st, rv in outs:
                    n += 1
                    good = False
                    if rv[0] == 't' and len(rv[1]) == 3 and all(x[0] == 'i' for x in rv[1]):
                        h_, m_, s_ = rv[1]
                        hv = D.get_iv(st, h_[1])
                        good = (hv == (sign * H, sign * H) and D.aff_equiv(D.aff_of(m_[1]), D.Aff({MV: 1}, 0), 0, st=st)
                                and D.aff_equiv(D.aff_of(s_[1]), D.Aff({SV: 1}, 0), 0, st=st))
                    if good:
                        ok += 1
                    else:
                        ctx.finding('C10:RESOLVEHMS', 'AFF', I.bodies[fn]['span'],
                                    f'Offset::resolve_hms: for an offset of {"+" if sign > 0 else "-"}({H} h, M min, S s) the result is not ({sign * H}, M, S)')
    if saved_res is not None:
        I.contracts['offset::Offset::resolve'] = saved_res
    else:
        I.contracts.pop('offset::Offset::resolve', None)
    ctx.rule('C10-D4 resolve_hms decomposes the offset', n, ok, floor=1)

    # ---- D2 / D5: getters, one day inside the range ends
    for fn in DT_GETTERS:
        N.run(fn, overrides={'self': margin_dt}, local_in_range=False)
        check_dt_getter(ctx, N, fn)
    for fn in T_GETTERS:
        N.run(fn, variants=('fixed',))
        check_time_getter(ctx, N, fn)
    N.judge(allowed_causes=('<datetime::DateTime as shared::OffsetUtilities>::set_offset', 'util::time::convert::nanos_to_days_nanos'),
            kinds=('ARITH', 'BOUNDS', 'CAST', 'UNWRAP', 'PANIC', 'STDPRE', 'INV', 'OOR'),
            scope=lambda o: not (o.kind == 'PANIC' and o.fn.startswith('<datetime::DateTime as shared::OffsetUtilities>::set_offset')))
    ctx.cov['designated'] += 0

    # ---- edge of the range: getters without the one-day margin (known finding C10:EDGE)
    N2 = Numeric(ctx)
    for fn in DT_GETTERS:
        N2.run(fn, local_in_range=False, variants=('fixed',))
    for key, o in N2.I.obl.items():
        if o.kind == 'UNWRAP' and o.fail:
            ctx.cov['obligations'] += 1
            ctx.finding(f'C10:EDGE|{o.id()}', 'F1 at the range ends', o.span,
                        f'{o.fn}: a getter can panic for a value on the first/last representable day whose local time lies outside the range '
                        f'(entries: {len(o.entries)})', {'entries': sorted(o.entries)})
    ctx.cov['trusted_base'] += ['rustc MIR of the dev profile', 'vf/models.py rows: ' + ', '.join(sorted(I.models_used))[:400]]

    # ---- D6: the zone fields of format (x / X runs of 1..5) show the offset the value carries: the sign is the sign of the offset,
    # the fields are |offset| / 3600, |offset| % 3600 / 60, |offset| % 60 (the zone rule of C11, applied here to the clause
    # "every formatted field equals that of the instant shifted by the offset"; run last: a new Numeric resets the value tables)
    from . import C11
    R = C11.Runner(ctx)
    n = ok = 0
    for api, partfn, kind in C11.TYPES:
        if kind == 'date':
            continue
        if not ctx.anchor(R.N.facts.bodies, partfn, 'C10-D6 part formatter'):
            continue
        for letter in 'xX':
            for k in range(1, 6):
                pat = letter * k
                outs = R.run(partfn, pat)
                n += 1
                bad = None if outs else 'no output path'
                for st, pieces, amap in outs or ():
                    try:
                        C11.check_zone(letter, k, C11.env_of(R, st, amap), st, pieces, outs)
                    except C11.Mismatch as e:
                        bad = str(e)
                        break
                if bad:
                    ctx.finding(f'C10:ZONE|{partfn}|{pat}', 'C10-D6 zone fields show the offset', R.N.facts.bodies[partfn]['span'],
                                f'{api}: pattern {pat!r}: {bad}')
                else:
                    ok += 1
    ctx.rule('C10-D6 zone fields (x/X, 1..5 letters, Time and DateTime) print the sign and |offset| split of the carried offset', n, ok, floor=20)

