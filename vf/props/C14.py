"""C14 -- text-consuming APIs return a Result for every input and never panic (DESIGN section 4, C14)."""
from .. import domain as D
from ..numeric import Numeric, run_entries_parallel
from ..entries import install_splitter_contract

LEVEL = 'other'
EXPLANATION = ('Every text entry point (parse, from_str, format, Display::fmt of Date/Time/DateTime, parse_rfc3339, format_rfc3339, '
               'CronSchedule::parse / from_str) is analysed with completely unknown input and pattern strings (any length, any Unicode content): '
               'every reachable MIR assertion (overflow, bounds), lossy cast, unwrap/expect, explicit panic and every call of a std function with a '
               'precondition (range index on str/String, replace_range, slice index, pow, step_by, split_at) is discharged; byte-range operations on text '
               'are accepted only by the F8 idioms (ASCII established, index is the byte length / a literal prefix length); the non-emptiness of format '
               'parts is derived from parse_format_string (element summary of the Vec), not assumed; every DateTime/Time/Offset value constructed on an Ok '
               'path satisfies the representation invariants. The only designated panic is the system clock being before 1970 (yy pattern).')
META = {
    'technique': 'static analysis: MIR abstract interpretation with a string abstraction (byte length, char count, ASCII, literal prefixes), collection element summaries, failure-freedom obligations read off the MIR',
    'note': 'trusted: rustc MIR, vf/models.py (std effect table incl. the str APIs), assumption A-CLOCK; one hand-discharged relational cast in days_to_wyear',
}

ENTRIES = [
    'date::Date::parse', 'time::Time::parse', 'datetime::DateTime::parse', 'datetime::DateTime::parse_rfc3339',
    'date::Date::format', 'time::Time::format', 'datetime::DateTime::format', 'datetime::DateTime::format_rfc3339',
    '<date::Date as std::str::FromStr>::from_str', '<time::Time as std::str::FromStr>::from_str', '<datetime::DateTime as std::str::FromStr>::from_str',
    '<date::Date as std::fmt::Display>::fmt', '<time::Time as std::fmt::Display>::fmt', '<datetime::DateTime as std::fmt::Display>::fmt',
    'cron::CronSchedule::parse', '<cron::CronSchedule as std::str::FromStr>::from_str',
]
# entry points that are themselves called by other entry points: callers use their (total, analysed) summary
SUMMARISED = ['date::Date::parse', 'time::Time::parse', 'datetime::DateTime::parse', 'datetime::DateTime::parse_rfc3339',
              'date::Date::format', 'time::Time::format', 'datetime::DateTime::format', 'cron::CronSchedule::parse']


# calendar constructors analysed for all arguments by C01 / C15 (total, Ok implies a valid value): summarised here too
KERNELS = ['date::Date::from_ymd', 'datetime::DateTime::from_ymd', 'util::date::convert::date_to_days', 'util::date::convert::year_doy_to_days']


INLINE_KERNELS = ('datetime::DateTime::parse_rfc3339', '<datetime::DateTime as std::str::FromStr>::from_str')


def install_entry_summaries(I):
    """a call of another analysed entry point from inside an entry point is replaced by top of its return type:
    that function is analysed on its own for *all* argument values, so nothing is lost"""
    def make(fn):
        def contract(I_, st, args, dty, site):
            if I_.cur_entry == fn or not I_.stack:
                return None
            if fn in KERNELS and I_.cur_entry in INLINE_KERNELS:
                return None     # parse_rfc3339 needs the year bound (0..=9999) to show that applying the zone cannot leave the range
            s = st.clone()
            v = I_.top(s, dty, 'summary') if dty is not None else ('top', None)
            from ..entries import apply_invariants
            apply_invariants(I_, s, v)
            return [(s, v)]
        return contract
    for fn in SUMMARISED + KERNELS:
        I.contracts[fn] = make(fn)


def check(ctx):
    N = Numeric(ctx, max_disj=48)
    facts = N.facts
    for fn in ENTRIES:
        ctx.anchor(facts.bodies, fn, 'C14 entry points')
    entries = [fn for fn in ENTRIES if fn in facts.bodies]
    per_entry = {fn: {'max_disj': 48} for fn in entries if fn.startswith('cron::') or 'cron::' in fn}
    stats = run_entries_parallel(ctx, N, entries, opts={'numeric': {'max_disj': 400}, 'per_entry': per_entry,
                                                        'setup': (install_splitter_contract, install_entry_summaries)}, procs=12)
    ctx.cov['entry_stats'] = stats
    for fn, s in stats.items():
        good = s['result_disjuncts'] > 0
        ctx.rule('C14 entry analysed to completion', 1, 1 if good else 0, sample={'entry': fn, **s})
        if not good:
            ctx.finding(f'C14:NORESULT|{fn}', 'coverage', None, f'{fn}: the analysis produced no returning path')
    ctx.assumptions.append('A-CLOCK: SystemTime::now() is not before 1970 and before year 5_879_611 (the yy pattern reads the clock)')
    ctx.assumptions.append('K-SPLIT: nanos_to_days_nanos / secs_to_days_nanos contract (proved by check C04)')
    # the cast and the arithmetic inside days_to_wyear (reached through the w pattern) depend on relations between leap counts that the
    # interval domain does not keep; they are decided by the exhaustive year-class analysis of that function (vf/isoweek.py)
    from ..isoweek import discharge_wyear_obligations
    discharge_wyear_obligations(ctx)
    N.judge(allowed_causes=('std::time::SystemTime::duration_since',))
    ctx.cov['trusted_base'] += ['rustc MIR of the dev profile', 'vf/models.py rows: ' + ', '.join(sorted(N.I.models_used))[:900]]
