"""C20 -- default text forms (Display, FromStr, serde) name the value they came from (wiring part)."""
from .. import domain as D
from ..numeric import Numeric
from ..models import strv_of, deref, FMTARGS, FMTARG, decode_template

LEVEL = 'other'
EXPLANATION = ('Decided on the MIR of the trait impls (default and serde configuration): Display::fmt writes exactly the String returned by self.format with the '
               'documented literal pattern (yyyy/MM/dd, HH:mm:ss, yyyy/MM/dd HH:mm:ss); FromStr::from_str returns, unchanged, the result of parse(s, '
               '"yyyy-MM-dd") / parse(s, "HH:mm:ss") / parse_rfc3339(s) on its own argument; Serialize hands serialize_str exactly the String of '
               'self.format(pattern) / format_rfc3339(Seconds) where the pattern is the one FromStr reads; the visitor returns value.parse::<T>() '
               '(that FromStr) with the error mapped, never unwrapped; Deserialize asks for a string with that visitor. What the patterns print and '
               'read is C11 / C13 (and C12, not claimed); that malformed strings do not panic in parse is C14.')
META = {
    'technique': 'static analysis: call wiring and constant agreement on the MIR of Display / FromStr / Serialize / Deserialize impls (recording summaries of format / parse, value identity of arguments and results)',
    'note': 'trusted: rustc MIR (default and serde cfg), vf/models.py',
    'configs': ['default', 'serde'],
}

TYPES = {
    'date::Date': {'display': 'yyyy/MM/dd', 'read': ('parse', 'yyyy-MM-dd'), 'ser': ('format', 'yyyy-MM-dd'), 'mod': 'date', 'vis': 'DateVisitor'},
    'time::Time': {'display': 'HH:mm:ss', 'read': ('parse', 'HH:mm:ss'), 'ser': ('format', 'HH:mm:ss'), 'mod': 'time', 'vis': 'TimeVisitor'},
    'datetime::DateTime': {'display': 'yyyy/MM/dd HH:mm:ss', 'read': ('parse_rfc3339', None), 'ser': ('format_rfc3339', 'Seconds'), 'mod': 'datetime', 'vis': 'DateTimeVisitor'},
}


def lit_of(I, st, v):
    sv = strv_of(I, st, v)
    if sv is not None and sv.lits is not None and len(sv.lits) == 1:
        return next(iter(sv.lits))
    return None


class Wiring:
    """run one small function with recording summaries for the named callees"""

    def __init__(self, ctx, cfg, fn, callees):
        self.N = Numeric(ctx, cfg, max_disj=100, max_steps=200_000)
        self.I = self.N.I
        self.calls = []
        self.entry_args = None
        for c in callees:
            self.I.contracts[c] = self.make(c)
        self.writes = []
        self.I.observers["std::fmt::Formatter::<'a>::write_fmt"] = lambda I_, st, args, site: self.writes.append((st, args))
        self.I.observers["std::fmt::Formatter::<'a>::write_str"] = lambda I_, st, args, site: self.writes.append((st, args, 'write_str'))
        self.sers = []
        self.I.observers['serde::Serializer::serialize_str'] = lambda I_, st, args, site: self.sers.append((st, args))
        self.I.return_partition[fn] = lambda I_, st, v: id(st)
        self.fn = fn
        self.N.run(fn, variants=('fixed',))
        self.results = self.N.results.get(fn, [])

    def make(self, name):
        def contract(I_, st, args, dty, site):
            s2 = st.clone()
            r = I_.top(s2, dty, 'result of ' + name.split('::')[-1])
            self.calls.append((name, st, args, r))
            return [(s2, r)]
        return contract

    def same_obj(self, st, a, b):
        """do two references / values denote the same value (same place or identical abstract value)?"""
        I = self.I
        if a == b:
            return True
        da = deref(I, st, a) if a[0] == 'r' else a
        db = deref(I, st, b) if b[0] == 'r' else b
        return da is not None and da == db


def check_type(ctx, cfg, path, spec, facts):
    T = path.split('::')[-1]
    # ---- Display
    fn = f'<{path} as std::fmt::Display>::fmt'
    if ctx.anchor(facts.bodies, fn, 'C20 Display'):
        W = Wiring(ctx, cfg, fn, [f'{path}::format'])
        msg = None
        fm = [c for c in W.calls if c[0].endswith('::format')]
        if len(fm) != 1:
            msg = f'expected one call of {T}::format, found {len(fm)}'
        else:
            _n, st, args, r = fm[0]
            lit = lit_of(W.I, st, args[1])
            me = W.results[0][0][0]
            if lit != spec['display']:
                msg = f'the pattern is {lit!r}, documented: {spec["display"]!r}'
            elif not W.same_obj(st, args[0], me):
                msg = 'format is not applied to self'
            elif len(W.writes) != 1:
                msg = f'expected one write to the formatter, found {len(W.writes)}'
            else:
                wst, wargs = W.writes[0][0], W.writes[0][1]
                a = wargs[1]
                okw = False
                if len(W.writes[0]) > 2:
                    # f.write_str(&text): the text itself
                    sv_ = strv_of(W.I, wst, a)
                    rs = strv_of(W.I, wst, r)
                    okw = sv_ is not None and rs is not None and sv_.ident == rs.ident
                elif a[0] == 's' and a[1] == FMTARGS and a[2][0][0] == 'a' and a[2][1][0] == 'a':
                    bs = [int(D.get_iv(wst, b[1])[0]) for b in a[2][0][1]]
                    tm = decode_template(bs)
                    fa = a[2][1][1]
                    if tm is not None and len(tm) == 1 and tm[0][0] == 'ph' and len(fa) == 1 and fa[0][0] == 's' and fa[0][1] == FMTARG:
                        sv = fa[0][2][0]
                        rs = strv_of(W.I, wst, r)
                        okw = sv[0] == 'str' and rs is not None and sv[1].ident == rs.ident
                if not okw:
                    msg = 'what is written to the formatter is not exactly the formatted string'
        ctx.rule('C20-D1 Display writes self.format(documented pattern)', 1, 0 if msg else 1, sample={'type': T, 'cfg': cfg})
        if msg:
            ctx.finding(f'C20:DISPLAY|{T}', 'C20-D1', facts.bodies[fn]['span'], f'{fn}: {msg}')
    # ---- FromStr
    fn = f'<{path} as std::str::FromStr>::from_str'
    kind, pat = spec['read']
    if ctx.anchor(facts.bodies, fn, 'C20 FromStr'):
        W = Wiring(ctx, cfg, fn, [f'{path}::{kind}'])
        msg = None
        cs = W.calls
        if len(cs) != 1:
            msg = f'expected one call of {T}::{kind}, found {len(cs)}'
        else:
            _n, st, args, r = cs[0]
            sarg = W.results[0][0][0]
            sa, sb = strv_of(W.I, st, args[0]), strv_of(W.I, st, sarg)
            if sa is None or sb is None or sa.ident != sb.ident:
                msg = 'the string that is parsed is not the argument'
            elif pat is not None and lit_of(W.I, st, args[1]) != pat:
                msg = f'the pattern is {lit_of(W.I, st, args[1])!r}, documented: {pat!r}'
            else:
                outs = [rv for _a, _s, o in W.results for _st, rv in o]
                if len(outs) != 1 or outs[0] != r:
                    msg = 'the result of the parser is not returned unchanged'
        ctx.rule('C20-D2 FromStr returns parse(argument, documented pattern) unchanged', 1, 0 if msg else 1, sample={'type': T, 'cfg': cfg})
        if msg:
            ctx.finding(f'C20:FROMSTR|{T}', 'C20-D2', facts.bodies[fn]['span'], f'{fn}: {msg}')
    if cfg != 'serde':
        return
    # ---- Serialize
    m = spec['mod']
    fn = f'serde::{m}::<impl serde::Serialize for {path}>::serialize'
    kind, pat = spec['ser']
    if ctx.anchor(facts.bodies, fn, 'C20 Serialize'):
        W = Wiring(ctx, cfg, fn, [f'{path}::{kind}'])
        msg = None
        cs = W.calls
        if len(cs) != 1:
            msg = f'expected one call of {T}::{kind}, found {len(cs)}'
        else:
            _n, st, args, r = cs[0]
            me = W.results[0][0][0]
            if not W.same_obj(st, args[0], me):
                msg = f'{kind} is not applied to self'
            elif kind == 'format' and lit_of(W.I, st, args[1]) != pat:
                msg = f'the pattern is {lit_of(W.I, st, args[1])!r}; FromStr (used to deserialize) reads {pat!r}'
            elif kind == 'format_rfc3339':
                pv = args[1]
                adt = facts.adts.get('shared::Precision')
                names = [v['name'] for v in adt['variants']] if adt else []
                # any precision is read back by parse_rfc3339 (C13): the property only needs the instant to the second
                if pv[0] != 'e' or len(pv[2]) != 1 or names[next(iter(pv[2]))] not in names:
                    msg = 'the precision is not one Precision variant'
            if msg is None:
                if len(W.sers) != 1:
                    msg = f'expected one call of serialize_str, found {len(W.sers)}'
                else:
                    sst, sargs = W.sers[0]
                    sv, rs = strv_of(W.I, sst, sargs[1]), strv_of(W.I, sst, r)
                    if sv is None or rs is None or sv.ident != rs.ident:
                        msg = 'the string handed to serialize_str is not the formatted string'
        ctx.rule('C20-D3 Serialize hands serialize_str the documented text form of self', 1, 0 if msg else 1, sample={'type': T})
        if msg:
            ctx.finding(f'C20:SERIALIZE|{T}', 'C20-D3', facts.bodies[fn]['span'], f'{fn}: {msg}')
    # ---- Visitor::visit_str
    fn = f"<serde::{m}::{spec['vis']} as serde::de::Visitor<'_>>::visit_str"
    if ctx.anchor(facts.bodies, fn, 'C20 visit_str'):
        W = Wiring(ctx, cfg, fn, [f'<{path} as std::str::FromStr>::from_str'])
        msg = None
        cs = W.calls
        if len(cs) != 1:
            msg = f'expected one use of {T}::from_str (value.parse()), found {len(cs)}'
        else:
            _n, st, args, r = cs[0]
            varg = W.results[0][0][1]
            sa, sb = strv_of(W.I, st, args[0]), strv_of(W.I, st, varg)
            if sa is None or sb is None or sa.ident != sb.ident:
                msg = 'the string that is parsed is not the visited value'
            else:
                oks = [rv for _a, _s, o in W.results for _st, rv in o if rv[0] == 'e' and 0 in rv[2]]
                src = r[2].get(0) if r[0] == 'e' else None
                if not oks or any(rv[2][0] != src for rv in oks):
                    msg = 'an Ok result is not the parsed value'
        N = W.N
        N.judge(kinds=('UNWRAP', 'PANIC', 'ARITH', 'BOUNDS', 'STDPRE'), allowed_causes=())
        ctx.rule('C20-D4 the visitor returns value.parse::<T>() with the error mapped', 1, 0 if msg else 1, sample={'type': T})
        if msg:
            ctx.finding(f'C20:VISIT|{T}', 'C20-D4', facts.bodies[fn]['span'], f'{fn}: {msg}')
    # ---- Deserialize
    fn = f"serde::{m}::<impl serde::Deserialize<'de> for {path}>::deserialize"
    if ctx.anchor(facts.bodies, fn, 'C20 Deserialize'):
        calls = []
        for blk in facts.bodies[fn]['blocks']:
            t = blk['term']
            if t['t'] == 'call':
                f = t['func']
                calls.append((f.get('decl') or f.get('id'), [a.get('path') if a else None for a in (f.get('tyargs') or [])]))
        good = len(calls) == 1 and calls[0][0] == 'serde::Deserializer::deserialize_str' and f"serde::{m}::{spec['vis']}" in calls[0][1]
        ctx.rule('C20-D5 Deserialize asks for a string with the visitor of the type', 1, 1 if good else 0, sample={'type': T})
        if not good:
            ctx.finding(f'C20:DESERIALIZE|{T}', 'C20-D5', facts.bodies[fn]['span'], f'{fn}: expected exactly deserializer.deserialize_str({spec["vis"]}), found {calls}')
    # the serialised form is the one FromStr reads
    if spec['ser'][0] == 'format' and spec['read'][0] == 'parse':
        same = spec['ser'][1] == spec['read'][1]
        ctx.rule('C20-D6 the pattern written by Serialize is the pattern read by FromStr', 1, 1 if same else 0)


def check(ctx):
    for cfg in ('default', 'serde'):
        N0 = Numeric(ctx, cfg)
        facts = N0.facts
        for path, spec in TYPES.items():
            check_type(ctx, cfg, path, spec, facts)
    ctx.cov['entries'] += [f'{p} ({c})' for p in TYPES for c in ('default', 'serde')]
    ctx.cov['trusted_base'] += ['rustc MIR of the dev profile (default and serde cfg)', 'vf/models.py']
