"""C09 -- setting or clearing one field changes exactly that field, in local time (DESIGN section 4, C09)."""
from .. import domain as D
from ..numeric import Numeric, local_split, aff_equal_cong, NPD, DATETIME, DATE, TIME
from ..models import deref
from .C03 import offset_symbols
from .C04 import instant, struct_of
from ..entries import install_splitter_contract

LEVEL = 'other'
EXPLANATION = ('For every value, offset and argument at once. Clock fields (DateTime and Time, set_hour..set_nano, clear_until_hour..nano): '
               'the local instant L = I + 1e9*offset changes by exactly U*(v - old digit) resp. -(L mod U), where the old digit and the remainder are '
               'the div/mod digits of the local nanoseconds at the unit of that field (exact affine identity; for Time modulo 24 h with the '
               'canonical range), and the offset is copied. Date fields (set_year..set_day_of_year, clear_until_year/month/day): the calendar triple '
               'handed to date_to_days / year_doy_to_days is the local date with exactly the addressed component replaced (value identity with what '
               'days_to_date returned for the local day), the resulting local instant is 86_400e9*new day + the unchanged (or zeroed) local time of day, '
               'and the offset is copied. Which calendar date a day number denotes is C01.')
META = {
    'technique': 'static analysis: MIR abstract interpretation; affine identities over div/mod digits of the local instant, value identity of calendar components at the kernel call sites',
    'note': 'trusted: rustc MIR, vf/models.py, the calendar kernels days_to_date/date_to_days (C01). clear_until_* can panic on the first/last representable days (known findings).',
}

DTD = 'util::date::convert::date_to_days'
YDD = 'util::date::convert::year_doy_to_days'
D2D = 'util::date::convert::days_to_date'
H, M, S = 3_600 * 10**9, 60 * 10**9, 10**9
# field: (unit, enclosing unit)  -- digit = (ln mod enclosing) div unit
SET_UNITS = {'hour': (H, NPD), 'minute': (M, H), 'second': (S, M), 'milli': (10**6, S), 'micro': (10**3, S), 'nano': (1, S)}
CLEAR_UNITS = {'hour': NPD, 'minute': H, 'second': M, 'milli': S, 'micro': 10**6, 'nano': 10**3}


def digit(st, ln, unit, enclosing):
    v = ln
    if enclosing < NPD or True:
        if enclosing != NPD:
            _, v = D.divmod_vids(st, ln, enclosing)
    if unit == 1:
        return D.aff_of(v)
    q, _ = D.divmod_vids(st, v, unit)
    return D.aff_of(q)


def remainder(st, ln, unit):
    lo, hi = D.get_iv(st, ln)
    if hi < unit and lo >= 0:
        return D.aff_of(ln)
    _, r = D.divmod_vids(st, ln, unit)
    return D.aff_of(r)


def recv_parts(I, st0, args, path):
    recv = struct_of(I, st0, args[0], path)
    offs = offset_symbols(I, st0, args)
    off = sorted(offs)[0] if offs else None
    return recv, off


def shifted(recv, off, path):
    base = instant(recv) if path == DATETIME else D.aff_of(recv[2][0][1])
    return D.aff_add(base, D.aff_scale(D.aff_of(off), 10**9))


def result_struct(rv, path):
    if rv[0] == 'e' and rv[1].endswith('Result'):
        if set(rv[2]) != {0}:
            return None
        rv = rv[2][0][0]
    return rv if rv[0] == 's' and rv[1] == path else None


def check_clock(ctx, N, fn, path, mode, field):
    """mode 'set' | 'clear' for DateTime / Time"""
    I = N.I
    n = ok = 0
    for args, st0, outs in N.results.get(fn, []):
        recv, off = recv_parts(I, st0, args, path)
        X = shifted(recv, off, path)
        raw = {recv[2][0][1], off} | ({recv[2][1][1]} if path == DATETIME else set())
        for st, rv in outs:
            res = result_struct(rv, path)
            if res is None:
                continue
            n += 1
            why = None
            lds, lns = local_split(st, X, exclude=raw)
            if not lns and not (mode == 'clear' and field == 'hour' and path == TIME):
                why = 'no value on this path is provably the local time of day (nanoseconds + 1e9*offset, reduced to the day)'
            else:
                RX = shifted(res, off, path)
                good = False
                for ln in (lns or {None}):
                    if mode == 'set':
                        unit, enc = SET_UNITS[field]
                        exp = D.aff_add(X, D.aff_scale(D.aff_add(D.aff_of(args[1][1]), digit(st, ln, unit, enc), -1), unit))
                    elif ln is None:
                        exp = None
                    else:
                        exp = D.aff_add(X, remainder(st, ln, CLEAR_UNITS[field]), -1)
                    if path == DATETIME:
                        if exp is not None and D.aff_equiv(RX, exp, 0, st=st):
                            good = True
                    else:
                        lo, hi = D.get_iv(st, res[2][0][1])
                        if ln is None:
                            # Time::clear_until_hour: local time becomes 00:00:00
                            if D.aff_equiv(RX, D.aff_const(0), NPD, st=st) and 0 <= lo and hi < NPD:
                                good = True
                        elif D.aff_equiv(RX, exp, NPD, st=st) and 0 <= lo and hi < NPD:
                            good = True
                    if good:
                        break
                if not good:
                    why = f'local instant of the result is not the local instant with exactly the {field} field {"replaced" if mode == "set" else "and everything finer cleared"}'
            if why is None and res[2][-1] != recv[2][-1]:
                why = 'the offset is not copied'
            if why is None:
                ok += 1
            else:
                ctx.finding(f'C09:LOCAL|{fn}', 'AFF local field edit', I.bodies[fn]['span'], f'{fn}: {why}')
    ctx.rule('C09 clock field edits in local time', n, ok, floor=1, sample={'fn': fn})


def check_date_field(ctx, N, fn, path, mode, field):
    """set_year/month/day/day_of_year and clear_until_year/month/day for Date and DateTime"""
    I = N.I
    d2d_pairs = []      # (argument vid, (y, m, d) result vids)
    cal_pairs = []      # (args, callee, [Ok result vids])
    pend = {'d2d': [], 'cal': []}

    def obs_d2d(I_, st, args, site):
        pend['d2d'].append(args[0][1] if args[0][0] == 'i' else None)

    def obs_cal(I_, st, args, site):
        pend['cal'].append((tuple(a[1] if a[0] == 'i' else None for a in args), site['callee'], st.clone()))

    def ret_hook(I_, f, depth, results):
        if f == D2D and pend['d2d']:
            a = pend['d2d'].pop()
            for st, rv in results:
                if rv[0] == 't' and all(x[0] == 'i' for x in rv[1]):
                    d2d_pairs.append((a, tuple(x[1] for x in rv[1])))
        elif f in (DTD, YDD) and pend['cal']:
            a, callee, cst = pend['cal'].pop()
            rets = [rv[2][0][0][1] for st, rv in results if rv[0] == 'e' and 0 in rv[2] and rv[2][0][0][0] == 'i']
            cal_pairs.append((a, callee, rets, cst))
    I.return_hooks.append(ret_hook)
    I.observers[DTD] = obs_cal
    I.observers[YDD] = obs_cal
    I.observers[D2D] = obs_d2d
    try:
        N.run(fn, variants=('fixed',))
    finally:
        I.return_hooks.remove(ret_hook)
        for k in (DTD, YDD, D2D):
            del I.observers[k]
    n = ok = 0
    for args, st0, outs in N.results.get(fn, []):
        if path == DATETIME:
            recv, off = recv_parts(I, st0, args, path)
            X = shifted(recv, off, path)
            raw = {recv[2][0][1], recv[2][1][1], off}
        else:
            recv, off, X = struct_of(I, st0, args[0], path), None, None
        for st, rv in outs:
            res = result_struct(rv, path)
            if res is None:
                continue
            n += 1
            if path == DATETIME:
                lds, lns = local_split(st, X, exclude=raw)
                RX = shifted(res, off, path)
            else:
                lds, lns = {recv[2][0][1]}, set()

            def result_is(day_form):
                if path == DATE:
                    return D.aff_equiv(D.aff_of(res[2][0][1]), day_form, 0, st=st)
                if res[2][2] != recv[2][2]:
                    return False
                if mode == 'clear':
                    return D.aff_equiv(RX, D.aff_scale(day_form, NPD), 0, st=st)
                return any(aff_equal_cong(st, RX, D.aff_add(D.aff_scale(day_form, NPD), D.aff_of(ln)), NPD) for ln in lns)

            good = False
            why = 'no calendar call on this path replaces exactly the addressed component of the local date'
            if mode == 'clear' and field == 'year':
                good = result_is(D.aff_const(0))
                why = 'the result is not local 0001-01-01T00:00:00 with the offset copied'
            else:
                v = args[1][1] if mode == 'set' else None

                def is_const(x, c, s_):
                    return x is not None and D.get_iv(s_, x) == (c, c)
                srcs = [t for (a, t) in d2d_pairs if a in lds]
                if not srcs:
                    why = 'days_to_date is not applied to the local day (the day of the instant shifted by the offset)'
                for (y, m, d) in srcs:
                    for (a_, callee, rets, cst) in cal_pairs:
                        if callee == YDD:
                            match = field == 'day_of_year' and mode == 'set' and a_[0] == y and a_[1] == v and is_const(a_[2], 0, cst)
                        elif mode == 'set':
                            match = tuple(a_) == {'year': (v, m, d), 'month': (y, v, d), 'day': (y, m, v)}.get(field)
                        else:
                            match = a_[0] == y and ((field == 'month' and is_const(a_[1], 1, cst)) or (field == 'day' and a_[1] == m)) and is_const(a_[2], 1, cst)
                        if not match:
                            continue
                        why = 'the result is not built from the day number the calendar kernel returned (plus the unchanged local time of day / offset)'
                        if any(result_is(D.aff_of(r)) for r in rets):
                            good = True
                            break
                    if good:
                        break
            if good:
                ok += 1
            else:
                ctx.finding(f'C09:LOCAL|{fn}', 'local date edit', I.bodies[fn]['span'], f'{fn}: {why}')
    ctx.rule('C09 date field edits in local time', n, ok, floor=1, sample={'fn': fn})


def check(ctx):
    N = Numeric(ctx)
    I = N.I
    install_splitter_contract(I)
    ctx.assumptions.append('K-SPLIT: nanos_to_days_nanos / secs_to_days_nanos return the Euclidean quotient and remainder of their argument (proved by check C04, rule C04-K, on every run)')
    for ty, path in (('datetime::DateTime', DATETIME), ('time::Time', TIME)):
        for field in SET_UNITS:
            fn = f'<{ty} as shared::TimeUtilities>::set_{field}'
            N.run(fn, variants=('fixed',))
            check_clock(ctx, N, fn, path, 'set', field)
        for field in CLEAR_UNITS:
            fn = f'<{ty} as shared::TimeUtilities>::clear_until_{field}'
            N.run(fn, variants=('fixed',))
            check_clock(ctx, N, fn, path, 'clear', field)
    for ty, path in (('datetime::DateTime', DATETIME), ('date::Date', DATE)):
        for field in ('year', 'month', 'day', 'day_of_year'):
            check_date_field(ctx, N, f'<{ty} as shared::DateUtilities>::set_{field}', path, 'set', field)
        for field in ('year', 'month', 'day'):
            check_date_field(ctx, N, f'<{ty} as shared::DateUtilities>::clear_until_{field}', path, 'clear', field)
    N.judge(allowed_causes=(), kinds=('ARITH', 'BOUNDS', 'CAST', 'UNWRAP', 'PANIC', 'STDPRE', 'INV'))
    ctx.cov['trusted_base'] += ['rustc MIR of the dev profile', 'calendar kernels days_to_date/date_to_days/year_doy_to_days (C01)',
                                'vf/models.py rows: ' + ', '.join(sorted(I.models_used))[:400]]
