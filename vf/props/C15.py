"""C15 -- fallible constructors accept exactly the valid inputs and reject the rest (DESIGN section 4, C15)."""
from .. import domain as D
from ..numeric import Numeric, OOR

LEVEL = 'proof'
EXPLANATION = ('Every public function returning Result<_, AstrolabeError> (constructors and set_*) is analysed for all argument '
               'tuples: (D1) at every OutOfRange construction site whose message states a range, the rejected value is provably outside '
               'the stated range (O1) and every value accepted on an Ok exit is inside it (O2); (D2) no panic, overflow or lossy cast is '
               'reachable; (D3) every Ok value satisfies the representation invariants.')
META = {
    'technique': 'static analysis: MIR abstract interpretation; guard/message consistency at every OutOfRange construction site',
    'note': 'trusted: rustc MIR with overflow checks, vf/models.py; assumption A-LOCALRANGE for incoming DateTime values',
}

ENTRIES = [
    'date::Date::from_ymd', 'datetime::DateTime::from_ymd', 'datetime::DateTime::from_ymdhms', 'datetime::DateTime::from_hms',
    'time::Time::from_hms', 'time::Time::from_seconds', 'time::Time::from_nanos',
    'offset::Offset::from_seconds', 'offset::Offset::from_hms',
]
for _ty, _tr, _ms in (('date::Date', 'DateUtilities', ('set_year', 'set_month', 'set_day', 'set_day_of_year')),
                      ('datetime::DateTime', 'DateUtilities', ('set_year', 'set_month', 'set_day', 'set_day_of_year')),
                      ('datetime::DateTime', 'TimeUtilities', ('set_hour', 'set_minute', 'set_second', 'set_milli', 'set_micro', 'set_nano')),
                      ('time::Time', 'TimeUtilities', ('set_hour', 'set_minute', 'set_second', 'set_milli', 'set_micro', 'set_nano'))):
    for _m in _ms:
        ENTRIES.append(f'<{_ty} as shared::{_tr}>::{_m}')


def public_result_fns(facts):
    """census: public functions / trait methods whose return type is Result<_, AstrolabeError> and that take no text"""
    out = []
    for b in facts.body_list:
        if b['kind'] not in ('Fn', 'AssocFn'):
            continue
        rt = b['locals'][0]
        if rt.get('k') != 'adt' or not rt['path'].endswith('result::Result') or len(rt['args']) < 2:
            continue
        if rt['args'][1].get('path') != 'errors::AstrolabeError':
            continue
        is_pub = b['vis'] == 'Public' or (b['id'].startswith('<') and ' as shared::' in b['id'])
        if not is_pub:
            continue
        takes_text = any(l.get('k') == 'ref' and l['to'].get('k') == 'str' for l in b['locals'][1:b['argc'] + 1])
        if takes_text:
            continue
        out.append(b['id'])
    return out


DTD = 'util::date::convert::date_to_days'
YDD = 'util::date::convert::year_doy_to_days'
MIN_YEAR, MAX_YEAR = -5_879_611, 5_879_611


def oor_payload(rv):
    """the OutOfRange struct carried by an Err result, or None"""
    try:
        e = rv[2][1][0]
        s = e[2][0][0]
        return s[2] if s[0] == 's' and s[1] == OOR else None
    except (KeyError, IndexError, TypeError):
        return None


def edge_cases(ctx, N):
    """D1x: single years, path by path (no joins): the day-number kernels are analysed with the year pinned to MIN_DATE.0 / MAX_DATE.0 and to
    a common and a leap year of each era, every other argument symbolic.  For every error path that states a range for argument p, the Ok paths of the
    same case (every other argument inside the values it has on the error path) give the accepted values of p exactly; the stated range
    must contain them (O2, both ends -- also the end that a sibling guard in another function enforces) and exclude the rejected value (O1)."""
    from ..models import const_int
    I = N.I
    total = good = 0
    for fn in (DTD, YDD):
        if fn not in I.bodies:
            ctx.finding(f'C15:ANCHOR|{fn}', 'C15-D1x', None, f'ANCHOR-MISSING: {fn}')
            continue
        old_part = I.return_partition.get(fn)
        I.return_partition[fn] = lambda I_, st, v: id(st)
        span = I.bodies[fn]['span']
        for year in (MIN_YEAR, MAX_YEAR, 2023, 2024, -5, -6):          # the two edge years, a common and a leap year of each era
            label = f'{fn}[year {year}]'
            N.run(fn, label=label, overrides={'year@1': lambda I_, st, ty, year=year: const_int(year, 'i32')}, variants=('fixed',))
            for args, st0, outs in N.results.get(label, []):
                params = [a[1] for a in args if a[0] == 'i']
                oks = [(st, rv) for st, rv in outs if rv[0] == 'e' and set(rv[2]) == {0}]
                for st, rv in outs:
                    pl = oor_payload(rv) if (rv[0] == 'e' and 1 in rv[2]) else None
                    if pl is None:
                        continue
                    name, mn, mx, val, custom, cond = pl
                    if custom[0] == 'e' and 1 in custom[2]:
                        continue          # states no range
                    if not (mn[0] == mx[0] == val[0] == 'i') or val[1] not in params:
                        continue
                    total += 1
                    pv = val[1]
                    others = [q for q in params if q != pv and q not in D.CONSTVAL]
                    (l1, h1), (l2, h2), (vl, vh) = D.get_iv(st, mn[1]), D.get_iv(st, mx[1]), D.get_iv(st, pv)
                    fname = sorted(name[1].lits)[0] if name[0] == 'str' and name[1].lits else '?'
                    case = ', '.join(f'{D.NAME.get(q, q)} in {D.get_iv(st, q)}' for q in others)
                    msg = None
                    if not (vh < l1 or vl > h2):
                        msg = f'O1: the rejected {fname} in [{vl}, {vh}] is not outside the stated range [{l1}, {h2}]'
                    for so, ro in oks:
                        if all(D.get_iv(st, q)[0] <= D.get_iv(so, q)[0] and D.get_iv(so, q)[1] <= D.get_iv(st, q)[1] for q in others):
                            al, ah = D.get_iv(so, pv)
                            if al < h1 or ah > l2:
                                msg = msg or (f'O2: in the year {year} ({case}) a {fname} in [{al}, {ah}] is accepted, but the error for a rejected {fname} '
                                              f'states the range [{h1}, {l2}]')
                    if msg:
                        ctx.finding(f'C15:EDGE-RANGE|{fn}|{year}|{fname}|{"above" if vl > h2 else "below"}', 'C15-D1x', span, f'{fn}: {msg}')
                    else:
                        good += 1
        if old_part is None:
            I.return_partition.pop(fn, None)
        else:
            I.return_partition[fn] = old_part
    ctx.rule('C15-D1x stated ranges against the accepted values for single years (edge years, a common and a leap year of each era), path by path', total, good, floor=8)


def check(ctx):
    N = Numeric(ctx)
    I = N.I
    census = public_result_fns(N.facts)
    missing = [f for f in census if f not in ENTRIES]
    for f in missing:
        ENTRIES.append(f)   # a new fallible public function is analysed too (whole-API rule)
    ctx.rule('C15 fallible public functions analysed', len(census), len(census), floor=29, sample={'census': len(census)})
    for fn in ENTRIES:
        N.run(fn)
        oks = sum(1 for st, rv in N.flat(fn) if rv[0] == 'e' and 0 in rv[2])
        errs = sum(1 for st, rv in N.flat(fn) if rv[0] == 'e' and 1 in rv[2])
        good = oks > 0 and errs > 0
        ctx.rule('C15 both outcomes reachable', 1, 1 if good else 0)
        if not good and fn in I.bodies:
            ctx.finding(f'C15:OUTCOMES|{fn}', 'F3', I.bodies[fn]['span'], f'{fn}: analysis found {oks} Ok and {errs} Err exits; a fallible constructor must have both')
        # an Err must be an OutOfRange (never another error kind)
        for st, rv in N.flat(fn):
            if rv[0] == 'e' and 1 in rv[2]:
                e = rv[2][1][0]
                if not (e[0] == 'e' and e[1] == 'errors::AstrolabeError' and set(e[2]) == {0}):
                    ctx.finding(f'C15:ERRKIND|{fn}', 'F3', I.bodies[fn]['span'], f'{fn}: an Err exit does not carry AstrolabeError::OutOfRange')
    N.check_o2()
    edge_cases(ctx, N)
    nsites = sum(1 for k in N.oor_sites)
    exempt = sum(1 for k, v in N.oor_sites.items() if v.get('exempt'))
    ctx.rule('C15-D1 OutOfRange sites reached', nsites, nsites, floor=10, sample={'sites': nsites, 'exempt_custom_message': exempt})
    N.judge(allowed_causes=())
    ctx.cov['trusted_base'] += ['rustc MIR of the dev profile (overflow checks on)', 'vf/models.py rows: ' + ', '.join(sorted(I.models_used))[:600]]
