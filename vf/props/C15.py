"""C15 -- fallible constructors accept exactly the valid inputs and reject the rest (DESIGN section 4, C15)."""
from .. import domain as D
from ..numeric import Numeric, OOR

LEVEL = 'proof'
EXPLANATION = ('Every public function returning Result<_, AstrolabeError> (constructors and set_*) is analysed for all argument '
               'tuples: (D1) at every OutOfRange construction site whose message states a range, the rejected value is provably outside '
               'the stated range (O1) and every value accepted on an Ok exit is inside it (O2); (D2) no panic, overflow or lossy cast is '
               'reachable; (D3) every Ok value satisfies the representation invariants.')
META = {
    'technique': 'static analysis: MIR abstract interpretation; guard/message consistency at every OutOfRange construction site',
    'note': 'trusted: rustc MIR with overflow checks, vf/models.py; assumption A-LOCALRANGE for incoming DateTime values',
}

ENTRIES = [
    'date::Date::from_ymd', 'datetime::DateTime::from_ymd', 'datetime::DateTime::from_ymdhms', 'datetime::DateTime::from_hms',
    'time::Time::from_hms', 'time::Time::from_seconds', 'time::Time::from_nanos',
    'offset::Offset::from_seconds', 'offset::Offset::from_hms',
]
for _ty, _tr, _ms in (('date::Date', 'DateUtilities', ('set_year', 'set_month', 'set_day', 'set_day_of_year')),
                      ('datetime::DateTime', 'DateUtilities', ('set_year', 'set_month', 'set_day', 'set_day_of_year')),
                      ('datetime::DateTime', 'TimeUtilities', ('set_hour', 'set_minute', 'set_second', 'set_milli', 'set_micro', 'set_nano')),
                      ('time::Time', 'TimeUtilities', ('set_hour', 'set_minute', 'set_second', 'set_milli', 'set_micro', 'set_nano'))):
    for _m in _ms:
        ENTRIES.append(f'<{_ty} as shared::{_tr}>::{_m}')


def public_result_fns(facts):
    """census: public functions / trait methods whose return type is Result<_, AstrolabeError> and that take no text"""
    out = []
    for b in facts.body_list:
        if b['kind'] not in ('Fn', 'AssocFn'):
            continue
        rt = b['locals'][0]
        if rt.get('k') != 'adt' or not rt['path'].endswith('result::Result') or len(rt['args']) < 2:
            continue
        if rt['args'][1].get('path') != 'errors::AstrolabeError':
            continue
        is_pub = b['vis'] == 'Public' or (b['id'].startswith('<') and ' as shared::' in b['id'])
        if not is_pub:
            continue
        takes_text = any(l.get('k') == 'ref' and l['to'].get('k') == 'str' for l in b['locals'][1:b['argc'] + 1])
        if takes_text:
            continue
        out.append(b['id'])
    return out


def check(ctx):
    N = Numeric(ctx)
    I = N.I
    census = public_result_fns(N.facts)
    missing = [f for f in census if f not in ENTRIES]
    for f in missing:
        ENTRIES.append(f)   # a new fallible public function is analysed too (whole-API rule)
    ctx.rule('C15 fallible public functions analysed', len(census), len(census), floor=29, sample={'census': len(census)})
    for fn in ENTRIES:
        N.run(fn)
        oks = sum(1 for st, rv in N.flat(fn) if rv[0] == 'e' and 0 in rv[2])
        errs = sum(1 for st, rv in N.flat(fn) if rv[0] == 'e' and 1 in rv[2])
        good = oks > 0 and errs > 0
        ctx.rule('C15 both outcomes reachable', 1, 1 if good else 0)
        if not good and fn in I.bodies:
            ctx.finding(f'C15:OUTCOMES|{fn}', 'F3', I.bodies[fn]['span'], f'{fn}: analysis found {oks} Ok and {errs} Err exits; a fallible constructor must have both')
        # an Err must be an OutOfRange (never another error kind)
        for st, rv in N.flat(fn):
            if rv[0] == 'e' and 1 in rv[2]:
                e = rv[2][1][0]
                if not (e[0] == 'e' and e[1] == 'errors::AstrolabeError' and set(e[2]) == {0}):
                    ctx.finding(f'C15:ERRKIND|{fn}', 'F3', I.bodies[fn]['span'], f'{fn}: an Err exit does not carry AstrolabeError::OutOfRange')
    N.check_o2()
    nsites = sum(1 for k in N.oor_sites)
    exempt = sum(1 for k, v in N.oor_sites.items() if v.get('exempt'))
    ctx.rule('C15-D1 OutOfRange sites reached', nsites, nsites, floor=30, sample={'sites': nsites, 'exempt_custom_message': exempt})
    N.judge(allowed_causes=())
    ctx.cov['trusted_base'] += ['rustc MIR of the dev profile (overflow checks on)', 'vf/models.py rows: ' + ', '.join(sorted(I.models_used))[:600]]
