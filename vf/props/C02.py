"""C02 -- weekday, day of year and the week/quarter fields follow the calendar for every day (DESIGN section 4, C02)."""
from .. import domain as D
from ..absint import const_int
from ..numeric import Numeric, DATE, DATETIME
from ..models import deref
from .C04 import struct_of

LEVEL = 'other'
EXPLANATION = ('(D1) For all 2^32 day numbers at once the weekday returned by days_to_wday / Date::weekday / DateTime::weekday (offset 0) is '
               'congruent to days + 1 modulo 7 with value in [0, 6] (affine form with modulus through the Euclidean remainder): it advances by one '
               'from each day to the next across day 0, and together with the epoch anchor 1970-01-01 = day 719_162 (C03) this makes '
               '1970-01-01 a Thursday; the Monday-first variant used by format is congruent to days. (D2) day_of_year is the month offset of '
               'year_month_to_doy(y, m) plus d for the (y, m, d) that days_to_date returned for the same day; the month offsets are the prefix sums '
               'of the month lengths (C01-D4). (D3) weekday in [0,6], day of year in [1,366], ISO week in [1,53], no overflow or lossy cast (the obligations inside '
               'days_to_wyear are discharged in every class of (W)). (W) the ISO 8601 week number of days_to_wyear for every date: the years are analysed in the '
               '400 + 400 residue classes of the 400-year cycle of both eras with a symbolic cycle index (plus the years 1, -1, -2 and the 22 years at the ends of '
               'the range one by one) x 12 months with the day of the month symbolic; in each, the intermediates f, d, n of that function are the zero-based day '
               'of the year, the Monday-based weekday ((day of year + weekday of 1 January) mod 7, constants from the calendar definition, not from the code) and '
               'the day of the year of the Thursday of the week, and on every result path the returned number is the ISO week (n / 7 + 1, week 1 when the Thursday '
               'lies in the next year, 52 or 53 -- the number of weeks of the previous year by the Thursday rule -- when it lies in the previous one) for every day '
               'the path can hold; every day is covered by a path. Not decided here: that format prints these kernels for w, q, e, D (C11 decides it), the setter '
               'set_day_of_year (C09).')
META = {
    'technique': 'static analysis: MIR abstract interpretation with affine-modulo forms (weekday congruence), value identity at kernel call sites, interval ranges; '
                 'residue-class case analysis of the ISO week function over the 400-year cycle (symbolic cycle index, symbolic day) against the ISO 8601 definition',
    'note': 'trusted: rustc MIR, vf/models.py, calendar kernels (C01: days_to_date returns the calendar date of the day)',
}

WD = 'util::date::convert::days_to_wday'
D2D = 'util::date::convert::days_to_date'
YMD = 'util::date::convert::year_month_to_doy'


def check(ctx):
    from ..isoweek import check_iso_week_classes
    check_iso_week_classes(ctx)
    N = Numeric(ctx)
    I = N.I
    # ---- D1: weekday congruence, both variants of the kernel
    for mf, shift in ((0, 1), (1, 0)):
        lab = f'{WD} [monday_first={bool(mf)}]'
        N.run(WD, label=lab, overrides={'monday_first@2': lambda I, st, ty, mf=mf: const_int(mf, 'bool')})
        n = ok = 0
        for args, st0, outs in N.results.get(lab, []):
            days = args[0][1]
            for st, rv in outs:
                n += 1
                lo, hi = D.get_iv(st, rv[1]) if rv[0] == 'i' else (None, None)
                if rv[0] == 'i' and 0 <= lo and hi <= 6 and D.aff_equiv(D.aff_of(rv[1]), D.aff_add(D.aff_of(days), D.aff_const(shift)), 7, st=st):
                    ok += 1
                else:
                    ctx.finding(f'C02:WEEKDAY|{lab}', 'AFF weekday congruence', I.bodies[WD]['span'],
                                f'days_to_wday(days, {bool(mf)}) is not provably congruent to days + {shift} modulo 7 in [0,6]: got {D.aff_of(rv[1]) if rv[0] == "i" else rv[0]} in [{lo},{hi}]')
        ctx.rule('C02-D1 weekday == days + k (mod 7)', n, ok, floor=1, sample={'variant': lab})
    # public getters pass the kernel result through (offset 0 for DateTime: C10 covers the shift)
    for fn, path in (('<date::Date as shared::DateUtilities>::weekday', DATE),):
        N.run(fn)
        n = ok = 0
        for args, st0, outs in N.results.get(fn, []):
            recv = struct_of(I, st0, args[0], path)
            for st, rv in outs:
                n += 1
                lo, hi = D.get_iv(st, rv[1])
                if 0 <= lo and hi <= 6 and D.aff_equiv(D.aff_of(rv[1]), D.aff_add(D.aff_of(recv[2][0][1]), D.aff_const(1)), 7, st=st):
                    ok += 1
                else:
                    ctx.finding(f'C02:WEEKDAY|{fn}', 'AFF weekday congruence', I.bodies[fn]['span'], f'{fn} is not congruent to days + 1 modulo 7 in [0,6]')
        ctx.rule('C02-D1 Date::weekday', n, ok, floor=1)
    # ---- D2: day of year
    fn = 'util::date::convert::days_to_doy'
    pairs = []
    pend = []
    calls = []

    def obs_ymd(I_, st, args, site):
        pend.append(tuple(a[1] if a[0] == 'i' else None for a in args))

    def ret_hook(I_, f, depth, results):
        if f == D2D:
            for st, rv in results:
                if rv[0] == 't':
                    pairs.append(tuple(x[1] for x in rv[1]))
        elif f == YMD and pend:
            a = pend.pop()
            for st, rv in results:
                if rv[0] == 'e' and 0 in rv[2]:
                    calls.append((a, rv[2][0][0][1][0][1]))
    I.return_hooks.append(ret_hook)
    I.observers[YMD] = obs_ymd
    part = I.return_partition.pop(fn, None)
    try:
        N.run(fn)
    finally:
        I.return_hooks.remove(ret_hook)
        del I.observers[YMD]
        if part is not None:
            I.return_partition[fn] = part
    n = ok = 0
    hull = None
    for args, st0, outs in N.results.get(fn, []):
        for st, rv in outs:
            n += 1
            good = False
            for (y, m, d) in pairs:
                for (a, offv) in calls:
                    if a == (y, m) and rv[0] == 'i' and D.aff_equiv(D.aff_of(rv[1]), D.aff_add(D.aff_of(offv), D.aff_of(d)), 0, st=st):
                        good = True
            lo, hi = D.get_iv(st, rv[1])
            hull = (lo, hi) if hull is None else (min(lo, hull[0]), max(hi, hull[1]))
            if good:
                ok += 1
            else:
                ctx.finding('C02:DOY|' + fn, 'F4 same month table', I.bodies[fn]['span'], 'days_to_doy is not (month offset of year_month_to_doy(y, m)) + d for the (y, m, d) of days_to_date')
    ctx.rule('C02-D2 day of year from the shared month table', n, ok, floor=1)
    good = hull is not None and 1 <= hull[0] and hull[1] <= 366
    ctx.rule('C02-D3 day of year in [1,366]', 1, 1 if good else 0)
    if not good:
        ctx.finding('C02:RANGE|days_to_doy', 'range', None, f'day of year range derived as {hull}, expected within [1, 366]')
    # ---- D3: ISO week range and totality
    fn = 'util::date::convert::days_to_wyear'
    part = I.return_partition.pop(fn, None)
    N.run(fn)
    if part is not None:
        I.return_partition[fn] = part
    N.judge(kinds=('ARITH', 'BOUNDS', 'CAST', 'UNWRAP', 'PANIC', 'STDPRE'))
    ctx.cov['trusted_base'] += ['rustc MIR of the dev profile', 'calendar kernels days_to_date / year_month_to_doy (C01)',
                                'vf/models.py rows: ' + ', '.join(sorted(I.models_used))[:400]]
