"""C07 -- months_since / years_since count whole calendar months and years."""
from .. import domain as D
from ..numeric import Numeric, DATETIME, DATE
from ..models import deref
from .C06 import vids_equal_to

LEVEL = 'other'
EXPLANATION = ('months_between is analysed for all four arguments at once with days_to_date summarised as the calendar triple of each day (year != 0, '
               'month 1..12, day 1..31; which triple belongs to a day is C01): every result equals M - adj, where M = 12*(c(y1) - c(y2)) + m1 - m2 is '
               'the difference of the continuous month indices (c(y) = y for y >= 1, y + 1 below: the year-0 correction, exact affine identity per sign '
               'case) and adj is decided by the path condition exactly as truncation toward zero over (month index, day, time of day) requires: '
               'adj = 1 iff M > 0 and (d1, t1) < (d2, t2) lexicographically, adj = -1 iff M < 0 and (d1, t1) > (d2, t2), else 0. For a day of month '
               'b.d <= 28 (no clamping in add_months, C05) this is the unique n with b.add_months(n) <= a < b.add_months(n+1); the formula is '
               'antisymmetric and monotone in a. years_between is that count divided by 12 (truncating). Date/DateTime::months_since / years_since '
               'pass (self.days, self.nanoseconds or 0, compare.days, compare.nanoseconds or 0) and return the kernel result unchanged. No overflow, '
               'lossy cast or panic is reachable.')
META = {
    'technique': 'static analysis: MIR abstract interpretation of months_between / years_between with symbolic calendar triples: affine identity of the month-index '
                 'difference per era case, borrow decided by the ordering facts of each path; call wiring of the public methods',
    'note': 'trusted: rustc MIR, vf/models.py; days_to_date summarised (C01); add_months semantics (C05) for the reading as "unique n"',
}

MB = 'util::date::convert::months_between'
YB = 'util::date::convert::years_between'
DTD = 'util::date::convert::days_to_date'
MAXY = 5_879_611


def lex_rel(st, d1, d2, n1, n2):
    """possible orderings of (d1, n1) vs (d2, n2) lexicographically: subset of '<=>'"""
    rd, rn = D.rel_get(st, d1, d2), D.rel_get(st, n1, n2)
    out = set()
    if '<' in rd or ('=' in rd and '<' in rn):
        out.add('<')
    if '>' in rd or ('=' in rd and '>' in rn):
        out.add('>')
    if '=' in rd and '=' in rn:
        out.add('=')
    return out


def check_months(ctx, N):
    I = N.I
    syms = {}

    def dtd(I_, st, args, dty, site):
        a = args[0][1]
        if a not in syms:
            syms[a] = (D.sym_vid(-MAXY, MAXY, 'year'), D.sym_vid(1, 12, 'month'), D.sym_vid(1, 31, 'day'))
        y, m, d = syms[a]
        outs = []
        for lo, hi in ((-MAXY, -1), (1, MAXY)):
            s = st.clone()
            if y in s.iv:
                cl, ch = D.get_iv(s, y)
                lo2, hi2 = max(lo, cl), min(hi, ch)
                if lo2 > hi2:
                    continue
                s.iv[y] = (lo2, hi2)
            else:
                s.iv[y] = (lo, hi)
            s.iv.setdefault(m, (1, 12))
            s.iv.setdefault(d, (1, 31))
            outs.append((s, ('t', (('i', y, 'i32'), ('i', m, 'u32'), ('i', d, 'u32')))))
        return outs
    I.contracts[DTD] = dtd
    I.return_partition[MB] = lambda I_, st, v: id(st)
    N.run(MB, variants=('fixed',))
    n = ok = 0
    span = I.bodies[MB]['span']
    for args, st0, outs in N.results.get(MB, []):
        fd, fn_, sd, sn = [a[1] for a in args]
        for st, rv in outs:
            n += 1
            if fd not in syms or sd not in syms or rv[0] != 'i':
                ctx.finding(f'C07:KERNEL|{MB}', 'C07 months', span, 'months_between does not read both dates through days_to_date')
                continue
            (y1, m1, d1), (y2, m2, d2) = syms[fd], syms[sd]
            c1 = 0 if D.get_iv(st, y1)[0] >= 1 else 1
            c2 = 0 if D.get_iv(st, y2)[0] >= 1 else 1
            M = D.Aff({y1: 12, y2: -12, m1: 1, m2: -1}, 12 * (c1 - c2))
            adj = None
            if rv[1] in D.CONSTVAL:
                # the sum was folded because the month difference is a constant on this path: M == that constant?
                c = D.CONSTVAL[rv[1]]
                for cand in (0, 1, -1):
                    if any(D.get_iv(st, v) == (c + cand, c + cand) for v in vids_equal_to(st, M)):
                        adj = cand
                        break
            for cand in (0, 1, -1):
                if adj is not None:
                    break
                if D.aff_equiv(D.aff_of(rv[1]), D.aff_add(M, D.aff_const(cand), -1), 0, st=st):
                    adj = cand
                    break
            if adj is None:
                ctx.finding(f'C07:AFF|{MB}', 'C07 month index difference', span,
                            f'months_between: a result is not 12*(c(y1)-c(y2)) + m1 - m2 - adj with adj in {{-1,0,1}} (result {D.aff_of(rv[1])})')
                continue
            def tight(v):
                # a bound excluded by an ordering fact (x != 0 and not x > 0) is not reflected in the interval
                l, h = D.get_iv(st, v)
                z = D.const_vid(0)
                r = D.rel_get(st, v, z)
                if h == 0 and '=' not in r:
                    h = -1
                if l == 0 and '=' not in r:
                    l = 1
                return (l, h)
            mv = [tight(v) for v in vids_equal_to(st, M)]
            dv = D.eval_aff(st, M)
            rl, rh = D.get_iv(st, rv[1])          # M == result + adj (proved above): the result's interval bounds M too
            mv.append((rl + adj, rh + adj))
            lo = max([dv[0]] + [x[0] for x in mv]) if dv else None
            hi = min([dv[1]] + [x[1] for x in mv]) if dv else None
            pos, neg = (hi is None or hi > 0), (lo is None or lo < 0)
            surepos, sureneg = (lo is not None and lo > 0), (hi is not None and hi < 0)
            lx = lex_rel(st, d1, d2, fn_, sn)
            if adj == 1:
                good = surepos and lx <= {'<'}
            elif adj == -1:
                good = sureneg and lx <= {'>'}
            else:
                good = not (pos and '<' in lx) and not (neg and '>' in lx)
            if good:
                ok += 1
            else:
                import os
                if os.environ.get('C07DBG'):
                    print('DBG adj', adj, 'rv', rv[1], D.TERM.get(rv[1]), D.get_iv(st, rv[1]), 'mv', mv, 'dv', dv, 'lx', lx, [D.get_iv(st, v) for v in (y1, y2, m1, m2)])
                ctx.finding(f'C07:BORROW|{MB}', 'C07 borrow decided by the path', span,
                            f'months_between: M - ({adj}) is returned on a path where M is in [{lo}, {hi}] and (day, time) compares as {sorted(lx)}')
    ctx.rule('C07 months_between = month index difference truncated toward zero over (day, time)', n, ok, floor=2, sample={'paths': n})


def check_years(ctx, facts):
    N = Numeric(ctx)
    I = N.I
    rec = []

    def mb(I_, st, args, dty, site):
        s2 = st.clone()
        r = I_.top(s2, dty, 'months')
        rec.append((args, r))
        return [(s2, r)]
    I.contracts[MB] = mb
    N.run(YB, variants=('fixed',))
    good = False
    for args, st0, outs in N.results.get(YB, []):
        good = bool(outs)
        for st, rv in outs:
            hit = [r for a, r in rec if [x[1] for x in a] == [x[1] for x in args]]
            if not hit or rv[0] != 'i':
                good = False
                continue
            q, _r = D.divmod_vids(st, hit[0][1], 12)
            if rv[1] != q and not D.aff_equiv(D.aff_of(rv[1]), D.aff_of(q), st=st):
                good = False
    ctx.rule('C07 years_between = months_between(same arguments) / 12, truncating', 1, 1 if good else 0)
    if not good:
        ctx.finding(f'C07:YEARS|{YB}', 'C07 years', facts.bodies[YB]['span'], 'years_between is not months_between of the same four arguments divided by 12 (truncating)')
    N.judge(kinds=('ARITH', 'BOUNDS', 'CAST', 'UNWRAP', 'PANIC', 'STDPRE'))


def check_wiring(ctx, facts):
    for ty, path in (('date::Date', DATE), ('datetime::DateTime', DATETIME)):
        for meth, kern in (('months_since', MB), ('years_since', YB)):
            fn = f'<{ty} as shared::DateUtilities>::{meth}'
            if not ctx.anchor(facts.bodies, fn, 'C07 wiring'):
                continue
            N = Numeric(ctx)
            I = N.I
            rec = []

            def k(I_, st, args, dty, site, rec=rec):
                s2 = st.clone()
                r = I_.top(s2, dty, 'count')
                rec.append((st, args, r))
                return [(s2, r)]
            I.contracts[kern] = k
            N.run(fn, variants=('fixed',))
            good = False
            for args, st0, outs in N.results.get(fn, []):
                a, b = deref(I, st0, args[0]), deref(I, st0, args[1])
                good = bool(outs) and len(rec) >= 1
                for st, rv in outs:
                    hit = [r for r in rec if r[2] == rv]
                    if not hit:
                        good = False
                        continue
                    ka = hit[0][1]
                    if path == DATE:
                        want = [('v', a[2][0][1]), ('c', 0), ('v', b[2][0][1]), ('c', 0)]
                    else:
                        want = [('v', a[2][0][1]), ('v', a[2][1][1]), ('v', b[2][0][1]), ('v', b[2][1][1])]
                    for w, x in zip(want, ka):
                        if x[0] != 'i' or (w[0] == 'v' and x[1] != w[1]) or (w[0] == 'c' and D.get_iv(hit[0][0], x[1]) != (w[1], w[1])):
                            good = False
            ctx.rule('C07 the public method passes (self, compare) fields to the kernel in order and returns its result', 1, 1 if good else 0, sample={'fn': fn})
            if not good:
                ctx.finding(f'C07:WIRING|{fn}', 'C07 wiring', facts.bodies[fn]['span'], f'{fn} does not return {kern}(self.days, self.nanoseconds|0, compare.days, compare.nanoseconds|0)')


def check(ctx):
    N = Numeric(ctx, max_disj=600)
    facts = N.facts
    for f in (MB, YB, DTD):
        if not ctx.anchor(facts.bodies, f, 'C07 kernels'):
            return
    check_months(ctx, N)
    N.judge(kinds=('ARITH', 'BOUNDS', 'CAST', 'UNWRAP', 'PANIC', 'STDPRE'))
    check_years(ctx, facts)
    check_wiring(ctx, facts)
    ctx.cov['entries'] += [MB, YB]
    ctx.cov['trusted_base'] += ['rustc MIR of the dev profile', 'lemma: the unique n with b+n months <= a < b+(n+1) months is M - [M>0, (d,t)_a < (d,t)_b] + [M<0, (d,t)_a > (d,t)_b] when b.day <= 28']
