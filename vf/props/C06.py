"""C06 -- elapsed-unit differences are the exact difference truncated toward zero (DESIGN section 4, C06)."""
from .. import domain as D
from ..numeric import Numeric, NPD, DATETIME, DATE, TIME
from ..models import deref

LEVEL = 'proof'
EXPLANATION = ('For every pair of values at once and every unit U: the result of a.<unit>_since(b) equals D - adj where '
               'D = floor(I(a)/U) - floor(I(b)/U) (exact affine identity over the div/mod digits of the nanosecond fields) and the path '
               'condition of every result disjunct implies adj = [D>0 and s_a<s_b] - [D<0 and s_a>s_b] with s = I mod U; by the elementary '
               'lemma trunc((U*D + d)/U) = D - [D>0,d<0] + [D<0,d>0] for |d| < U this is the exact difference truncated toward zero. '
               'No overflow or lossy cast is reachable.')
META = {
    'technique': 'static analysis: MIR abstract interpretation; div/mod linearisation gives floor(I/U) and I mod U as affine digit forms; ordering facts of each path decide the borrow',
    'note': 'trusted: rustc MIR with overflow checks, vf/models.py; the arithmetic lemma on truncating division stated in DESIGN section 4 (C06)',
}

UNITS = {'hours': 3_600 * 10**9, 'minutes': 60 * 10**9, 'seconds': 10**9, 'millis': 10**6, 'micros': 10**3, 'nanos': 1}


def parts(I, st, s, U):
    """(total, sub) specification forms of a value: floor(I/U) and I mod U; sub as a vid list"""
    if s[1] == DATETIME:
        days, nanos = s[2][0][1], s[2][1][1]
    elif s[1] == TIME:
        days, nanos = None, s[2][0][1]
    else:
        days, nanos = s[2][0][1], None
    tot = D.aff_const(0)
    subv = None
    if nanos is not None:
        if U == 1:
            q, subv = nanos, None
            tot = D.aff_of(q)
        elif D.get_iv(st, nanos)[1] < U and D.get_iv(st, nanos)[0] >= 0:
            subv = nanos
        else:
            q, subv = D.divmod_vids(st, nanos, U)
            tot = D.aff_of(q)
    if days is not None:
        tot = D.aff_add(tot, D.aff_scale(D.aff_of(days), NPD // U))
    return tot, subv


def vids_equal_to(st, aff):
    if len(aff.co) == 1 and not aff.c0 and not aff.mod:
        (v, c), = aff.co.items()
        if c == 1:
            return [v]
    out = [v for v in D.AFF_INDEX.get(aff.key(), ()) if v in st.iv]
    if not out:
        for v in list(st.iv):
            a = D.AFF.get(v)
            if a is not None and len(a.co) > 1 and D.aff_equiv(a, aff, 0, st=st):
                out.append(v)
    return out


def rel_between(st, xs, ys):
    best = frozenset('<=>')
    found = False
    for x in xs:
        for y in ys:
            found = True
            best = best & D.rel_get(st, x, y)
    return best if found else None


def nonneg(st, aff):
    """is the affine form >= 0 on this path?  (intervals of its atoms, or of a value that equals it up to a positive factor)"""
    dv = D.eval_aff(st, aff)
    if dv is not None and dv[0] >= 0:
        return True
    from math import gcd
    g = 0
    for c in list(aff.co.values()) + [aff.c0]:
        g = gcd(g, abs(c))
    if g == 0:
        return True
    red = D.Aff({k: c // g for k, c in aff.co.items()}, aff.c0 // g)
    for v in vids_equal_to(st, red):
        if D.get_iv(st, v)[0] >= 0:
            return True
    neg = D.aff_scale(red, -1)
    for v in vids_equal_to(st, neg):
        if D.get_iv(st, v)[1] <= 0:
            return True
    return False


def infeasible_between(st, a, b):
    """DateTime::duration_between orders the two values with cmp::min / cmp::max (their cmp is instant order, C03). A path is
    infeasible when its branch conditions contradict that order: with I(lower) <= I(upper) and both time-of-day fields in
    [0, 24 h), upper.days - lower.days < 0 is impossible, and so is equal days with lower.nanoseconds > upper.nanoseconds;
    the two picks must also be complementary (min picks one argument, max the other, equal instants aside)"""
    picks = [e for e in st.trace if isinstance(e, tuple) and e and e[0] == 'minmax']
    if len(picks) != 2 or picks[0][1] != 'min' or picks[1][1] != 'max':
        return False
    (_m, _k, lo_idx, o1), (_m2, _k2, hi_idx, o2) = picks
    if o1 != o2:
        return True                     # the same comparison cannot have two outcomes
    lower, upper = (a, b) if lo_idx == 0 else (b, a)
    if lo_idx == hi_idx and o1 != 1:
        return False
    dl, du = lower[2][0][1], upper[2][0][1]
    nl, nu = lower[2][1][1], upper[2][1][1]
    rd = D.rel_get(st, du, dl)
    # the code's own variables: days = upper.days - lower.days (sign through unsigned_abs), nanos borrow test
    diff = D.aff_add(D.aff_of(du), D.aff_of(dl), -1)
    neg_days = False
    for v in vids_equal_to(st, diff):
        l_, h_ = D.get_iv(st, v)
        if h_ < 0:
            neg_days = True
    for one in (1, -1):
        for v in vids_equal_to(st, D.aff_add(diff, D.aff_const(-1))):       # days - 1 after the borrow
            l_, h_ = D.get_iv(st, v)
            if h_ < 0 and '>' in D.rel_get(st, nl, nu) and not (D.rel_get(st, nl, nu) - frozenset('>')):
                neg_days = True          # days - 1 < 0 with a borrow: days == 0 and lower.nanos > upper.nanos contradicts the order
    if rd <= frozenset('<'):
        return True
    if neg_days:
        return True
    # a difference x - y + c whose interval on this path contradicts the ordering fact between x and y
    for v, (l_, h_) in list(st.iv.items()):
        f = D.AFF.get(v)
        if f is None or f.mod or len(f.co) != 2 or sorted(f.co.values()) != [-1, 1]:
            continue
        (x,) = [k for k, c in f.co.items() if c == 1]
        (y,) = [k for k, c in f.co.items() if c == -1]
        if x not in st.iv or y not in st.iv:
            continue
        r = D.rel_get(st, x, y)
        lo_b = f.c0 + (1 if r <= frozenset('>') else 0) if r <= frozenset('>=') else None
        hi_b = f.c0 - (1 if r <= frozenset('<') else 0) if r <= frozenset('<=') else None
        if (lo_b is not None and h_ < lo_b) or (hi_b is not None and l_ > hi_b):
            return True
    return False


def linear_infeasible(st, a, b):
    """Is this path of duration_between(a, b) infeasible?  Independent of how the code orders the two values (cmp::min/max, a match on
    cmp, ...): every fact of the path that is linear in Dd = a.days - b.days and Dn = a.nanoseconds - b.nanoseconds -- intervals of values
    whose exact affine form is alpha*Dd + beta*Dn + gamma, and ordering facts between two such values (the instants compared by cmp are
    86_400e9*days + nanoseconds) -- is collected, and the system is decided exactly (Fourier-Motzkin over Dn, then integers Dd)."""
    from fractions import Fraction as F
    ad, an, bd, bn = a[2][0][1], a[2][1][1], b[2][0][1], b[2][1][1]
    S = {ad, an, bd, bn}
    if len(S) != 4:
        return False

    def form(f):
        if f is None or f.mod or not set(f.co) <= S:
            return None
        if f.co.get(ad, 0) != -f.co.get(bd, 0) or f.co.get(an, 0) != -f.co.get(bn, 0):
            return None
        return (f.co.get(ad, 0), f.co.get(an, 0), f.c0)
    cons = []                                      # (alpha, beta, gamma, lo, hi): lo <= alpha*Dd + beta*Dn + gamma <= hi
    cand = []
    for v, (l, h) in list(st.iv.items()):
        if not isinstance(v, int):
            continue
        f = D.aff_of(v)
        if f.mod or not f.co or not set(f.co) <= S:
            continue
        cand.append((v, f))
        g = form(f)
        if g is not None and (g[0] or g[1]):
            cons.append((g[0], g[1], g[2], l, h))
    cand = cand[:80]
    for i, (x, fx) in enumerate(cand):
        for (y, fy) in cand[i + 1:]:
            g = form(D.aff_add(fx, fy, -1))
            if g is None or not (g[0] or g[1]):
                continue
            r = D.rel_get(st, x, y)
            if r == frozenset('<=>'):
                continue
            lo = 1 if r <= frozenset('>') else 0 if r <= frozenset('>=') else -D.INF
            hi = -1 if r <= frozenset('<') else 0 if r <= frozenset('<=') else D.INF
            if r == frozenset('<>'):
                continue
            cons.append((g[0], g[1], g[2], lo, hi))
    (adl, adh), (bdl, bdh), (anl, anh), (bnl, bnh) = (D.get_iv(st, v) for v in (ad, bd, an, bn))
    if D.INF in (adh, bdh, anh, bnh) or -D.INF in (adl, bdl, anl, bnl):
        return False
    cons.append((1, 0, 0, adl - bdh, adh - bdl))
    cons.append((0, 1, 0, anl - bnh, anh - bnl))
    # bounds on Dn as functions of Dd: L_i(Dd) <= Dn <= U_j(Dd); constraints without Dn bound Dd directly
    lows, ups, dlo, dhi = [], [], F(adl - bdh), F(adh - bdl)
    for (al, be, ga, lo, hi) in cons:
        for bound, is_low in ((lo, True), (hi, False)):
            if bound in (D.INF, -D.INF):
                continue
            # al*Dd + be*Dn + ga >= bound   (is_low)    /   <= bound (not is_low)
            if be == 0:
                if al == 0:
                    if (is_low and ga < bound) or (not is_low and ga > bound):
                        return True
                    continue
                t = F(bound - ga, al)
                if (al > 0) == is_low:
                    dlo = max(dlo, t)
                else:
                    dhi = min(dhi, t)
            else:
                # Dn >=/<= (bound - ga - al*Dd) / be
                k, m = F(-al, be), F(bound - ga, be)           # Dn  (>= or <=)  k*Dd + m
                if (be > 0) == is_low:
                    lows.append((k, m))
                else:
                    ups.append((k, m))
    for (k1, m1) in lows:
        for (k2, m2) in ups:
            # k1*Dd + m1 <= k2*Dd + m2   ->   (k1 - k2)*Dd <= m2 - m1
            kk, mm = k1 - k2, m2 - m1
            if kk == 0:
                if mm < 0:
                    return True
            elif kk > 0:
                dhi = min(dhi, mm / kk)
            else:
                dlo = max(dlo, mm / kk)
    import math
    p, q = math.ceil(dlo), math.floor(dhi)
    if p > q:
        return True
    # integers: try the integer values of Dd at both ends and in the middle (for a fixed Dd the bounds on Dn are plain numbers)
    for dd in sorted({p, q, (p + q) // 2, min(q, p + 1), max(p, q - 1)}):
        lo = max([math.ceil(k * dd + m) for k, m in lows] or [-D.INF])
        hi = min([math.floor(k * dd + m) for k, m in ups] or [D.INF])
        if lo <= hi:
            return False
    return True


def check_since(ctx, N, fn, U, floor_inst=1):
    I = N.I
    n = ok = 0
    for args, st0, outs in N.results.get(fn, []):
        a, b = deref(I, st0, args[0]), deref(I, st0, args[1])
        for st, rv in outs:
            n += 1
            ta, sa = parts(I, st, a, U)
            tb, sb = parts(I, st, b, U)
            delta = D.aff_add(ta, tb, -1)
            adj = None
            if rv[0] == 'i':
                for cand in (0, 1, -1):
                    if D.aff_equiv(D.aff_of(rv[1]), D.aff_add(delta, D.aff_const(cand), -1), 0, st=st):
                        adj = cand
                        break
            if adj is None:
                ctx.finding(f'C06:AFF|{fn}', 'AFF floor difference', I.bodies[fn]['span'],
                            f'{fn}: the result is not floor(I(a)/U) - floor(I(b)/U) - adj with adj in {{-1,0,1}} (U = {U}): got {D.aff_of(rv[1]) if rv[0] == "i" else rv[0]}, D = {delta}')
                continue
            rt = rel_between(st, vids_equal_to(st, D.aff_concretize(st, ta)), vids_equal_to(st, D.aff_concretize(st, tb)))
            if sa is None or sb is None:
                rs = frozenset('=')
            else:
                rs = D.rel_get(st, sa, sb)
            if rt is None:
                dv = D.eval_aff(st, delta)
                rt = frozenset(x for x, c in (('<', dv[0] < 0), ('=', dv[0] <= 0 <= dv[1]), ('>', dv[1] > 0)) if c)
            pos = '>' in rt and '<' in rs      # D > 0 and s_a < s_b possible on this path
            neg = '<' in rt and '>' in rs
            if adj == 1:
                good = rt <= frozenset('>') and rs <= frozenset('<')
            elif adj == -1:
                good = rt <= frozenset('<') and rs <= frozenset('>')
            else:
                good = not pos and not neg
            if good:
                ok += 1
            else:
                ctx.finding(f'C06:BORROW|{fn}', 'borrow decided by the path condition', I.bodies[fn]['span'],
                            f'{fn}: a result D - ({adj}) is returned on a path where ordering of totals is {sorted(rt)} and of remainders {sorted(rs)}')
    ctx.rule('C06 since = truncated exact difference', n, ok, floor=floor_inst, sample={'fn': fn, 'unit_ns': U})


def check(ctx):
    N = Numeric(ctx)
    I = N.I
    for ty in ('datetime::DateTime', 'time::Time'):
        for unit, U in UNITS.items():
            fn = f'<{ty} as shared::TimeUtilities>::{unit}_since'
            N.run(fn, variants=('fixed',))
            check_since(ctx, N, fn, U)
    for ty in ('datetime::DateTime', 'date::Date'):
        fn = f'<{ty} as shared::DateUtilities>::days_since'
        N.run(fn, variants=('fixed',))
        check_since(ctx, N, fn, NPD)
    # duration_between: the absolute difference of the two instants (hence symmetric): secs * 1e9 + subsec == |I(a) - I(b)|
    for ty in ('date::Date', 'time::Time', 'datetime::DateTime'):
        fn = f'{ty}::duration_between'
        if not ctx.anchor(I.bodies, fn, 'C06 duration_between'):
            continue
        N.run(fn, variants=('fixed',))
        n = ok = 0
        for args, st0, outs in N.results.get(fn, []):
            a, b = deref(I, st0, args[0]), deref(I, st0, args[1])
            for st, rv in outs:
                if ty == 'datetime::DateTime' and (infeasible_between(st, a, b) or linear_infeasible(st, a, b)):
                    continue
                n += 1
                if rv[0] != 's' or rv[2][0][0] != 'i' or rv[2][1][0] != 'i':
                    ctx.finding(f'C06:BETWEEN|{fn}', 'duration_between is the absolute difference', I.bodies[fn]['span'], f'{fn}: the returned Duration is not tracked exactly')
                    continue
                tot = D.aff_add(D.aff_scale(D.aff_of(rv[2][0][1]), 10**9), D.aff_of(rv[2][1][1]))
                ta, _ = parts(I, st, a, 1)
                tb, _ = parts(I, st, b, 1)
                delta = D.aff_add(ta, tb, -1)
                good = False
                picks = [e for e in st.trace if isinstance(e, tuple) and e and e[0] == 'minmax']
                order = picks[0][3] if picks else None       # outcome of DateTime::cmp(self, compare): instant order (C03)
                if order is None:
                    # no min/max: an ordering fact of the path between two values that are the two instants (e.g. a match on self.cmp(compare))
                    rb = rel_between(st, vids_equal_to(st, ta), vids_equal_to(st, tb))
                    if rb is not None:
                        order = 1 if rb <= frozenset('=') else 2 if rb <= frozenset('>=') else 0 if rb <= frozenset('<=') else None
                for sign in (1, -1):
                    if D.aff_equiv(tot, D.aff_scale(delta, sign), 0, st=st):
                        sub = D.get_iv(st, rv[2][1][1])
                        by_order = order is not None and (order == 1 or (order == 2 and sign == 1) or (order == 0 and sign == -1))
                        if (by_order or nonneg(st, D.aff_scale(delta, sign))) and 0 <= sub[0] and sub[1] < 10**9:
                            good = True
                if good:
                    ok += 1
                else:
                    ctx.finding(f'C06:BETWEEN|{fn}', 'duration_between is the absolute difference', I.bodies[fn]['span'],
                                f'{fn}: on one path secs * 10^9 + subsec_nanos is not provably |I(a) - I(b)| (result {tot}, difference {delta} in {D.eval_aff(st, delta)})')
        ctx.rule('C06 duration_between = |I(a) - I(b)|', n, ok, floor=1, sample={'fn': fn})
    N.judge(kinds=('ARITH', 'BOUNDS', 'CAST', 'UNWRAP', 'PANIC', 'STDPRE'))
    ctx.cov['trusted_base'] += ['rustc MIR of the dev profile', 'lemma: trunc((U*D+d)/U) = D - [D>0,d<0] + [D<0,d>0] for |d|<U',
                                'vf/models.py rows: ' + ', '.join(sorted(I.models_used))[:400]]
