"""C04 -- adding or subtracting an amount of time moves the instant by exactly that amount (DESIGN section 4, C04)."""
from .. import domain as D
from ..numeric import Numeric, NPD, DATETIME, DATE
from ..entries import MIN_I, MAX_I
from ..models import deref

LEVEL = 'proof'
EXPLANATION = ('For every DateTime/Date add_/sub_ operation and +/- operator, for all inputs at once: the result fields satisfy '
               '86_400e9*days\' + nanoseconds\' == 86_400e9*days + nanoseconds +/- unit*count as an exact affine identity '
               '(div/mod linearisation proves the day/nanosecond splitters), nanoseconds\' < 86_400e9, no intermediate overflows '
               'or is narrowed lossily, the offset is passed through, and the only reachable panic is fed by the range error of the splitter / checked_add.')
META = {
    'technique': 'static analysis: MIR abstract interpretation with exact affine identities and div/mod linearisation; panic-cause attribution',
    'note': 'trusted: rustc MIR with overflow checks; std semantics of / % try_into checked_add Duration accessors as modelled in vf/models.py',
}

UNITS = {'hours': 3_600 * 10**9, 'minutes': 60 * 10**9, 'seconds': 10**9, 'millis': 10**6, 'micros': 10**3, 'nanos': 1}
DT = '<datetime::DateTime as shared::TimeUtilities>::'
RANGE_CAUSES = ('util::time::convert::nanos_to_days_nanos', 'util::date::manipulate::add_days', 'util::date::manipulate::sub_days',
                'util::time::convert::secs_to_days_nanos', 'int::checked_add', 'int::checked_sub', 'int::try_from')


def struct_of(I, st, v, path):
    v = deref(I, st, v)
    return v if v is not None and v[0] == 's' and v[1] == path else None


def instant(s):
    """affine form of 86_400e9*days + nanoseconds of a DateTime struct value"""
    return D.aff_add(D.aff_scale(D.aff_of(s[2][0][1]), NPD), D.aff_of(s[2][1][1]))


def check_dt(ctx, N, label, expected_of, result_of=None):
    I = N.I
    n = ok = okoff = 0
    for args, st0, outs in N.results.get(label, []):
        recv = struct_of(I, st0, args[0], DATETIME)
        exp = expected_of(I, st0, args, recv)
        for st, rv in outs:
            res = result_of(I, st, args, rv) if result_of else rv
            n += 1
            if res is None or res[0] != 's' or res[1] != DATETIME or res[2][0][0] != 'i' or res[2][1][0] != 'i':
                ctx.finding(f'C04:SHAPE|{label}', 'AFF', None, f'{label}: result is not a DateTime value the analyser can read')
                continue
            if D.aff_equiv(instant(res), exp, 0, st=st):
                ok += 1
            else:
                ctx.finding(f'C04:AFF|{label}', 'AFF instant identity', I.bodies[label]['span'] if label in I.bodies else None,
                            f'{label}: cannot prove 86_400e9*days\' + nanoseconds\' == expected instant; got {instant(res)}, expected {exp}')
            if res[2][2] == recv[2][2]:
                okoff += 1
            else:
                ctx.finding(f'C04:OFFSET|{label}', 'F6 offset passthrough', None, f'{label}: offset of the result differs from the receiver\'s')
    ctx.rule('C04-D1 instant identity (DateTime)', n, ok, sample={'entry': label, 'spec': "86_400e9*days' + nanos' == 86_400e9*days + nanos +/- amount"})
    ctx.rule('C04-D4 offset passthrough', n, okoff)
    if n == 0:
        ctx.finding(f'C04:NORESULT|{label}', 'coverage', None, f'{label}: no non-panicking result to check')


def check_days(ctx, N, label, path, expected_of, result_of=None):
    I = N.I
    n = ok = 0
    for args, st0, outs in N.results.get(label, []):
        recv = struct_of(I, st0, args[0], path)
        exp = expected_of(I, st0, args, recv)
        for st, rv in outs:
            res = result_of(I, st, args, rv) if result_of else rv
            n += 1
            if res is None or res[0] != 's' or res[1] != path:
                ctx.finding(f'C04:SHAPE|{label}', 'AFF', None, f'{label}: unexpected result shape')
                continue
            good = D.aff_equiv(D.aff_of(res[2][0][1]), exp, 0, st=st)
            if good and path == DATETIME:
                good = res[2][1] == recv[2][1] and res[2][2] == recv[2][2]
            if good:
                ok += 1
            else:
                ctx.finding(f'C04:AFF|{label}', 'AFF day identity', I.bodies[label]['span'] if label in I.bodies else None,
                            f'{label}: cannot prove days\' == expected (time of day and offset unchanged); got {D.aff_of(res[2][0][1])}, expected {exp}')
    ctx.rule('C04-D1 day identity', n, ok, sample={'entry': label})
    if n == 0:
        ctx.finding(f'C04:NORESULT|{label}', 'coverage', None, f'{label}: no non-panicking result to check')


def check_panic_exact(ctx, N, label, expected_of, path, lo, hi):
    """D5: every reachable (designated) panic state implies that the specified result is not representable"""
    I = N.I
    n = ok = 0
    cfgs = N.results.get(label, [])
    for ci, st, cause in N.panics.get(label, []):
        if ci >= len(cfgs):
            continue
        args, st0, _ = cfgs[ci]
        recv = struct_of(I, st0, args[0], path)
        exp = expected_of(I, st, args, recv)
        iv = D.eval_aff(st, exp)
        n += 1
        if iv is not None and (iv[1] < lo or iv[0] > hi):
            ok += 1
        else:
            ctx.finding(f'C04:SPURIOUS-PANIC|{label}', 'panic exactly when not representable', None,
                        f'{label}: a panic (cause {cause}) is reachable while the specified result {exp} may lie in [{iv[0] if iv else "?"}, {iv[1] if iv else "?"}], '
                        f'which intersects the representable range [{lo}, {hi}]')
    ctx.rule('C04-D5 panic only when not representable', n, ok, sample={'entry': label, 'panic_states': n})


def check_kernels(ctx, N):
    """the two day/nanosecond splitters: Ok((d, n)) implies 86_400e9*d + n == input (scaled), n < 86_400e9"""
    I = N.I
    for fn, scale in (('util::time::convert::nanos_to_days_nanos', 1), ('util::time::convert::secs_to_days_nanos', 10**9)):
        N.run(fn)
        n = ok = 0
        for args, st0, outs in N.results.get(fn, []):
            x = args[0]
            for st, rv in outs:
                if rv[0] == 'e' and 0 in rv[2]:
                    n += 1
                    d, nn = rv[2][0][0][1]
                    f = D.aff_add(D.aff_scale(D.aff_of(d[1]), NPD), D.aff_of(nn[1]))
                    lo, hi = D.get_iv(st, nn[1])
                    if D.aff_equiv(f, D.aff_scale(D.aff_of(x[1]), scale), 0, st=st) and 0 <= lo and hi < NPD:
                        ok += 1
                    else:
                        ctx.finding(f'C04:KERNEL|{fn}', 'AFF splitter equation', I.bodies[fn]['span'],
                                    f'{fn}: cannot prove 86_400e9*days + nanos == input on an Ok path (got {f}, nanos in [{lo},{hi}])')
        ctx.rule('C04-K splitter equation', n, ok, floor=1, sample={'kernel': fn})


def check(ctx):
    N = Numeric(ctx)
    I = N.I
    check_kernels(ctx, N)
    # ---- DateTime unit operations
    for op, sign in (('add', 1), ('sub', -1)):
        for unit, U in UNITS.items():
            fn = f'{DT}{op}_{unit}'
            N.run(fn)
            exp = lambda I, st, args, recv, sign=sign, U=U: D.aff_add(instant(recv), D.aff_scale(D.aff_of(args[1][1]), U), sign)
            check_dt(ctx, N, fn, exp)
            check_panic_exact(ctx, N, fn, exp, DATETIME, MIN_I, MAX_I)
    # ---- DateTime +/- Time, +/- Duration (and the assign forms)
    for tr, sign in (('Add', 1), ('Sub', -1)):
        def exp_time(I, st, args, recv, sign=sign):
            t = deref(I, st, args[1])
            return D.aff_add(instant(recv), D.aff_of(t[2][0][1]), sign)

        def exp_dur(I, st, args, recv, sign=sign):
            d = args[1]
            return D.aff_add(instant(recv), D.aff_add(D.aff_scale(D.aff_of(d[2][0][1]), 10**9), D.aff_of(d[2][1][1])), sign)
        for rhs, exp in (('time::Time', exp_time), ('std::time::Duration', exp_dur)):
            fn = f'<datetime::DateTime as std::ops::{tr}<{rhs}>>::{tr.lower()}'
            N.run(fn)
            check_dt(ctx, N, fn, exp)
            check_panic_exact(ctx, N, fn, exp, DATETIME, MIN_I, MAX_I)
            fn = f'<datetime::DateTime as std::ops::{tr}Assign<{rhs}>>::{tr.lower()}_assign'
            N.run(fn)
            check_dt(ctx, N, fn, exp, result_of=lambda I, st, args, rv: deref(I, st, args[0]))
    # ---- days
    for ty, path in (('datetime::DateTime', DATETIME), ('date::Date', DATE)):
        for op, sign in (('add', 1), ('sub', -1)):
            fn = f'<{ty} as shared::DateUtilities>::{op}_days'
            N.run(fn)
            exp = lambda I, st, args, recv, sign=sign: D.aff_add(D.aff_of(recv[2][0][1]), D.aff_of(args[1][1]), sign)
            check_days(ctx, N, fn, path, exp)
            check_panic_exact(ctx, N, fn, exp, path, -(1 << 31), (1 << 31) - 1)
    # ---- Date +/- Duration: moves by the whole days contained in the Duration
    for tr, sign in (('Add', 1), ('Sub', -1)):
        def exp_date(I, st, args, recv, sign=sign):
            secs = args[1][2][0][1]
            q, _ = D.divmod_vids(st, secs, 86_400)
            return D.aff_add(D.aff_of(recv[2][0][1]), D.aff_of(q), sign)
        fn = f'<date::Date as std::ops::{tr}<std::time::Duration>>::{tr.lower()}'
        N.run(fn)
        check_days(ctx, N, fn, DATE, exp_date)
        check_panic_exact(ctx, N, fn, exp_date, DATE, -(1 << 31), (1 << 31) - 1)
        fn = f'<date::Date as std::ops::{tr}Assign<std::time::Duration>>::{tr.lower()}_assign'
        N.run(fn)
        check_days(ctx, N, fn, DATE, exp_date, result_of=lambda I, st, args, rv: deref(I, st, args[0]))
    N.check_o2()
    N.judge(allowed_causes=RANGE_CAUSES, kinds=('ARITH', 'BOUNDS', 'CAST', 'UNWRAP', 'PANIC', 'STDPRE', 'INV'))
    ctx.cov['trusted_base'] += ['rustc MIR of the dev profile (overflow checks on)', 'std semantics of / % try_into checked_add/sub',
                                'vf/models.py rows: ' + ', '.join(sorted(I.models_used))[:600]]
