"""C19 -- malformed or hostile timezone data is rejected, never a crash (DESIGN section 4, C19)."""
from .. import domain as D
from ..numeric import Numeric, run_entries_parallel
from ..entries import install_splitter_contract, install_tz_partitions, install_cursor_contracts, apply_invariants
from .. import shape

LEVEL = 'other'
EXPLANATION = ('The TZif reader is analysed for every byte string at once: TimeZone::from_tzif on an unknown byte slice, the footer parser '
               'TransitionRule::from_tz_string on an unknown footer, TimeZone::to_local_time_type on any TimeZone value and any i64 timestamp, '
               'Offset::resolve, and every Cursor / Header / DataBlock function on its own. Every reachable MIR assertion (overflow, bounds), lossy '
               'cast, unwrap/expect, explicit panic and precondition of a std call (split_at, slice index, try_into of a slice, chunks_exact) is '
               'discharged; (F7) every loop of local::* is driven by an Iterator::next whose exhaustion leaves the loop and the call graph of local::* '
               'has no cycle, so the reader terminates. One obligation is hand-discharged with a written argument (UTF-8 validity of the ASCII-delimited sub-slices handed to parse_int); the loop '
               'counters of the two cursor scans are discharged by the join cache (counter == iterator position). That a damaged /etc/localtime yields offset 0 is read off Offset::resolve.')
META = {
    'technique': 'static analysis: MIR abstract interpretation of the byte-level parser (slice lengths, cursor contracts, rule-field ranges), loop/recursion structure on the CFG and call graph',
    'note': 'trusted: rustc MIR, vf/models.py; hand-discharged: tables/hand_discharged.json (1 entry: parse_int); assumption A-CLOCK',
}

FROM_TZIF = 'local::timezone::TimeZone::from_tzif'
FOOTER = 'local::transition_rule::TransitionRule::from_tz_string'
LOOKUP = 'local::timezone::TimeZone::to_local_time_type'
RESOLVE = 'offset::Offset::resolve'
READ_UNTIL = "local::cursor::Cursor::<'a>::read_until"
SMALL = ["local::cursor::Cursor::<'a>::new", "local::cursor::Cursor::<'a>::read_exact", "local::cursor::Cursor::<'a>::read_until",
         "local::cursor::Cursor::<'a>::read_while", "local::cursor::Cursor::<'a>::read_tag", "local::cursor::Cursor::<'a>::remaining",
         "local::cursor::Cursor::<'a>::empty", "local::cursor::Cursor::<'a>::get_next", 'local::header::Header::parse']
KERNELS = ['util::date::convert::year_doy_to_days']


def summaries(I):
    def make(fn):
        def contract(I_, st, args, dty, site):
            if I_.cur_entry == fn or not I_.stack:
                return None
            s = st.clone()
            v = I_.top(s, dty, 'summary') if dty is not None else ('top', None)
            apply_invariants(I_, s, v)
            return [(s, v)]
        return contract
    for fn in (FOOTER, FROM_TZIF, LOOKUP) + tuple(KERNELS):
        I.contracts[fn] = make(fn)


def drop_offset_contract(I):
    I.contracts.pop('offset::Offset::resolve', None)


def opaque_callables(I):
    """read_while is analysed with its predicate as an opaque callable (the closures passed to it are analysed by the summary at each call site)"""
    I.opaque_callables = True


def ascii_char(I, st, ty):
    return I.top(st, ty, 'char', lo=0, hi=127)


def resolve_range(N, fn, ctx):
    """post-condition of Offset::resolve (assumption A-LOCAL of the numeric checks): the result is within +-86_399 s"""
    if fn != RESOLVE:
        return
    n = 0
    for _args, _st0, outs in N.results.get(fn, []):
        for st, rv in outs:
            n += 1
            lo, hi = D.get_iv(st, rv[1]) if rv[0] == 'i' else (-D.INF, D.INF)
            if not (-86_399 <= lo and hi <= 86_399):
                ctx.finding('C19:RESOLVE-RANGE', 'A-LOCAL established', None,
                            f'Offset::resolve may return a value in [{lo}, {hi}], outside +-86_399 seconds (every DateTime/Time computation assumes a local offset below 24 hours)')
    if n == 0:
        ctx.finding('C19:RESOLVE-RANGE|none', 'A-LOCAL established', None, 'Offset::resolve: no returning path analysed')


def check(ctx):
    N = Numeric(ctx)
    facts = N.facts
    entries = [FROM_TZIF, FOOTER, LOOKUP, RESOLVE] + SMALL
    for fn in entries:
        ctx.anchor(facts.bodies, fn, 'C19 entry points')
    entries = [e for e in entries if e in facts.bodies]
    setup = (install_splitter_contract, install_tz_partitions, summaries)
    per_entry = {FROM_TZIF: {'max_disj': 64}, FOOTER: {'max_disj': 200}, LOOKUP: {'max_disj': 64}, RESOLVE: {'max_disj': 64}}
    big = [FROM_TZIF, FOOTER, LOOKUP, RESOLVE]
    stats = run_entries_parallel(ctx, N, big, opts={'numeric': {'max_disj': 64}, 'per_entry': per_entry,
                                                    'setup': setup + (install_cursor_contracts, drop_offset_contract), 'post': (resolve_range,)}, procs=4)
    ctx.rule('C19-D4 Offset::resolve returns an offset below 24 hours (LocalTimeType.utoff bounded at every construction site)', 1,
             0 if any(f.key.startswith('C19:RESOLVE-RANGE') for f in ctx.findings) else 1)
    small = [e for e in entries if e not in big and e != READ_UNTIL]
    stats.update(run_entries_parallel(ctx, N, small, opts={'numeric': {'max_disj': 64}, 'setup': (install_tz_partitions, opaque_callables)}, procs=8))
    # read_until is analysed for an ASCII delimiter; the client-side summary refuses any other argument (entries.install_cursor_contracts)
    stats.update(run_entries_parallel(ctx, N, [READ_UNTIL], opts={'numeric': {'max_disj': 64}, 'setup': (install_tz_partitions,),
                                                               'run': {'overrides': {'char': ascii_char}}}, procs=1))
    ctx.cov['entry_stats'] = stats
    for fn, s in stats.items():
        good = s['result_disjuncts'] > 0
        ctx.rule('C19 entry analysed to completion', 1, 1 if good else 0, sample={'entry': fn, **s})
        if not good:
            ctx.finding(f'C19:NORESULT|{fn}', 'coverage', None, f'{fn}: the analysis produced no returning path')
    # ---- F7: loops and recursion in local::*
    g = shape.call_graph(facts)
    local_fns = {f for f in g if f.startswith('local::') or f.startswith('<local::')}
    nloops = okloops = 0
    for f in sorted(local_fns):
        body = facts.bodies[f]
        loops, sc = shape.natural_loops(body)
        for head, blocks in loops.items():
            nloops += 1
            good, why = shape.iterator_driven(body, head, blocks, sc)
            if good:
                okloops += 1
            else:
                ctx.finding(f'C19:LOOP|{f}|bb{head}', 'F7 loops are iterator driven', body['span'], f'{f}: loop at bb{head} is not driven by a finite iterator: {why}')
    ctx.rule('C19-D2 loops of local::* driven by Iterator::next', nloops, okloops, floor=0, sample={'loops': nloops})      # a statement about every loop: no loop, nothing to show
    # recursion: (a) the functions of local:: do not call each other in a cycle; (b) the one static cycle that leaves the module
    # (rule_to_local_timestamp -> DateTime::year -> Offset::resolve -> to_local_time_type) is never taken: on every analysed
    # path no function is entered while it is already on the call stack (the offset of that DateTime is Fixed(0))
    gl = {f: {c for c in cs if c in local_fns} for f, cs in g.items() if f in local_fns}
    cyc = shape.has_cycle(gl, local_fns)
    ctx.rule('C19-D2 no call cycle inside local::', 1, 0 if cyc else 1, sample={'functions': len(local_fns)})
    if cyc:
        ctx.finding('C19:RECURSION', 'F7 no recursion', None, f'call cycle through {cyc[0]} -> {cyc[1]}')
    re_entries = sorted(k for k in N.I.notes if k.startswith('re-entry: ') or k.startswith('recursion cut: '))
    ctx.rule('C19-D2 no function re-entered on any analysed path', 1, 0 if re_entries else 1, sample={'entries': len(entries)})
    for k in re_entries:
        ctx.finding(f'C19:REENTRY|{k.split(": ", 1)[1]}', 'F7 no recursion', None, f'{k} (a function of the reader is entered while already on the call stack)')
    # the type invariant |LocalTimeType.utoff| < 24 h is inductive only if every construction site of the type was analysed
    from ..numeric import construction_entries
    from ..entries import LOCAL_TIME_TYPE
    sites = construction_entries(facts, LOCAL_TIME_TYPE)
    checked = {o.fn for o in N.I.obl.values() if o.kind == 'INV' and o.sub == LOCAL_TIME_TYPE}
    ctx.rule('C19-D4 every construction site of LocalTimeType carries the invariant obligation', len(sites), len([f for f in sites if f in checked]), floor=2,
             sample={'sites': sorted(sites)})
    for f in sorted(set(sites) - checked):
        ctx.finding(f'C19:INV-UNCHECKED|{f}', 'A-LOCAL established', None, f'{f} builds a LocalTimeType but is not reached by any analysed entry: its offset bound is unchecked')
    ctx.assumptions.append('A-CLOCK: SystemTime::now() is not before 1970 and before year 5_879_611')
    N.judge(allowed_causes=('std::time::SystemTime::duration_since',), skip_fns=())
    ctx.cov['trusted_base'] += ['rustc MIR of the dev profile', 'vf/models.py rows: ' + ', '.join(sorted(N.I.models_used))[:900]]
