"""C12 -- parsing with the pattern that produced a string recovers the value (field round trip + assembly)."""
from .. import domain as D
from ..numeric import Numeric
from .. import textsem as T
from .. import roundtrip as RT
from . import C11
from ..models import strv_of, deref

LEVEL = 'other'
EXPLANATION = ('Field round trip, for every documented pattern run (and longer runs): each output path of the part formatter (C11 machinery: kernel values '
               'case-split, text as segments) is turned into an exact symbolic text -- its literal characters, the digits of its numbers with their '
               'digit count fixed per path, followed by an arbitrary rest that does not start with a digit -- and the part parser is analysed on that '
               'text. Decided: the parser cannot fail on it, consumes exactly the formatted text, and returns the unit of the symbol with the value '
               'that was printed (year with sign, month also from its names, day, day of year, hour from H/k/h/K with the 12 -> 0 and 24 -> 0 rules, '
               'period from AM/PM/noon/midnight texts, minute, second, the five sub-second units, the zone from its printed fields), or nothing for '
               'the symbols the parser skips (era, quarter, week, weekday). Assembly: Date/Time/DateTime::parse combine the parsed units into the '
               'value by the stated formulas with the documented defaults (decided by C12-A rules below); a 24-hour field parsed beside a period marker keeps its value (C12-A2). Side conditions of the property are '
               'applied: a year printed with more digits than a run of 5 or more letters is skipped, yy and narrow names are consumed only.')
META = {
    'technique': 'static analysis: abstract interpretation of parse_part on the exact symbolic text produced by format_part per output path (segment strings with '
                 'known digit counts), unit/value identity and exact consumption; affine identity of the assembly in parse',
    'note': 'trusted: rustc MIR, vf/models.py, vf/roundtrip.py (summaries of pick_part / remove_part: first n characters, parsed); kernels summarised (C01/C02/C08)',
}

PARSE_PART = 'util::parse::parse_part'
FORMAT_PART = 'util::format::format_part'
PARSED = 'util::parse::ParsedPart'
UNIT = 'util::parse::ParseUnit'
API = 'datetime::DateTime::format'


def unit_expect(letter, k):
    if letter in 'Gqwe':
        return None
    if letter == 'y':
        return 'Year'
    if letter == 'M':
        return None if k == 5 else 'Month'
    if letter == 'd':
        return 'DayOfMonth'
    if letter == 'D':
        return 'DayOfYear'
    if letter in 'ab':
        return 'Period'
    if letter in 'hK':
        return 'PeriodHour'
    if letter in 'Hk':
        return 'Hour'
    if letter == 'm':
        return 'Minute'
    if letter == 's':
        return 'Second'
    if letter == 'n':
        return {1: 'Decis', 2: 'Centis', 3: 'Millis', 4: 'Micros', 5: 'Nanos'}[C11.width_default(k, 3, 5)]
    if letter in 'Xx':
        return 'Offset'
    return None


def value_ok(letter, k, env, st, pieces, val):
    """is the parsed value the one that was printed?  -> None or a message"""
    nums = [p for p in pieces if p[0] in ('zp', 'num')]
    lo, hi = D.get_iv(st, val)

    def same(aff):
        return D.aff_equiv(D.aff_of(val), aff, st=st)
    if letter == 'y':
        if k == 2:
            return None
        return None if same(D.aff_of(env['Y'])) else 'the parsed year is not the year that was printed'
    if letter == 'M':
        return None if (lo, hi) == (env['M'], env['M']) else f'month {env["M"]} is read back as {lo}..{hi}'
    if letter in 'dDms':
        sym = env[{'d': 'D_sym', 'D': 'DOY_sym', 'm': 'm_sym', 's': 's_sym'}[letter]]
        return None if same(D.aff_of(sym)) else 'the parsed number is not the number that was printed'
    if letter in 'hHKk':
        h = env['h']
        want = {'h': h % 12, 'K': h % 12, 'H': h, 'k': h}[letter]
        return None if (lo, hi) == (want, want) else f'hour {h} printed with {letter!r} is read back as {lo}..{hi} (expected {want})'
    if letter in 'ab':
        nv = env['nanos']
        secs = D.divmod_vids(st, nv, 10**9)[0]
        sl, sh = D.get_iv(st, secs)
        want = 0 if sh < 43_200 else 1 if sl >= 43_200 else None
        return None if want is not None and (lo, hi) == (want, want) else f'a time of day in seconds {sl}..{sh} is read back as period {lo}..{hi}'
    if letter == 'n':
        return None if len(nums) == 1 and same(D.aff_of(nums[0][1])) else 'the parsed sub-second number is not the number that was printed'
    if letter in 'Xx':
        if pieces == [('lit', 'Z')]:
            return None if (lo, hi) == (0, 0) else "'Z' is not read back as offset 0"
        sign = -1 if pieces and pieces[0] == ('lit', '-') else 1
        aff = D.aff_const(0)
        for c, p in zip((3600, 60, 1), nums):
            aff = D.aff_add(aff, D.aff_scale(D.aff_of(p[1]), c * sign))
        return None if same(aff) else 'the parsed offset is not +-(3600 hh + 60 mm + ss) of the printed fields'
    return None


def field_round_trip(ctx, R, facts):
    I = R.I
    RT.install(I)
    for f in (PARSE_PART, 'util::parse::parse_date_part', 'util::parse::parse_time_part', 'util::parse::parse_month', 'util::parse::parse_wday',
              'util::parse::parse_zone'):
        I.return_partition[f] = lambda I_, st, v: id(st)
        I.unroll_for[f] = 12
    unit_names = [v['name'] for v in facts.adts[UNIT]['variants']] if UNIT in facts.adts else []
    rows = T.parse_doc_table(facts.bodies[API].get('docs') or '')
    by_letter = {}
    for field, pats, ex, hint, unlimited in rows:
        for p in pats:
            by_letter.setdefault(p[0], set()).add(len(p))
    ctx.rule('C12 documented symbols', len(by_letter), len(by_letter), floor=19)
    npaths = 0
    for letter, ks in sorted(by_letter.items()):
        kmax = max(ks)
        for k in sorted(ks | {kmax + 1, kmax + 3}):
            pat = letter * k
            if pat == 'yy':
                continue        # two-digit year: not a value-preserving field (outside the property's unambiguous grammar)
            outs = R.run(FORMAT_PART, pat)
            problems = []
            n_here = 0
            for st, pieces, amap in outs:
                if any(p[0] in ('opq', 'lits') for p in pieces):
                    problems.append('the formatted text of one path is not exact')
                    continue
                env = C11.env_of(R, st, amap)
                for s in RT.digit_splits(st, pieces):
                    if letter == 'y' and k >= 5:
                        nd = [len(str(int(D.get_iv(s, p[1])[1]))) for p in pieces if p[0] in ('zp', 'num')]
                        if nd and nd[0] > k:
                            continue      # side condition: |year| < 10^width
                    # what may follow the field: not a digit; after a zone also not ':' (a colon and a digit would read as seconds)
                    xt = RT.build(I, s, pieces, rest=':' if letter in 'Xx' else True)
                    if xt is None:
                        problems.append('the formatted text of one path is not exact')
                        continue
                    n_here += 1

                    def args(I_, st0, s=s, xt=xt):
                        s2 = s.clone()
                        sv = RT.new_string(I_, s2, xt)
                        oid = next(I_._oid)
                        s2.objs[oid] = ('String', sv)
                        cell = I_.alloc(s2, ('obj', oid, RT.STRING))
                        return [(s2, [('str', I_.lit_str(s2, pat)), ('r', cell)])], cell
                    holder = {}

                    def build_args(I_, st0):
                        cfgs, cell = args(I_, st0)
                        holder['cell'] = cell
                        return cfgs
                    res = I.run_entry(PARSE_PART, build_args, label=f'{PARSE_PART}[{pat}]')
                    want_unit = unit_expect(letter, k)
                    if not res:
                        problems.append(f'no result for the text {xt!r}')
                    for st2, rv in res:
                        if rv[0] != 'e' or 0 not in rv[2] or 1 in rv[2]:
                            if rv[0] == 'e' and set(rv[2]) == {1}:
                                problems.append(f'the parser can reject the formatted text {xt!r}')
                            else:
                                problems.append(f'the parser result on {xt!r} is not a definite Ok')
                            continue
                        cur = I.read_resolved(st2, ('L',) + holder['cell'])
                        sv2 = strv_of(I, st2, cur) if cur is not None else None
                        x2 = I.xtext.get(sv2.ident) if sv2 is not None else None
                        if x2 is None or x2.chars or not x2.rest:
                            problems.append(f'after parsing {xt!r} the remaining text is {x2!r}, not the rest alone (the parser does not consume exactly what was printed)')
                            continue
                        opt = rv[2][0][0]
                        if opt[0] != 'e' or len(opt[2]) != 1:
                            problems.append(f'the parsed part for {xt!r} is not definite')
                            continue
                        if 0 in opt[2]:
                            if want_unit is not None:
                                problems.append(f'nothing is read from {xt!r}, expected the unit {want_unit}')
                            continue
                        part = opt[2][1][0]
                        value, unit = part[2][0], part[2][1]
                        uname = unit_names[next(iter(unit[2]))] if unit[0] == 'e' and len(unit[2]) == 1 else None
                        if want_unit is None:
                            problems.append(f'{xt!r} is read as {uname}, the symbol carries no parsed unit')
                            continue
                        if uname != want_unit:
                            problems.append(f'{xt!r} is read as unit {uname}, expected {want_unit}')
                            continue
                        if value[0] != 'i':
                            problems.append(f'the value read from {xt!r} is not tracked')
                            continue
                        try:
                            msg = value_ok(letter, k, env, st2, pieces, value[1])
                        except KeyError as e:
                            msg = f'the analysis did not determine {e} on this path'
                        if msg:
                            problems.append(f'{xt!r}: {msg}')
            npaths += n_here
            good = not problems
            ctx.rule('C12-F every formatted text of a pattern run is read back: accepted, consumed exactly, same unit and value', 1, 1 if good else 0,
                     sample={'pattern': pat, 'texts analysed': n_here})
            for i, m in enumerate(list(dict.fromkeys(problems))[:2]):
                ctx.finding(f'C12:FIELD|{pat}|{i}', 'C12-F field round trip', facts.bodies[PARSE_PART]['span'], f'pattern {pat!r}: {m}')
    ctx.cov['formatted texts analysed'] = npaths


def check(ctx):
    R = C11.Runner(ctx)
    facts = R.N.facts
    if not (ctx.anchor(facts.bodies, PARSE_PART, 'C12') and ctx.anchor(facts.bodies, FORMAT_PART, 'C12') and ctx.anchor(facts.bodies, API, 'C12')):
        return
    field_round_trip(ctx, R, facts)
    R.N.judge(kinds=('ARITH', 'BOUNDS', 'CAST', 'UNWRAP', 'PANIC', 'STDPRE'), allowed_causes=('std::time::SystemTime::duration_since',))
    ctx.cov['trusted_base'] += ['rustc MIR of the dev profile', 'vf/models.py', 'vf/roundtrip.py summaries of pick_part / remove_part']
    assembly(ctx, facts)


# ------------------------------------------------------------------------------------------------------------------
# Assembly: how parse combines the parsed units into the value
NPS = 10**9
COEF = {'Hour': 3600 * NPS, 'PeriodHour': 3600 * NPS, 'Minute': 60 * NPS, 'Second': NPS, 'Decis': 10**8, 'Centis': 10**7, 'Millis': 10**6,
        'Micros': 10**3, 'Nanos': 1}
ENTRIES = {
    'datetime::DateTime::parse': ('util::parse::parse_part', None),
    'date::Date::parse': ('util::parse::parse_date_part', ('Year', 'Month', 'DayOfMonth', 'DayOfYear')),
    'time::Time::parse': ('util::parse::parse_time_part', ('Hour', 'PeriodHour', 'Period', 'Minute', 'Second', 'Decis', 'Centis', 'Millis', 'Micros', 'Nanos', 'Offset')),
}
I64 = {'k': 'int', 's': True, 'bits': 64, 'name': 'i64'}
I32 = {'k': 'int', 's': True, 'bits': 32, 'name': 'i32'}
U64 = {'k': 'int', 's': False, 'bits': 64, 'name': 'u64'}


def single_field(ctx, facts, entry, partfn, unit, units, pair=None):
    """one run of `entry` on a pattern of one run whose part parser yields Some(ParsedPart {value: V, unit}) -> problems"""
    from ..models import ok, err, some, none
    from ..entries import DATETIME, DATE, TIME, OFFSET
    N = Numeric(ctx, 'default', max_disj=300, max_steps=400_000)
    I = N.I
    rec = {'ymd': [], 'doy': [], 'tfn': [], 'rm': [], 'ofs': [], 'aso': []}
    V = {}

    def c_fmt(I_, st, args, dty, site):
        s2 = st.clone()
        from ..models import new_string_obj
        part = new_string_obj(I_, s2, I_.lit_str(s2, 'x'))      # one run that is not a quoted literal
        if pair is not None:
            part2 = new_string_obj(I_, s2, I_.lit_str(s2, 'y'))
            return [(s2, ('a', (part, part2)))]
        return [(s2, ('a', (part,)))]

    def c_part(I_, st, args, dty, site):
        s1, s2 = st.clone(), st.clone()
        if 'v' not in V:
            V['v'] = D.sym_vid(0, 1 if unit == 'Period' else 1000, 'parsed value')
        s1.iv[V['v']] = (0, 1 if unit == 'Period' else 1000)
        s1.trace = s1.trace + ('parsed',)      # marks the paths on which the part parser returned the value
        v = ('i', V['v'], 'i64')
        ui = units.index(unit)
        pp = ('s', PARSED, (v, ('e', UNIT, {ui: ()})), None)
        if pair is not None:
            # pair mode: every part is either the unit (value V) or the second unit of the pair (value W); the trace says which were seen
            s1.trace = s1.trace[:-1] + ('parsed:' + unit,)
            s3 = st.clone()
            if 'w' not in V:
                V['w'] = D.sym_vid(0, 1, 'second parsed value')
            s3.iv[V['w']] = (0, 1)
            s3.trace = s3.trace + ('parsed:' + pair,)
            pw = ('s', PARSED, (('i', V['w'], 'i64'), ('e', UNIT, {units.index(pair): ()})), None)
            return [(s1, ok(some(pp))), (s3, ok(some(pw))), (s2, err(I_.top(s2, dty['args'][1], 'fmt')))]
        return [(s1, ok(some(pp))), (s2, err(I_.top(s2, dty['args'][1], 'fmt')))]

    def rec_call(key, ret):
        def c(I_, st, args, dty, site):
            s1, s2 = st.clone(), st.clone()
            r = ret(I_, s1, dty)
            rec[key].append((st, args, r))
            outs = [(s1, ok(r) if dty.get('path') == 'std::result::Result' else r)]
            if dty.get('path') == 'std::result::Result':
                outs.append((s2, err(I_.top(s2, dty['args'][1], 'oor'))))
            return outs
        return c

    def top_of(inner):
        def f(I_, st, dty):
            from ..entries import apply_invariants
            ty = dty['args'][0] if dty.get('path') == 'std::result::Result' else dty
            v = I_.top(st, ty, inner)
            apply_invariants(I_, st, v)
            return v
        return f
    I.contracts['util::parse::parse_format_string'] = c_fmt
    I.contracts[partfn] = c_part
    I.contracts['datetime::DateTime::from_ymd'] = rec_call('ymd', top_of('from_ymd'))
    I.contracts['date::Date::from_ymd'] = rec_call('ymd', top_of('from_ymd'))
    I.contracts['util::date::convert::year_doy_to_days'] = rec_call('doy', top_of('doy days'))
    I.contracts['time::Time::from_nanos'] = rec_call('tfn', top_of('time'))
    I.contracts['util::offset::try_remove_offset_from_dn'] = rec_call('rm', top_of('utc'))
    def fixed_offset(I_, st, dty):
        # Offset::from_seconds returns Fixed(seconds) (C15): the summary is a Fixed offset with an unknown in-range payload
        return ('e', OFFSET, {0: (I_.top(st, I32, 'zone seconds', lo=-86_399, hi=86_399),)})
    I.contracts['offset::Offset::from_seconds'] = rec_call('ofs', fixed_offset)
    I.contracts['<time::Time as shared::OffsetUtilities>::as_offset'] = rec_call('aso', top_of('as_offset'))
    I.return_partition[entry] = lambda I_, st, v: id(st)
    N.run(entry, variants=('fixed',))
    problems = []
    nok = 0
    v = V.get('v')

    def is_const(st, x, c):
        return x[0] == 'i' and D.get_iv(st, x[1]) == (c, c)

    def is_v(st, x):
        return x[0] == 'i' and v is not None and D.aff_equiv(D.aff_of(x[1]), D.aff_of(v), st=st)
    def judge_path(st, val, use_v):
        """problems of one Ok path against the expectation with the parsed value (use_v) or with every field absent"""
        pr = []
        ty = entry.split('::')[1]
        u = unit if use_v else None
        if ty in ('DateTime', 'Date'):
            if u == 'DayOfYear':
                hit = [r for r in rec['doy'] if is_const(r[0], r[1][0], 1) and is_v(r[0], r[1][1]) and is_const(r[0], r[1][2], 0)]
                if not hit or (val[2][0] if val[0] == 's' else None) not in [h[2] for h in hit]:
                    pr.append('with a day of year the day number is not year_doy_to_days(1, value, false)')
            else:
                want = {'Year': 0, 'Month': 1, 'DayOfMonth': 2}.get(u)
                hit = [r for r in rec['ymd'] if all((is_v(r[0], a) if i == want else is_const(r[0], a, 1)) for i, a in enumerate(r[1]))]
                if not hit:
                    pr.append(f'the date is not from_ymd with {u or "no field"} = value and the other fields 1')
                elif ty == 'Date' and val not in [h[2] for h in hit]:
                    pr.append('the Date returned is not the one built by from_ymd')
                elif ty == 'DateTime' and u == 'Offset':
                    if not any(r[1][0] in [h[2][2][0] for h in hit] for r in rec['rm']):
                        pr.append('the day number shifted by the zone is not the one built by from_ymd')
                elif ty == 'DateTime' and (val[0] != 's' or val[2][0] not in [h[2][2][0] for h in hit]):
                    pr.append('the day number returned is not the one built by from_ymd')
        if ty in ('DateTime', 'Time'):
            if u == 'Period':
                pl = D.get_iv(st, v)
                want = D.aff_const(0) if pl == (0, 0) else D.aff_const(12 * 3600 * NPS) if pl[0] >= 1 else None
            elif u in COEF:
                want = D.aff_scale(D.aff_of(v), COEF[u])
            else:
                want = D.aff_const(0)
            hit = [r for r in rec['tfn'] if r[1][0][0] == 'i' and want is not None and D.aff_equiv(D.aff_of(r[1][0][1]), want, st=r[0])]
            if not hit:
                pr.append(f'the time of day is not Time::from_nanos({u or "no"} value * {COEF.get(u, 0)}) with the other fields 0')
            else:
                tvs = [h[2] for h in hit]
                if u == 'Offset':
                    ofs = [r for r in rec['ofs'] if is_v(r[0], r[1][0])]
                    if not ofs:
                        pr.append('the zone is not Offset::from_seconds(value)')
                    elif ty == 'Time':
                        aso = [r for r in rec['aso'] if r[1][1] in [o[2] for o in ofs]]
                        if not aso or val not in [a_[2] for a_ in aso]:
                            pr.append('the Time returned is not from_nanos(..).as_offset(zone)')
                    else:
                        # the local reading is shifted by exactly the resolved zone: third argument == zone.resolve()
                        def resolved(r):
                            for o in ofs:
                                z = o[2]
                                if z[0] == 'e' and 0 in z[2] and r[1][2][0] == 'i' and z[2][0][0][0] == 'i' and \
                                        D.aff_equiv(D.aff_of(r[1][2][1]), D.aff_of(z[2][0][0][1]), st=r[0]):
                                    return True
                            return False
                        rm = [r for r in rec['rm'] if any(r[1][1] == tv[2][0] for tv in tvs) and resolved(r)]
                        if not rm or val[0] != 's' or val[2][2] not in [o[2] for o in ofs] or (val[2][0], val[2][1]) not in [tuple(r[2][1]) for r in rm]:
                            pr.append('the DateTime returned is not the local reading shifted to UTC by the zone, carrying the zone as its offset')
                elif ty == 'Time':
                    if val not in tvs:
                        pr.append('the Time returned is not Time::from_nanos(..)')
                else:
                    if val[0] != 's' or val[2][1] not in [tv[2][0] for tv in tvs]:
                        pr.append('nanoseconds of the DateTime returned is not the time of day built by Time::from_nanos')
                    if val[0] == 's' and not any(val[2][2] == r[2][2][2] for r in rec['ymd'] if r[2][0] == 's') and not rec['doy']:
                        pr.append('without a zone in the pattern the offset is not the one of the value built from the date (UTC)')
        return pr
    if pair is not None:
        # Ok paths on which both units of the pair were parsed: the time of day is that of the first unit alone
        want = D.aff_scale(D.aff_of(v), COEF[unit]) if v is not None else None
        both = good = 0
        for args, st0, outs in N.results.get(entry, []):
            for st, rv in outs:
                if rv[0] != 'e' or 0 not in rv[2] or 1 in rv[2] or v is None:
                    continue
                if 'parsed:' + unit not in st.trace or 'parsed:' + pair not in st.trace:
                    continue
                both += 1
                val = rv[2][0][0]
                hit = [r for r in rec['tfn'] if r[1][0][0] == 'i' and D.aff_equiv(D.aff_of(r[1][0][1]), want, st=r[0])]
                tvs = [h[2] for h in hit]
                ty = entry.split('::')[1]
                if hit and ((ty == 'Time' and val in tvs) or (ty == 'DateTime' and val[0] == 's' and val[2][1] in [tv[2][0] for tv in tvs])):
                    good += 1
        if both == 0:
            return [f'no Ok path on which both a {unit} and a {pair} field were parsed']
        if good != both:
            return [f'with a {unit} field and a {pair} field in the pattern the time of day is not {unit} value * {COEF[unit]} '
                    f'(the text written for such a pattern does not read back as the same time) on {both - good} of {both} paths']
        return []
    with_v = 0
    import os
    if os.environ.get('C12DBG'):
        for k_, lst in rec.items():
            for st_, a_, r_ in lst:
                print('REC', k_, [I.describe(st_, x) for x in a_], [x[1] if x[0] == 'i' else None for x in a_], 'v=', v, 'ret', r_)
    for args, st0, outs in N.results.get(entry, []):
        for st, rv in outs:
            if rv[0] != 'e' or 0 not in rv[2] or 1 in rv[2] or v is None:
                continue
            nok += 1
            val = rv[2][0][0]
            p1 = judge_path(st, val, True)
            if not p1:
                with_v += 1
                continue
            problems.extend(p1)
    if nok and not with_v and not problems:
        problems.append('no Ok path carries the parsed value into the result')
    if nok == 0:
        problems.append('no Ok path with a parsed value')
    return list(dict.fromkeys(problems))


def assembly(ctx, facts):
    units = [v['name'] for v in facts.adts[UNIT]['variants']] if UNIT in facts.adts else []
    ctx.rule('C12-A ParseUnit variants', len(units), len(units), floor=15)
    for entry, (partfn, only) in ENTRIES.items():
        if not ctx.anchor(facts.bodies, entry, 'C12 assembly'):
            continue
        for unit in units:
            if only is not None and unit not in only:
                continue
            pr = single_field(ctx, facts, entry, partfn, unit, units)
            ctx.rule('C12-A a single parsed unit lands in its field, the others take the documented defaults', 1, 0 if pr else 1, sample={'entry': entry, 'unit': unit})
            for i, m in enumerate(pr[:2]):
                ctx.finding(f'C12:ASSEMBLY|{entry}|{unit}|{i}', 'C12-A assembly', facts.bodies[entry]['span'], f'{entry} with one {unit} field: {m}')
        if 'Hour' in units and 'Period' in units and (only is None or 'Hour' in only):
            # A2: a 24-hour field next to a period marker (`HH:mm a`): the 24-hour field decides, whatever the marker says
            pr = single_field(ctx, facts, entry, partfn, 'Hour', units, pair='Period')
            ctx.rule('C12-A2 a 24-hour field beside a period marker keeps its value', 1, 0 if pr else 1, sample={'entry': entry})
            for m in pr[:1]:
                ctx.finding(f'C12:ASSEMBLY2|{entry}|Hour+Period', 'C12-A2 assembly of two fields', facts.bodies[entry]['span'], f'{entry}: {m}')
