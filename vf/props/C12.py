"""C12 -- parsing with the pattern that produced a string recovers the value (field round trip + assembly)."""
from .. import domain as D
from ..numeric import Numeric
from .. import textsem as T
from .. import roundtrip as RT
from . import C11
from ..models import strv_of, deref

LEVEL = 'other'
EXPLANATION = ('Field round trip, for every documented pattern run (and longer runs): each output path of the part formatter (C11 machinery: kernel values '
               'case-split, text as segments) is turned into an exact symbolic text -- its literal characters, the digits of its numbers with their '
               'digit count fixed per path, followed by an arbitrary rest that does not start with a digit -- and the part parser is analysed on that '
               'text. Decided: the parser cannot fail on it, consumes exactly the formatted text, and returns the unit of the symbol with the value '
               'that was printed (year with sign, month also from its names, day, day of year, hour from H/k/h/K with the 12 -> 0 and 24 -> 0 rules, '
               'period from AM/PM/noon/midnight texts, minute, second, the five sub-second units, the zone from its printed fields), or nothing for '
               'the symbols the parser skips (era, quarter, week, weekday). Assembly: Date/Time/DateTime::parse combine the parsed units into the '
               'value by the stated formulas with the documented defaults (decided by C12-A rules below). Side conditions of the property are '
               'applied: a year printed with more digits than a run of 5 or more letters is skipped, yy and narrow names are consumed only.')
META = {
    'technique': 'static analysis: abstract interpretation of parse_part on the exact symbolic text produced by format_part per output path (segment strings with '
                 'known digit counts), unit/value identity and exact consumption; affine identity of the assembly in parse',
    'note': 'trusted: rustc MIR, vf/models.py, vf/roundtrip.py (summaries of pick_part / remove_part: first n characters, parsed); kernels summarised (C01/C02/C08)',
}

PARSE_PART = 'util::parse::parse_part'
FORMAT_PART = 'util::format::format_part'
PARSED = 'util::parse::ParsedPart'
UNIT = 'util::parse::ParseUnit'
API = 'datetime::DateTime::format'


def unit_expect(letter, k):
    if letter in 'Gqwe':
        return None
    if letter == 'y':
        return 'Year'
    if letter == 'M':
        return None if k == 5 else 'Month'
    if letter == 'd':
        return 'DayOfMonth'
    if letter == 'D':
        return 'DayOfYear'
    if letter in 'ab':
        return 'Period'
    if letter in 'hK':
        return 'PeriodHour'
    if letter in 'Hk':
        return 'Hour'
    if letter == 'm':
        return 'Minute'
    if letter == 's':
        return 'Second'
    if letter == 'n':
        return {1: 'Decis', 2: 'Centis', 3: 'Millis', 4: 'Micros', 5: 'Nanos'}[C11.width_default(k, 3, 5)]
    if letter in 'Xx':
        return 'Offset'
    return None


def value_ok(letter, k, env, st, pieces, val):
    """is the parsed value the one that was printed?  -> None or a message"""
    nums = [p for p in pieces if p[0] in ('zp', 'num')]
    lo, hi = D.get_iv(st, val)

    def same(aff):
        return D.aff_equiv(D.aff_of(val), aff, st=st)
    if letter == 'y':
        if k == 2:
            return None
        return None if same(D.aff_of(env['Y'])) else 'the parsed year is not the year that was printed'
    if letter == 'M':
        return None if (lo, hi) == (env['M'], env['M']) else f'month {env["M"]} is read back as {lo}..{hi}'
    if letter in 'dDms':
        sym = env[{'d': 'D_sym', 'D': 'DOY_sym', 'm': 'm_sym', 's': 's_sym'}[letter]]
        return None if same(D.aff_of(sym)) else 'the parsed number is not the number that was printed'
    if letter in 'hHKk':
        h = env['h']
        want = {'h': h % 12, 'K': h % 12, 'H': h, 'k': h}[letter]
        return None if (lo, hi) == (want, want) else f'hour {h} printed with {letter!r} is read back as {lo}..{hi} (expected {want})'
    if letter in 'ab':
        nv = env['nanos']
        secs = D.divmod_vids(st, nv, 10**9)[0]
        sl, sh = D.get_iv(st, secs)
        want = 0 if sh < 43_200 else 1 if sl >= 43_200 else None
        return None if want is not None and (lo, hi) == (want, want) else f'a time of day in seconds {sl}..{sh} is read back as period {lo}..{hi}'
    if letter == 'n':
        return None if len(nums) == 1 and same(D.aff_of(nums[0][1])) else 'the parsed sub-second number is not the number that was printed'
    if letter in 'Xx':
        if pieces == [('lit', 'Z')]:
            return None if (lo, hi) == (0, 0) else "'Z' is not read back as offset 0"
        sign = -1 if pieces and pieces[0] == ('lit', '-') else 1
        aff = D.aff_const(0)
        for c, p in zip((3600, 60, 1), nums):
            aff = D.aff_add(aff, D.aff_scale(D.aff_of(p[1]), c * sign))
        return None if same(aff) else 'the parsed offset is not +-(3600 hh + 60 mm + ss) of the printed fields'
    return None


def field_round_trip(ctx, R, facts):
    I = R.I
    RT.install(I)
    for f in (PARSE_PART, 'util::parse::parse_date_part', 'util::parse::parse_time_part', 'util::parse::parse_month', 'util::parse::parse_wday',
              'util::parse::parse_zone'):
        I.return_partition[f] = lambda I_, st, v: id(st)
        I.unroll_for[f] = 12
    unit_names = [v['name'] for v in facts.adts[UNIT]['variants']] if UNIT in facts.adts else []
    rows = T.parse_doc_table(facts.bodies[API].get('docs') or '')
    by_letter = {}
    for field, pats, ex, hint, unlimited in rows:
        for p in pats:
            by_letter.setdefault(p[0], set()).add(len(p))
    ctx.rule('C12 documented symbols', len(by_letter), len(by_letter), floor=19)
    npaths = 0
    for letter, ks in sorted(by_letter.items()):
        kmax = max(ks)
        for k in sorted(ks | {kmax + 1, kmax + 3}):
            pat = letter * k
            if pat == 'yy':
                continue        # two-digit year: not a value-preserving field (outside the property's unambiguous grammar)
            outs = R.run(FORMAT_PART, pat)
            problems = []
            n_here = 0
            for st, pieces, amap in outs:
                if any(p[0] in ('opq', 'lits') for p in pieces):
                    problems.append('the formatted text of one path is not exact')
                    continue
                env = C11.env_of(R, st, amap)
                for s in RT.digit_splits(st, pieces):
                    if letter == 'y' and k >= 5:
                        nd = [len(str(int(D.get_iv(s, p[1])[1]))) for p in pieces if p[0] in ('zp', 'num')]
                        if nd and nd[0] > k:
                            continue      # side condition: |year| < 10^width
                    # what may follow the field: not a digit; after a zone also not ':' (a colon and a digit would read as seconds)
                    xt = RT.build(I, s, pieces, rest=':' if letter in 'Xx' else True)
                    if xt is None:
                        problems.append('the formatted text of one path is not exact')
                        continue
                    n_here += 1

                    def args(I_, st0, s=s, xt=xt):
                        s2 = s.clone()
                        sv = RT.new_string(I_, s2, xt)
                        oid = next(I_._oid)
                        s2.objs[oid] = ('String', sv)
                        cell = I_.alloc(s2, ('obj', oid, RT.STRING))
                        return [(s2, [('str', I_.lit_str(s2, pat)), ('r', cell)])], cell
                    holder = {}

                    def build_args(I_, st0):
                        cfgs, cell = args(I_, st0)
                        holder['cell'] = cell
                        return cfgs
                    res = I.run_entry(PARSE_PART, build_args, label=f'{PARSE_PART}[{pat}]')
                    want_unit = unit_expect(letter, k)
                    if not res:
                        problems.append(f'no result for the text {xt!r}')
                    for st2, rv in res:
                        if rv[0] != 'e' or 0 not in rv[2] or 1 in rv[2]:
                            if rv[0] == 'e' and set(rv[2]) == {1}:
                                problems.append(f'the parser can reject the formatted text {xt!r}')
                            else:
                                problems.append(f'the parser result on {xt!r} is not a definite Ok')
                            continue
                        cur = I.read_resolved(st2, ('L',) + holder['cell'])
                        sv2 = strv_of(I, st2, cur) if cur is not None else None
                        x2 = I.xtext.get(sv2.ident) if sv2 is not None else None
                        if x2 is None or x2.chars or not x2.rest:
                            problems.append(f'after parsing {xt!r} the remaining text is {x2!r}, not the rest alone (the parser does not consume exactly what was printed)')
                            continue
                        opt = rv[2][0][0]
                        if opt[0] != 'e' or len(opt[2]) != 1:
                            problems.append(f'the parsed part for {xt!r} is not definite')
                            continue
                        if 0 in opt[2]:
                            if want_unit is not None:
                                problems.append(f'nothing is read from {xt!r}, expected the unit {want_unit}')
                            continue
                        part = opt[2][1][0]
                        value, unit = part[2][0], part[2][1]
                        uname = unit_names[next(iter(unit[2]))] if unit[0] == 'e' and len(unit[2]) == 1 else None
                        if want_unit is None:
                            problems.append(f'{xt!r} is read as {uname}, the symbol carries no parsed unit')
                            continue
                        if uname != want_unit:
                            problems.append(f'{xt!r} is read as unit {uname}, expected {want_unit}')
                            continue
                        if value[0] != 'i':
                            problems.append(f'the value read from {xt!r} is not tracked')
                            continue
                        try:
                            msg = value_ok(letter, k, env, st2, pieces, value[1])
                        except KeyError as e:
                            msg = f'the analysis did not determine {e} on this path'
                        if msg:
                            problems.append(f'{xt!r}: {msg}')
            npaths += n_here
            good = not problems
            ctx.rule('C12-F every formatted text of a pattern run is read back: accepted, consumed exactly, same unit and value', 1, 1 if good else 0,
                     sample={'pattern': pat, 'texts analysed': n_here})
            for i, m in enumerate(list(dict.fromkeys(problems))[:2]):
                ctx.finding(f'C12:FIELD|{pat}|{i}', 'C12-F field round trip', facts.bodies[PARSE_PART]['span'], f'pattern {pat!r}: {m}')
    ctx.cov['formatted texts analysed'] = npaths


def check(ctx):
    R = C11.Runner(ctx)
    facts = R.N.facts
    if not (ctx.anchor(facts.bodies, PARSE_PART, 'C12') and ctx.anchor(facts.bodies, FORMAT_PART, 'C12') and ctx.anchor(facts.bodies, API, 'C12')):
        return
    field_round_trip(ctx, R, facts)
    R.N.judge(kinds=('ARITH', 'BOUNDS', 'CAST', 'UNWRAP', 'PANIC', 'STDPRE'), allowed_causes=('std::time::SystemTime::duration_since',))
    ctx.cov['trusted_base'] += ['rustc MIR of the dev profile', 'vf/models.py', 'vf/roundtrip.py summaries of pick_part / remove_part']
