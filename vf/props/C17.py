"""C17 -- the cron iterator yields every matching minute after now, in order, only those (decision structure + step semantics)."""
from .. import domain as D
from ..numeric import Numeric, NPD, DATETIME
from ..models import deref, some, none, const_int

LEVEL = 'other'
EXPLANATION = ('next() is analysed once with every DateTime operation summarised by a recording stand-in (so the candidate is an arbitrary instant) and the '
               'HashSet tests as free booleans; the loop is cut after its first iteration, which is generic in the candidate. Decided: (S) the search '
               'starts at max(last returned, now cleared to the minute) + 1 minute: the previous result is taken exactly when it compares >= now; (G) '
               'the candidate is accepted exactly when months contains its month, hours its hour, minutes its minute and the day test passes, where '
               'the day test is the documented one: day-of-month OR weekday when both sets are restricted (size != 31 / != 7), the restricted one '
               'otherwise (truth table over the 16 cases); each getter is applied to the candidate and paired with its own set; (A) every rejection '
               'advances the candidate, and the advance paired with a test on unit U is semantically "the first instant of the next U": evaluated on '
               'the real method bodies for a symbolic minute-aligned instant -- + 60 s for a minute miss, the next multiple of 3600 s for an hour miss, '
               'the next midnight for a day miss (exact affine / div-mod identities, so a redundant clear may be dropped without a report); for a month '
               'miss the chain must be add_months(1) then clear_until_day (their meaning is C05 / C09). Because all instants skipped by such an advance '
               'share the rejected unit value, no matching minute is skipped; (R) the accepted candidate is stored as last_schedule and returned, '
               'unchanged. Not decided: the calendar kernels behind the getters (C01/C02/C10), termination for unsatisfiable schedules, the clock.')
META = {
    'technique': 'static analysis: MIR abstract interpretation of next() over recording summaries (decision table of one loop iteration from the path conditions), '
                 'affine/div-mod evaluation of each advance chain on the real method bodies',
    'note': 'trusted: rustc MIR, vf/models.py; DateTime getters / add_months / clear_until_day summarised (C01, C02, C05, C09, C10); lemma: advancing to the start of the next U after a miss on U skips no match',
}

NEXT = '<cron::CronSchedule as std::iter::Iterator>::next'
SCHED = 'cron::CronSchedule'
TU = '<datetime::DateTime as shared::TimeUtilities>::'
DU = '<datetime::DateTime as shared::DateUtilities>::'
OPS = {TU + 'clear_until_second': 'clear_until_second', TU + 'clear_until_minute': 'clear_until_minute', TU + 'clear_until_hour': 'clear_until_hour',
       DU + 'clear_until_day': 'clear_until_day', TU + 'add_minutes': 'add_minutes', TU + 'add_hours': 'add_hours', DU + 'add_days': 'add_days',
       DU + 'add_months': 'add_months'}
GETTERS = {DU + 'month': 'month', DU + 'day': 'day', DU + 'weekday': 'weekday', TU + 'hour': 'hour', TU + 'minute': 'minute'}
PAIR = {'month': 'months', 'day': 'days_of_month', 'weekday': 'days_of_week', 'hour': 'hours', 'minute': 'minutes'}
ADV_UNIT = {'month': 'month', 'day': 'day', 'weekday': 'day', 'hour': 'hour', 'minute': 'minute'}
RANGE = {'month': (1, 12), 'day': (1, 31), 'weekday': (0, 6), 'hour': (0, 23), 'minute': (0, 59)}


def K(v):
    """hashable identity of an abstract DateTime value (its fresh field symbols)"""
    if v is None:
        return None
    if v[0] == 's' and len(v[2]) >= 2 and v[2][0][0] == 'i' and v[2][1][0] == 'i':
        return (v[2][0][1], v[2][1][1])
    return ('?', id(v))


class Decision:
    def __init__(self, ctx, facts):
        self.N = Numeric(ctx, 'default', max_disj=4000, max_steps=2_000_000)
        self.I = I = self.N.I
        self.prov = {}       # id-less provenance: value tuple -> (op, parent value, extra arg)
        self.getter_of = {}  # vid -> (getter name, self value)
        self.set_name = {}   # object id -> field name
        self.ended = []      # states cut at the second iteration
        self.cmp = []
        self.now = []
        names = [f['name'] for f in facts.adts[SCHED]['variants'][0]['fields']]
        self.names = names

        def op(name):
            def c(I_, st, args, dty, site):
                me = deref(I_, st, args[0]) if args[0][0] == 'r' else args[0]
                s2 = st.clone()
                r = I_.top(s2, dty, name)
                extra = None
                if len(args) > 1 and args[1][0] == 'i':
                    extra = D.get_iv(st, args[1][1])
                self.prov[K(r)] = (name, K(me), extra)
                return [(s2, r)]
            return c
        for full, nm in OPS.items():
            I.contracts[full] = op(nm)

        def getter(name):
            def c(I_, st, args, dty, site):
                me = deref(I_, st, args[0]) if args[0][0] == 'r' else args[0]
                if self.advanced(K(me)):
                    self.ended.append((st, K(me)))
                    return []               # second iteration: cut (the first one is generic in the candidate)
                s2 = st.clone()
                lo, hi = RANGE[name]
                v = I_.top(s2, dty, name, lo=lo, hi=hi)
                self.getter_of[v[1]] = (name, K(me))
                return [(s2, v)]
            return c
        for full, nm in GETTERS.items():
            I.contracts[full] = getter(nm)

        def now(I_, st, args, dty, site):
            s2 = st.clone()
            r = I_.top(s2, dty, 'now')
            self.prov[K(r)] = ('now', None, None)
            self.now.append(K(r))
            return [(s2, r)]
        I.contracts['datetime::DateTime::now'] = now

        def ge(I_, st, args, dty, site):
            a = deref(I_, st, args[0])
            b = deref(I_, st, args[1])
            outs = []
            for val in (0, 1):
                s = st.clone()
                s.trace = s.trace + (('ge', K(a), K(b), val),)
                outs.append((s, const_int(val, 'bool')))
            return outs
        # `last >= now` and `last > now` choose the same start (equal instants are interchangeable)
        for nm in ('std::cmp::PartialOrd::ge', 'std::cmp::PartialOrd::gt'):
            I.contracts[nm] = ge
            I.models[nm] = ge

        def contains(I_, st, args, dty, site):
            h = deref(I_, st, args[0])
            v = deref(I_, st, args[1])
            fname = self.set_name.get(h[1]) if h is not None and h[0] == 'obj' else None
            outs = []
            for val in (0, 1):
                s = st.clone()
                s.trace = s.trace + (('contains', fname, v[1] if v is not None and v[0] == 'i' else None, val),)
                outs.append((s, const_int(val, 'bool')))
            return outs
        I.models['std::collections::HashSet::<T, S, A>::contains'] = contains
        I.return_partition[NEXT] = lambda I_, st, v: id(st)
        I.unroll_for[NEXT] = 3

    def advanced(self, v):
        p = self.prov.get(v)
        while p is not None:
            if p[0].startswith('add_') and p[1] is not None and self.prov.get(p[1], ('',))[0] not in ('now', 'clear_until_second') and self.is_candidate_chain(p[1]):
                return True
            v = p[1]
            p = self.prov.get(v) if v is not None else None
        return False

    def is_candidate_chain(self, v):
        """is v the first candidate (add_minutes(base, 1)) or derived from it?"""
        p = self.prov.get(v)
        while p is not None:
            if p[0] == 'add_minutes' and self.is_base(p[1]):
                return True
            v = p[1]
            p = self.prov.get(v) if v is not None else None
        return False

    def is_base(self, v):
        p = self.prov.get(v)
        if p is not None and p[0] == 'clear_until_second' and self.prov.get(p[1], ('',))[0] == 'now':
            return True
        return v == self.last_payload

    def chain(self, v, stop):
        """operations applied to `stop` to obtain v: [(op, extra)...] oldest first"""
        out = []
        while v != stop:
            p = self.prov.get(v)
            if p is None:
                return None
            out.append((p[0], p[2]))
            v = p[1]
        return list(reversed(out))

    def run(self):
        I = self.I
        holder = {}

        def mk_self(I_, st, ty):
            t = ty['to'] if ty.get('k') == 'ref' else ty
            v = I_.top(st, t, 'schedule')
            from ..entries import apply_invariants
            apply_invariants(I_, st, v)
            for i, n in enumerate(self.names):
                f = v[2][i]
                if f[0] == 'obj':
                    self.set_name[f[1]] = n
                    o = st.objs.get(f[1])
                    holder[n] = o[1]
            ls = v[2][self.names.index('last_schedule')]
            self.last_payload = K(ls[2][1][0]) if ls[0] == 'e' and 1 in ls[2] else None
            holder['self'] = v
            cell = I_.alloc(st, v)
            holder['cell'] = cell
            return ('r', cell)
        self.N.run(NEXT, overrides={'self': mk_self}, variants=('fixed',))
        self.holder = holder
        return self.N.results.get(NEXT, [])


def semantic_chains(ctx, facts, chains, span):
    """(A): each advance chain, evaluated on the real bodies for a minute-aligned instant, is 'first instant of the next unit'"""
    ok_all = True
    for unit, chain in sorted(chains):
        if unit == 'month':
            good = [c[0] for c in chain] == ['add_months', 'clear_until_day'] and chain[0][1] == (1, 1)
            ctx.rule('C17-A a month miss advances by add_months(1).clear_until_day()', 1, 1 if good else 0, sample={'chain': chain})
            if not good:
                ok_all = False
                ctx.finding('C17:ADVANCE|month', 'C17-A advance', span, f'after a month that is not in the schedule the candidate must become the first instant of the next month '
                            f'(add_months(1).clear_until_day()); the code applies {chain}')
            continue
        classes = {'minute': [('A', 0, 1438, 0), ('B', 0, 0, 1439)], 'hour': [('A', 0, 1379, 0), ('B', 0, 59, 1380)], 'day': [('A', 0, 1439, 0)]}[unit]
        good, why = True, ''
        for cname, jlo, jhi, base in classes:
            N = Numeric(ctx, 'default', max_disj=300, max_steps=300_000)
            I = N.I
            from ..entries import install_splitter_contract, OFFSET
            install_splitter_contract(I)
            from ..absint import St
            st = St()
            st.frames[0] = {}
            U64 = {'k': 'int', 's': False, 'bits': 64, 'name': 'u64'}
            days = I.top(st, {'k': 'int', 's': True, 'bits': 32, 'name': 'i32'}, 'days', lo=-2_000_000_000, hi=2_000_000_000)
            j = I.top(st, U64, 'minute_of_day', lo=jlo, hi=jhi) if jlo != jhi else const_int(jlo, 'u64')
            nanos = I.binop(st, 'Mul', j, const_int(60 * 10**9, 'u64'), U64, None, None)
            if base:
                nanos = I.binop(st, 'Add', nanos, const_int(base * 60 * 10**9, 'u64'), U64, None, None)
            cur_states = [(st, ('s', DATETIME, (days, nanos, ('e', OFFSET, {0: (const_int(0, 'i32'),)})), None))]
            I.cur_entry = 'C17 chain'
            I.stack = []
            failed = None
            for opn, extra in chain:
                full = [f for f, n in OPS.items() if n == opn][0]
                nxt = []
                for s_, v in cur_states:
                    cell = I.alloc(s_, v)
                    args = [('r', cell)]
                    if opn.startswith('add_'):
                        if extra is None or extra[0] != extra[1]:
                            failed = f'{opn} with a non-constant amount'
                            break
                        args.append(const_int(int(extra[0]), 'u32'))
                    nxt.extend(I.call_body(s_, full, args, ('entry', full)))
                cur_states = nxt
                if failed:
                    break
            if failed or not cur_states:
                good, why = False, failed or 'no result'
                continue
            for s_, v in cur_states:
                if v[0] != 's' or v[2][0][0] != 'i' or v[2][1][0] != 'i':
                    good, why = False, 'result not tracked'
                    continue
                dres, nres = D.aff_of(v[2][0][1]), D.aff_of(v[2][1][1])
                if unit == 'minute' and cname == 'A':
                    wd, wn = D.aff_of(days[1]), D.aff_add(D.aff_of(nanos[1]), D.aff_const(60 * 10**9))
                elif unit == 'hour' and cname == 'A':
                    q, _r = D.divmod_vids(s_, j[1], 60)
                    wd, wn = D.aff_of(days[1]), D.aff_add(D.aff_scale(D.aff_of(q), 3600 * 10**9), D.aff_const(3600 * 10**9))
                else:
                    wd, wn = D.aff_add(D.aff_of(days[1]), D.aff_const(1)), D.aff_const(0)
                if not (D.aff_equiv(dres, wd, st=s_) and D.aff_equiv(nres, wn, st=s_)):
                    good, why = False, f'case {cname}: the new candidate is (day {dres}, nanoseconds {nres}), expected (day {wd}, nanoseconds {wn})'
                off = v[2][2]
                if not (off[0] == 'e' and set(off[2]) == {0}):
                    good, why = False, 'the offset is not kept'
        ctx.rule('C17-A a miss on unit U advances to the first instant of the next U', 1, 1 if good else 0, sample={'unit': unit, 'chain': chain})
        if not good:
            ok_all = False
            ctx.finding(f'C17:ADVANCE|{unit}', 'C17-A advance', span, f'after a {unit} that is not in the schedule the candidate must become the first instant of the next {unit}; '
                        f'the chain {chain} gives something else ({why})')
    return ok_all


def check(ctx):
    N0 = Numeric(ctx)
    facts = N0.facts
    if not ctx.anchor(facts.bodies, NEXT, 'C17 next'):
        return
    span = facts.bodies[NEXT]['span']
    Dn = Decision(ctx, facts)
    results = Dn.run()
    I = Dn.I
    h = Dn.holder
    len_dom, len_dow = h.get('days_of_month'), h.get('days_of_week')
    # ---------- accepted paths (break): all tests passed; (R) stored and returned
    acc = []
    for args, st0, outs in results:
        for st, rv in outs:
            acc.append((st, rv))
    rej = Dn.ended
    problems = []

    def trace_events(st):
        return [e for e in st.trace if isinstance(e, tuple) and e and e[0] in ('contains', 'ge')]

    def first_candidate(st, cand):
        """(S): cand == add_minutes(base, 1) with base per the `ge` outcome"""
        p = Dn.prov.get(cand)
        if p is None or p[0] != 'add_minutes' or p[2] != (1, 1):
            return 'the first candidate is not (base).add_minutes(1)'
        base = p[1]
        ges = [e for e in st.trace if isinstance(e, tuple) and e and e[0] == 'ge']
        nowc = [v for v, pp in Dn.prov.items() if pp[0] == 'clear_until_second' and Dn.prov.get(pp[1], ('',))[0] == 'now']
        if not nowc:
            return 'now() is not cleared to the minute'
        if Dn.last_payload is not None and base == Dn.last_payload:
            if not ges or ges[-1][3] != 1 or ges[-1][1] != Dn.last_payload or ges[-1][2] not in nowc:
                return 'the previous result is used as the start although it was not compared >= the current minute'
            return None
        if base in nowc:
            if ges and ges[-1][3] == 1 and ges[-1][1] == Dn.last_payload:
                return 'the current minute is used as the start although the previous result is later'
            return None
        return 'the start is neither the previous result nor now() cleared to the minute'

    def analyse(st, cand, accepted):
        """events of the first iteration on candidate `cand`"""
        ev = [e for e in st.trace if isinstance(e, tuple) and e and e[0] == 'contains']
        out = {}
        for _c, fname, vid, val in ev:
            g = Dn.getter_of.get(vid)
            if g is None:
                problems.append(f'a value tested against `{fname}` is not a getter of the candidate')
                continue
            gname, me = g
            if me != cand:
                problems.append(f'{gname}() is not read from the current candidate')
            if PAIR[gname] != fname:
                problems.append(f'{gname}() is tested against the set `{fname}` (expected `{PAIR[gname]}`)')
            out[gname] = val
        return out

    # find the candidate of each path: accepted -> returned value; rejected -> parent of the advance chain
    table = {}       # (dom_restricted, dow_restricted, month, dom, dow, hour, minute) partial -> action
    chains = set()
    naccept = 0
    for st, rv in acc:
        if rv[0] != 'e' or 1 not in rv[2]:
            problems.append('next() can return None')
            continue
        cand = K(rv[2][1][0])
        msg = first_candidate(st, cand)
        if msg:
            problems.append(msg)
        tests = analyse(st, cand, True)
        naccept += 1
        # stored as last_schedule
        cur = I.read_resolved(st, ('L',) + h['cell'])
        ls = cur[2][Dn.names.index('last_schedule')] if cur is not None else None
        if ls is None or ls[0] != 'e' or set(ls[2]) != {1} or K(ls[2][1][0]) != cand:
            problems.append('the returned time is not stored as last_schedule')
        table.setdefault('accept', []).append((st, tests))
    for st, me in rej:
        # `me` is the advanced value on which the next iteration wanted to call a getter
        chain = None
        cand = None
        v = me
        ops = []
        while True:
            p = Dn.prov.get(v)
            if p is None:
                break
            ops.append((p[0], p[2]))
            v = p[1]
            if Dn.prov.get(v) is not None and Dn.prov[v][0] == 'add_minutes' and Dn.is_base(Dn.prov[v][1]) and len(ops) >= 1 and ops[-1][0].startswith('add_'):
                cand = v
                break
        if cand is None:
            problems.append('an advance is not applied to the current candidate')
            continue
        chain = tuple(reversed(ops))
        tests = analyse(st, cand, False)
        table.setdefault('reject', []).append((st, tests, chain))
    # ---------- decision table
    def restricted(st):
        dl = D.get_iv(st, len_dom) if len_dom is not None else None
        wl = D.get_iv(st, len_dow) if len_dow is not None else None
        z31, z7 = D.const_vid(31), D.const_vid(7)
        dr = None if dl is None else (False if dl == (31, 31) else True if '=' not in D.rel_get(st, len_dom, z31) else None)
        wr = None if wl is None else (False if wl == (7, 7) else True if '=' not in D.rel_get(st, len_dow, z7) else None)
        return dr, wr

    def day_ok(dr, wr, dom, dow):
        if dr and wr:
            return dom or dow
        if dr:
            return dom
        if wr:
            return dow
        return True
    for st, tests in table.get('accept', []):
        dr, wr = restricted(st)
        for g in ('month', 'hour', 'minute'):
            if tests.get(g) != 1:
                problems.append(f'a candidate is accepted without its {g} being in the schedule')
        poss = [day_ok(a, b, c, d) for a in ([dr] if dr is not None else [False, True]) for b in ([wr] if wr is not None else [False, True])
                for c in ([tests['day']] if 'day' in tests else [0, 1]) for d in ([tests['weekday']] if 'weekday' in tests else [0, 1])]
        if not all(poss):
            problems.append(f'a candidate is accepted on a path where the day test can fail (dom restricted {dr}, dow restricted {wr}, tests {tests})')
    for st, tests, chain in table.get('reject', []):
        dr, wr = restricted(st)
        # which unit was missed: the first failing test in the order the code evaluates them decides the advance
        missed = [g for g in ('month', 'day', 'weekday', 'hour', 'minute') if tests.get(g) == 0]
        adv = chain[-1][0] if chain else None
        unit_of_chain = {'add_months': 'month', 'add_days': 'day', 'add_hours': 'hour', 'add_minutes': 'minute'}.get(next((c[0] for c in chain if c[0].startswith('add_')), None))
        if unit_of_chain is None:
            problems.append(f'a rejection does not advance the candidate ({chain})')
            continue
        chains.add((unit_of_chain, chain))
        if unit_of_chain == 'day':
            poss = [day_ok(a, b, c, d) for a in ([dr] if dr is not None else [False, True]) for b in ([wr] if wr is not None else [False, True])
                    for c in ([tests['day']] if 'day' in tests else [0, 1]) for d in ([tests['weekday']] if 'weekday' in tests else [0, 1])]
            if any(poss):
                problems.append(f'the day is skipped on a path where the day test can pass (dom restricted {dr}, dow restricted {wr}, tests {tests})')
            if tests.get('month') != 1:
                problems.append('the day is advanced although the month was not found in the schedule first')
        else:
            if tests.get(unit_of_chain) != 0:
                problems.append(f'the candidate is advanced by a {unit_of_chain} although its {unit_of_chain} was not rejected ({tests})')
    units = {u for u, _c in chains}
    if units != {'month', 'day', 'hour', 'minute'}:
        problems.append(f'expected advances for month, day, hour and minute misses, found {sorted(units)}')
    if naccept == 0:
        problems.append('no accepting path')
    uniq = list(dict.fromkeys(problems))
    ctx.rule('C17-S/G/R start, acceptance test, pairing of getters and sets, result stored and returned', max(len(acc) + len(rej), 1),
             max(len(acc) + len(rej), 1) - min(len(uniq), len(acc) + len(rej)), floor=3, sample={'accepting paths': len(acc), 'rejecting paths': len(rej)})
    for i, m in enumerate(uniq[:6]):
        ctx.finding(f'C17:DECISION|{i}', 'C17 decision structure', span, f'CronSchedule::next: {m}')
    semantic_chains(ctx, facts, chains, span)
    ctx.cov['entries'] += [NEXT]
    ctx.cov['trusted_base'] += ['rustc MIR of the dev profile', 'vf/models.py']
