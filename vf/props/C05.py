"""C05 -- month and year arithmetic keeps the day of month, clamped, across every year (DESIGN section 4, C05)."""
from .. import domain as D
from ..numeric import Numeric, NPD, DATETIME, DATE
from ..models import deref
from .C04 import struct_of
from ..entries import install_valid_date_contract

LEVEL = 'proof'
EXPLANATION = ('For every date and every u32 count at once: at the one place where add_/sub_months/years turn a calendar triple back '
               'into a day number (the call of date_to_days) the arguments (ty, tm, td) provably satisfy 1 <= tm <= 12 and '
               '12*c(ty) + tm - 1 == 12*c(y) + m - 1 +/- N (months) resp. c(ty) == c(y) +/- N, tm == m (years), where c is the continuous '
               'year number (year -1 directly before year 1) and (y, m, d) is what days_to_date returned -- by uniqueness of Euclidean division '
               'this is the month N calendar months away; td is d itself or, on a path where d exceeds it, the length of the target month as '
               'given by the crate\'s month table; the result is the day number date_to_days returned; time of day and offset are copied; no '
               'overflow or lossy cast is reachable and the only panic is fed by the range error of validate_date / the year conversion.')
META = {
    'technique': 'static analysis: MIR abstract interpretation; exact affine identity of the continuous month number at the date_to_days call site (div/mod linearisation incl. Euclidean division), path conditions decide the clamp',
    'note': 'trusted: rustc MIR, vf/models.py; days_to_date / date_to_days as the calendar kernels (their agreement is C01), year_month_to_doy as the month-length table',
}

D2D = 'util::date::convert::days_to_date'
DTD = 'util::date::convert::date_to_days'
YMD = 'util::date::convert::year_month_to_doy'
RANGE_CAUSES = ('util::date::validate::validate_date', 'util::date::manipulate::continuous_to_year')


def cont(st, yv):
    """affine form of the continuous year number of a year value whose sign is decided in st"""
    lo, hi = D.get_iv(st, yv)
    if lo > 0:
        return D.aff_of(yv)
    if hi < 0:
        return D.aff_add(D.aff_of(yv), D.aff_const(1))
    return None


def check_entry(ctx, N, fn, kind, sign, path):
    I = N.I
    rec = {'d2d': [], 'calls': [], 'rets': []}

    def ret_hook(I_, f, depth, results):
        if f == D2D:
            for st, rv in results:
                if rv[0] == 't' and all(x[0] == 'i' for x in rv[1]):
                    rec['d2d'].append(tuple(x[1] for x in rv[1]))
        elif f == DTD:
            for st, rv in results:
                if rv[0] == 'e' and 0 in rv[2] and rv[2][0][0][0] == 'i':
                    rec['rets'].append(rv[2][0][0][1])

    def obs(I_, st, args, site):
        rec['calls'].append((st.clone(), tuple(a[1] if a[0] == 'i' else None for a in args), site['fn']))
    I.return_hooks.append(ret_hook)
    I.observers[DTD] = obs
    try:
        N.run(fn, variants=('fixed',))
    finally:
        I.return_hooks.remove(ret_hook)
        del I.observers[DTD]
    n = ok = 0
    for args, st0, outs in N.results.get(fn, []):
        recv = struct_of(I, st0, args[0], path)
        Nv = args[1][1]
        days_in = recv[2][0][1]
        # ---- the date_to_days call sites
        for st, (ty, tm, td), caller in rec['calls']:
            n += 1
            src = [t for t in rec['d2d'] if t[0] in st.iv]
            why = None
            if len(src) != 1 or None in (ty, tm, td):
                why = f'cannot identify the decomposed source date on this path ({len(src)} candidates)'
            else:
                y, m, d = src[0]
                cy, cty = cont(st, y), cont(st, ty)
                tml, tmh = D.get_iv(st, tm)
                if cy is None or cty is None:
                    why = 'sign of the source/target year is not decided on this path'
                elif not (1 <= tml and tmh <= 12):
                    why = f'target month in [{tml}, {tmh}]'
                else:
                    if kind == 'months':
                        lhs = D.aff_add(D.aff_add(D.aff_scale(cty, 12), D.aff_of(tm)), D.aff_const(1), -1)
                        rhs = D.aff_add(D.aff_add(D.aff_add(D.aff_scale(cy, 12), D.aff_of(m)), D.aff_const(1), -1), D.aff_of(Nv), sign)
                        if not D.aff_equiv(lhs, rhs, 0, st=st):
                            why = f'12*c(ty)+tm-1 = {lhs} is not 12*c(y)+m-1{"+" if sign > 0 else "-"}N = {rhs}'
                    else:
                        if not (D.aff_equiv(cty, D.aff_add(cy, D.aff_of(Nv), sign), 0, st=st) and tm == m):
                            why = f'c(ty) = {cty} is not c(y){"+" if sign > 0 else "-"}N, or the month is not copied'
                if why is None:
                    # day of month: d itself, or the month length on a path where d exceeds it
                    if td == d:
                        pass
                    else:
                        tl, th = D.get_iv(st, td)
                        dl, dh = D.get_iv(st, d)
                        if tl != th or not dl > tl:
                            why = f'target day in [{tl},{th}] is neither the source day nor a month length below it (source day in [{dl},{dh}])'
                        else:
                            # the constant must be the length of the target month according to the crate's table
                            s2 = st.clone()
                            lens = set()
                            for s3, rv in I.call_body(s2, YMD, [('i', ty, 'i32'), ('i', tm, 'u32')], {'fn': fn, 'bb': 0, 'callee': YMD, 'span': None}):
                                if rv[0] == 'e' and 0 in rv[2]:
                                    lens.add(D.get_iv(s3, rv[2][0][0][1][1][1]))
                            if lens != {(tl, tl)}:
                                why = f'target day {tl} is not the length of the target month ({sorted(lens)})'
            if why is None:
                ok += 1
            else:
                ctx.finding(f'C05:TARGET|{fn}', 'AFF continuous month number', I.bodies[fn]['span'], f'{fn}: at the date_to_days call in {caller}: {why}')
        # ---- results
        for st, rv in outs:
            n += 1
            good = rv[0] == 's' and rv[1] == path and rv[2][0][0] == 'i' and rv[2][0][1] in rec['rets'] and rv[2][1:] == recv[2][1:]
            if good:
                ok += 1
            else:
                ctx.finding(f'C05:RESULT|{fn}', 'F4/F6', I.bodies[fn]['span'], f'{fn}: the result is not the day number returned by date_to_days with time of day and offset copied')
    ctx.rule('C05 target month/day and result', n, ok, floor=1, sample={'entry': fn})
    rec['calls'].clear()


def check(ctx):
    N = Numeric(ctx, max_disj=3000)
    I = N.I
    ctx.assumptions.append('K-VALID (year arithmetic only): days_to_date returns a date of the calendar table (day <= month length per year_month_to_doy); this is the subject of C01')
    for kind in ('months', 'years'):
        if kind == 'years':
            # the year shift re-validates the unchanged (month, day): the analysis needs to know that the source date was valid
            install_valid_date_contract(I)
        for ty, path in (('date::Date', DATE), ('datetime::DateTime', DATETIME)):
            for op, sign in (('add', 1), ('sub', -1)):
                fn = f'<{ty} as shared::DateUtilities>::{op}_{kind}'
                check_entry(ctx, N, fn, kind, sign, path)
    for note in ('block disjuncts merged', 'result disjuncts merged'):
        if I.notes.get(note):
            ctx.finding(f'C05:PRECISION|{note}', 'analysis precision', None, f'the analysis had to merge disjuncts ({note} x{I.notes[note]}); identities cannot be checked on merged paths: fails closed')
    N.judge(allowed_causes=RANGE_CAUSES, kinds=('ARITH', 'BOUNDS', 'CAST', 'UNWRAP', 'PANIC', 'STDPRE', 'INV'))
    ctx.cov['trusted_base'] += ['rustc MIR of the dev profile', 'days_to_date/date_to_days/year_month_to_doy as calendar kernels (C01)',
                                'vf/models.py rows: ' + ', '.join(sorted(I.models_used))[:400]]
