"""C13 -- RFC 3339 timestamps are read and written exactly (structural / wiring part)."""
from .. import domain as D
from ..numeric import Numeric
from ..entries import DATETIME, OFFSET, apply_invariants
from .. import textsem as T
from . import C11

LEVEL = 'other'
EXPLANATION = ('Write side: for each Precision variant the literal pattern handed to DateTime::format is read from the MIR of format_rfc3339, split into '
               'runs, and every run is analysed with the C11 machinery for years 1..=9999: the output is exactly 4DIGIT-2DIGIT-2DIGIT T 2DIGIT:2DIGIT:2DIGIT '
               '[. n DIGIT] (Z | +-2DIGIT:2DIGIT) with the right kernel value in every slot, and n equals the documented number of decimal places (the '
               'discriminant of the variant). Read side: parse_rfc3339 is analysed on an unknown string with its kernels replaced by recording '
               'summaries: the numbers handed to date_to_days / time_to_day_seconds are the numbers denoted by the byte ranges 0..4, 5..7, 8..10, 11..13, '
               '14..16, 17..19 of the input; the fraction is the number denoted by at most 9 digits from byte 20, scaled by 10^(9 - digits); the zone is '
               'read from the rest of the string; the value returned is as_offset(Fixed(zone)) of {days, seconds * 10^9 + fraction}; parse_offset gives '
               'Z -> 0 and +-hh:mm -> +-(3600 hh + 60 mm) with hh <= 23 and mm <= 59. Out-of-range fields are rejected because they only reach the '
               'value through the validating kernels (C15). Not decided: the kernels (C01, C08, C10), the splitting of a pattern into runs, that a '
               'string -> number conversion of the standard library denotes the digits (trusted), separators of the input are not compared by the code.')
META = {
    'technique': 'static analysis: symbolic text of format_rfc3339 per Precision variant against the RFC 3339 grammar slots; provenance of every parsed '
                 'field of parse_rfc3339 (byte range of the input -> kernel argument -> returned value) on the MIR abstract interpretation',
    'note': 'trusted: rustc MIR, vf/models.py; assumption A-SPLIT: parse_format_string splits a pattern into maximal runs of one character',
}

FMT = 'datetime::DateTime::format_rfc3339'
PARSE = 'datetime::DateTime::parse_rfc3339'
PARSE_OFFSET = 'util::parse::parse_offset'
PRECISION = 'shared::Precision'
DTD = 'util::date::convert::date_to_days'
TTS = 'util::time::convert::time_to_day_seconds'
AS_OFFSET = '<datetime::DateTime as shared::OffsetUtilities>::as_offset'
NPS = 10**9


def split_runs(p):
    """A-SPLIT: maximal runs of one character (no quotes occur in the RFC 3339 patterns)"""
    out = []
    for ch in p:
        if out and out[-1][0] == ch:
            out[-1] += ch
        else:
            out.append(ch)
    return out


def write_side(ctx, facts):
    adt = facts.adts.get(PRECISION)
    if adt is None or not ctx.anchor(facts.bodies, FMT, 'C13 write side'):
        ctx.finding('C13:ANCHOR|Precision', 'C13 write side', None, 'ANCHOR-MISSING: shared::Precision / format_rfc3339')
        return
    found = []
    for vi, var in enumerate(adt['variants']):
        digits = int(var['discr'])
        N = Numeric(ctx, 'default', max_disj=50, max_steps=100_000)
        pats = []

        def fmt(I_, st, args, dty, site, pats=pats):
            from ..models import strv_of
            sv = strv_of(I_, st, args[1])
            pats.append(sv.lits if sv is not None else None)
            s2 = st.clone()
            return [(s2, I_.top(s2, dty, 'formatted'))]
        N.I.contracts['datetime::DateTime::format'] = fmt

        def prec(I_, st, ty, vi=vi):
            return ('e', PRECISION, {vi: ()})
        N.run(FMT, label=f'{FMT}[{var["name"]}]', overrides={'precision@2': prec}, variants=('fixed',))
        lits = {next(iter(p)) for p in pats if p and len(p) == 1}
        key = f'{var["name"]}'
        if len(lits) != 1 or len(pats) == 0 or any(p is None or len(p) != 1 for p in pats):
            ctx.rule('C13-W1 one literal pattern per precision', 1, 0)
            ctx.finding(f'C13:PATTERN|{key}', 'C13-W1', facts.bodies[FMT]['span'], f'Precision::{key}: the pattern handed to format is not one literal ({pats})')
            continue
        pat = next(iter(lits))
        ctx.rule('C13-W1 one literal pattern per precision', 1, 1, sample={'precision': key, 'pattern': pat})
        found.append((key, digits, pat))
    # (a Numeric instance resets the global value tables: the runs are analysed only after all patterns are known)
    R = C11.Runner(ctx)
    R.K.year_range = (1, 9999)
    for key, digits, pat in found:
        runs = split_runs(pat)
        slots = ['y4', '-', 'M2', '-', 'd2', 'T', 'H2', ':', 'm2', ':', 's2'] + (['.', f'n{digits}'] if digits else []) + ['zone']
        problems = []
        if len(runs) != len(slots):
            problems.append(f'pattern {pat!r} has {len(runs)} runs, the grammar has {len(slots)} parts')
        for run, slot in zip(runs, slots):
            if len(slot) == 1:
                if run != slot:
                    problems.append(f'expected the separator {slot!r}, the pattern has {run!r}')
                continue
            outs = R.run('util::format::format_part', run)
            if not outs:
                problems.append(f'no output path for run {run!r}')
                continue
            for st, pieces, amap in outs:
                try:
                    env = C11.env_of(R, st, amap)
                    if slot == 'zone':
                        if run[0] != 'X':
                            raise C11.Mismatch("the zone must be written with 'X' (Z for UTC)")
                        C11.check_zone('X', len(run), env, st, pieces)
                        if pieces != [('lit', 'Z')] and ['n' if p[0] == 'zp' else p[1] for p in pieces[1:]] != ['n', ':', 'n']:
                            raise C11.Mismatch('the numeric zone must be +-hh:mm')
                        continue
                    letter, width = slot[0], int(slot[1:])
                    if run[0] != letter:
                        raise C11.Mismatch(f'expected a run of {letter!r}')
                    exp = C11.expected(letter, len(run), env, st, pieces)
                    C11.compare(exp, st, pieces)
                    if len(pieces) != 1 or pieces[0][0] != 'zp' or pieces[0][2] != width:
                        raise C11.Mismatch(f'expected exactly {width} digits')
                    lo, hi = D.get_iv(st, pieces[0][1])
                    if lo < 0 or hi >= 10 ** width:
                        raise C11.Mismatch(f'a value in [{lo}, {hi}] does not always fit {width} digits')
                except C11.Mismatch as e:
                    problems.append(f'run {run!r}: {e} (output path {T.render_shape(st, pieces)})')
                    break
        ctx.rule('C13-W2 the pattern of a precision renders the RFC 3339 grammar slot by slot', len(slots), len(slots) - min(len(problems), len(slots)),
                 sample={'precision': key, 'runs': runs})
        for i, pr in enumerate(problems[:3]):
            ctx.finding(f'C13:WRITE|{key}|{i}', 'C13-W2 grammar', facts.bodies[FMT]['span'], f'format_rfc3339(Precision::{key}) with pattern {pat!r}: {pr}')
    R.N.judge(kinds=('ARITH', 'BOUNDS', 'CAST', 'UNWRAP', 'PANIC', 'STDPRE'), allowed_causes=())


# ------------------------------------------------------------------------------------------------------------------
class Reader:
    def __init__(self, ctx):
        self.N = Numeric(ctx, 'default', max_disj=400, max_steps=600_000)
        self.I = self.N.I
        self.rec = {'dtd': [], 'tts': [], 'po': [], 'as': [], 'pow': []}

    def origin(self, st, vid):
        """(base string ident, start, end) of the text a parsed number denotes; start / end are constants or affine forms"""
        I = self.I
        ident = I.parsed_from.get(vid)
        if ident is None:
            return None
        return self.range_of(st, ident)

    def range_of(self, st, ident):
        I = self.I
        chain = []
        cur = ident
        while cur in I.slice_of and len(chain) < 6:
            base, a, e = I.slice_of[cur]
            chain.append((a, e))
            cur = base
        # compose offsets: ranges are relative to their base
        start = D.aff_const(0)
        end = None
        for a, e in reversed(chain):
            end = D.aff_add(start, D.aff_of(e))
            start = D.aff_add(start, D.aff_of(a))
        return cur, start, end


def const_of(st, aff):
    if aff is None:
        return None
    iv = D.eval_aff(st, aff)
    return int(iv[0]) if iv is not None and iv[0] == iv[1] else None


def read_side(ctx, facts):
    if not ctx.anchor(facts.bodies, PARSE, 'C13 read side') or not ctx.anchor(facts.bodies, PARSE_OFFSET, 'C13 read side'):
        return
    from ..models import ok, err, strv_of
    Rd = Reader(ctx)
    N, I, rec = Rd.N, Rd.I, Rd.rec
    I32 = {'k': 'int', 's': True, 'bits': 32, 'name': 'i32'}
    U32 = {'k': 'int', 's': False, 'bits': 32, 'name': 'u32'}

    def k_dtd(I_, st, args, dty, site):
        s1, s2 = st.clone(), st.clone()
        v = I_.top(s1, I32, 'days')
        rec['dtd'].append((st, [a[1] if a[0] == 'i' else None for a in args], v[1]))
        return [(s1, ok(v)), (s2, err(I_.top(s2, dty['args'][1], 'oor')))]

    def k_tts(I_, st, args, dty, site):
        s1, s2 = st.clone(), st.clone()
        v = I_.top(s1, U32, 'day seconds', lo=0, hi=86_399)
        rec['tts'].append((st, [a[1] if a[0] == 'i' else None for a in args], v[1]))
        return [(s1, ok(v)), (s2, err(I_.top(s2, dty['args'][1], 'oor')))]

    def k_po(I_, st, args, dty, site):
        s1, s2 = st.clone(), st.clone()
        v = I_.top(s1, I32, 'zone seconds', lo=-86_399, hi=86_399)
        sv = strv_of(I_, st, args[0])
        rec['po'].append((st, sv.ident if sv is not None else None, v[1]))
        return [(s1, ok(v)), (s2, err(I_.top(s2, dty['args'][1], 'fmt')))]

    def k_as(I_, st, args, dty, site):
        s1 = st.clone()
        me = args[0]
        if me[0] == 'r':
            me = I_.read_resolved(st, ('L',) + me[1])
        r = I_.top(s1, dty, 'as_offset result')
        apply_invariants(I_, s1, r)
        rec['as'].append((st, me, args[1], r))
        return [(s1, r)]
    I.contracts[DTD] = k_dtd
    I.contracts[TTS] = k_tts
    I.contracts[PARSE_OFFSET] = k_po
    I.contracts[AS_OFFSET] = k_as
    base_pow = I.find_model('core::num::<impl u64>::pow')

    def obs_pow(I_, st, args, site):
        rec['pow'].append((st, args[0], args[1]))
    I.observers['core::num::<impl u64>::pow'] = obs_pow
    I.return_partition[PARSE] = lambda I_, st, v: id(st)
    N.run(PARSE, variants=('fixed',))
    res = N.results.get(PARSE, [])
    inp = None
    for args, st0, outs in res:
        sv = strv_of(I, st0, args[0])
        inp = sv.ident if sv is not None else None
    problems = []

    def field(st, vid, a, b, what):
        o = Rd.origin(st, vid) if vid is not None else None
        if o is None:
            problems.append((what, f'{what}: the number is not the value of a byte range of the input'))
            return
        base, s, e = o
        sa, ea = const_of(st, s), const_of(st, e)
        if base != inp or (sa, ea) != (a, b):
            problems.append((what, f'{what}: read from bytes {sa}..{ea} of {"the input" if base == inp else "another string"}, RFC 3339 puts it at {a}..{b}'))
    for st, a, _r in rec['dtd']:
        for vid, (x, y), what in zip(a, ((0, 4), (5, 7), (8, 10)), ('year', 'month', 'day')):
            field(st, vid, x, y, what)
    for st, a, _r in rec['tts']:
        for vid, (x, y), what in zip(a, ((11, 13), (14, 16), (17, 19)), ('hour', 'minute', 'second')):
            field(st, vid, x, y, what)
    n1 = len(rec['dtd']) + len(rec['tts'])
    ctx.rule('C13-R1 date and time fields come from the RFC 3339 byte positions', max(n1, 2), max(n1, 2) - len({p[0] for p in problems}),
             floor=2, sample={'date_to_days calls': len(rec['dtd']), 'time_to_day_seconds calls': len(rec['tts'])})
    if not rec['dtd'] or not rec['tts']:
        problems.append(('kernel', 'parse_rfc3339 does not build the value through date_to_days and time_to_day_seconds'))
    # the returned value: Ok(as_offset({days, secs * 1e9 + fraction, default offset}, Fixed(zone)))
    nret = good_ret = 0
    frac_ok = set()
    zone_kinds = set()
    for args, st0, outs in res:
        for st, rv in outs:
            if rv[0] != 'e' or 0 not in rv[2] or 1 in rv[2]:
                continue
            nret += 1
            val = rv[2][0][0]
            hit = [x for x in rec['as'] if x[3] == val or (x[3][0] == 's' and val[0] == 's' and x[3][2] == val[2])]
            if not hit:
                problems.append(('return', 'an Ok value is not the result of as_offset(Fixed(zone)): the zone is not applied as the offset of the local reading'))
                continue
            _st, me, off, _r = hit[0]
            why = None
            if me is None or me[0] != 's' or me[1] != DATETIME:
                why = 'as_offset is not applied to a DateTime built from the fields'
            else:
                days, nanos, o0 = me[2][0], me[2][1], me[2][2]
                dd = [x for x in rec['dtd'] if x[2] == days[1]]
                if not dd:
                    why = 'the day number is not the result of date_to_days(year, month, day)'
                secs = [x for x in rec['tts'] if True]
                a = D.aff_of(nanos[1]) if nanos[0] == 'i' else None
                tts_hit = None
                for x in rec['tts']:
                    rest = D.aff_add(a, D.aff_scale(D.aff_of(x[2]), NPS), -1) if a is not None else None
                    if rest is not None and x[2] not in rest.co:
                        tts_hit = (x, rest)
                if tts_hit is None:
                    why = why or 'nanoseconds is not time_to_day_seconds(hour, minute, second) * 10^9 + fraction'
                else:
                    x, rest = tts_hit
                    iv = D.eval_aff(st, rest)
                    if iv is None or iv[0] < 0 or iv[1] > NPS - 1:
                        why = why or f'the fraction part of nanoseconds is in {iv}, not below one second'
                    elif iv != (0, 0):
                        # the fraction: P * 10^(9 - len) with P the number denoted by bytes 20..20+len, len <= 9
                        fr = check_fraction(Rd, st, rest, inp, rec)
                        if fr:
                            why = why or fr
                        else:
                            frac_ok.add('with')
                    else:
                        frac_ok.add('without')
                if o0[0] != 'e' or set(o0[2]) != {0} or D.get_iv(st, o0[2][0][0][1]) != (0, 0):
                    why = why or 'the local reading is not built with the default (UTC) offset before as_offset'
                if off[0] != 'e' or set(off[2]) != {0} or off[2][0][0][0] != 'i' or not any(off[2][0][0][1] == p[2] for p in rec['po']):
                    why = why or 'the offset handed to as_offset is not Fixed(parse_offset(rest of the string))'
                else:
                    po = [p for p in rec['po'] if p[2] == off[2][0][0][1]][0]
                    base, s, e = Rd.range_of(po[0], po[1]) if po[1] is not None else (None, None, None)
                    if base != inp:
                        why = why or 'the zone is not read from the input string'
                    else:
                        zr = zone_start(Rd, st, po, s, e, inp)
                        zone_kinds.add(zr[0])
                        if zr[1]:
                            why = why or zr[1]
            if why:
                problems.append(('return', why))
            else:
                good_ret += 1
    ctx.rule('C13-R2 an Ok result is as_offset(Fixed(zone)) of {date_to_days(..), time_to_day_seconds(..) * 1e9 + fraction}', max(nret, 1), good_ret, floor=1,
             sample={'ok paths': nret, 'fraction forms seen': sorted(frac_ok)})
    fl = rec.get('frac_lengths')
    if fl is not None and fl != set(range(1, 10)):
        problems.append(('fraction', f'fractions of {sorted(x for x in fl if x is not None)} digits are converted; every length 1..=9 must be (longer ones reduced to 9)'))
    ctx.rule('C13-R3 the zone is the rest of the input after the seconds (byte 19) or after the whole run of fraction digits', 2, len(zone_kinds & {'after seconds', 'after the digit run'}),
             floor=2, sample={'forms': sorted(zone_kinds)})
    if not {'after seconds', 'after the digit run'} <= zone_kinds:
        problems.append(('zone', f'expected the zone to be read after the seconds and after the fraction digits, seen: {sorted(zone_kinds)}'))
    if frac_ok != {'with', 'without'}:
        problems.append(('fraction', f'expected Ok paths with and without a fraction, seen: {sorted(frac_ok)}'))
    seen = set()
    for k, msg in problems:
        if (k, msg) in seen:
            continue
        seen.add((k, msg))
        ctx.finding(f'C13:READ|{k}|{len(seen)}', 'C13 read side', facts.bodies[PARSE]['span'], f'parse_rfc3339: {msg}')
    N.judge(kinds=('ARITH', 'BOUNDS', 'CAST', 'UNWRAP', 'PANIC', 'STDPRE'), allowed_causes=())
    return Rd


def digit_test_closure(I, clo):
    """the closure does nothing but return char::is_ascii_digit of its argument"""
    if isinstance(clo, str) and clo.endswith('is_ascii_digit') and clo not in I.bodies:
        return True          # take_while(char::is_ascii_digit): the std function itself
    b = I.bodies.get(clo)
    if b is None:
        return False
    calls = [blk['term']['func'].get('id') for blk in b['blocks'] if blk['term']['t'] == 'call']
    branches = [blk for blk in b['blocks'] if blk['term']['t'] == 'switch']
    return len(calls) == 1 and calls[0] is not None and calls[0].endswith('is_ascii_digit') and not branches


def zone_start(Rd, st, po, s, e, inp):
    """where the text handed to parse_offset starts: byte 19 (no fraction) or 20 + (length of the whole run of ASCII digits from byte 20),
    and it extends to the end of the input -- 'any number of fraction digits' are skipped, not only those that are converted"""
    I = Rd.I
    pst, ident = po[0], po[1]
    if not I.slice_end_is_len.get(ident, False):
        return ('?', 'the zone text does not extend to the end of the input')
    c = const_of(pst, s)
    if c == 19:
        return ('after seconds', None)
    for C, pc in getattr(I, 'prefix_count', {}).items():
        if pc[2] != 'take_while' or not digit_test_closure(I, pc[1]):
            continue
        b2, s2, e2 = Rd.range_of(pst, pc[0])
        if not (b2 == inp and const_of(pst, s2) == 20 and I.slice_end_is_len.get(pc[0], False)):
            continue
        diff = D.aff_add(D.aff_add(s, D.aff_const(20), -1), D.aff_of(C), -1)
        iv = D.eval_aff(pst, diff)
        if (not diff.co and diff.c0 == 0) or (iv is not None and iv == (0, 0)):
            return ('after the digit run', None)
    where = c if c is not None else str(s)
    return ('?', f'with a fraction the zone is read from byte {where} on one path; RFC 3339 puts it after the whole run of fraction digits '
                 f'(20 + the number of leading ASCII digits of the text from byte 20), however many of them are converted')


def check_fraction(Rd, st, rest, inp, rec):
    """rest == P * 10^(9 - L): P parsed from bytes 20..20+L of the input, L = min(number of digits, 9)"""
    I = Rd.I
    cands = [v for v in rest.co]
    if len(cands) != 1 or rest.c0 != 0:
        return f'the fraction is not one number times a power of ten (affine form {rest.co} + {rest.c0})'
    P, coef = cands[0], rest.co[cands[0]]
    if P in I.parsed_from:
        # the analysis has split the paths by the number of digits: the scale is a constant on each path
        base, s, e = Rd.origin(st, P)
        if base != inp or const_of(st, s) != 20:
            return f'the fraction digits are read from byte {const_of(st, s)}, RFC 3339 puts them at 20'
        L = const_of(st, D.aff_add(e, s, -1))
        rec.setdefault('frac_lengths', set()).add(L)
        if L is None or not (0 <= L <= 9):
            return f'{L} fraction digits are converted on one path, at most 9 (nanoseconds) are significant'
        if coef != 10 ** (9 - L):
            return f'{L} fraction digits are scaled by {coef}, nanoseconds need 10^{9 - L}'
        return None
    if coef != 1:
        return f'the fraction is not digits * power of ten (coefficient {coef})'
    t = D.TERM.get(P)
    if t is None or t[0] != 'Mul':
        return 'the fraction is not digits * power of ten'
    a, b = t[1], t[2]
    Pn = a if a in I.parsed_from else b if b in I.parsed_from else None
    if Pn is None:
        return 'the fraction digits are not parsed from the input'
    base, s, e = Rd.origin(st, Pn)
    if base != inp or const_of(st, s) != 20:
        return f'the fraction digits are read from byte {const_of(st, s)}, RFC 3339 puts them at 20'
    ln = D.aff_add(e, s, -1)
    liv = D.eval_aff(st, ln)
    if liv is None or liv[0] < 0 or liv[1] > 9:
        return f'between {liv} fraction digits are converted, at most 9 (nanoseconds) are significant'
    pw = [x for x in rec['pow'] if x[1][0] == 'i' and D.get_iv(x[0], x[1][1]) == (10, 10) and x[2][0] == 'i']
    for pst, base_, ex in pw:
        want = D.aff_add(D.aff_const(9), ln, -1)
        if D.aff_equiv(D.aff_of(ex[1]), want, st=st):
            return None
    return 'the scale of the fraction is not 10^(9 - number of digits converted)'


def offset_reader(ctx, facts):
    """parse_offset: Z -> 0; otherwise +-(3600 hh + 60 mm), hh from bytes 1..3, mm from bytes 4..6, hh <= 23, mm <= 59"""
    from ..models import strv_of
    N = Numeric(ctx, 'default', max_disj=200, max_steps=200_000)
    I = N.I
    Rd = Reader.__new__(Reader)
    Rd.N, Rd.I, Rd.rec = N, I, {}
    I.return_partition[PARSE_OFFSET] = lambda I_, st, v: id(st)
    N.run(PARSE_OFFSET, variants=('fixed',))
    nok = good = 0
    kinds = set()
    msgs = []
    for args, st0, outs in N.results.get(PARSE_OFFSET, []):
        sv = strv_of(I, st0, args[0])
        inp = sv.ident
        for st, rv in outs:
            if rv[0] != 'e' or 0 not in rv[2] or 1 in rv[2]:
                continue
            nok += 1
            v = rv[2][0][0]
            lo, hi = D.get_iv(st, v[1])
            f = sfirst(I, st, sv)
            if (lo, hi) == (0, 0) and v[1] in D.CONSTVAL:
                kinds.add('Z')
                if f != 'Z':
                    msgs.append("a constant 0 is returned for a string that does not start with 'Z'")
                else:
                    good += 1
                continue
            a = D.aff_of(v[1])
            parsed = [x for x in a.co if x in I.parsed_from]
            # accept +-(3600 h + 60 m) over the two parsed numbers
            hm = {}
            for x in set(I.parsed_from) & set(st.iv):
                o = Rd.origin(st, x)
                if o and o[0] == inp:
                    hm[(const_of(st, o[1]), const_of(st, o[2]))] = x
            h, m = hm.get((1, 3)), hm.get((4, 6))
            if h is None or m is None:
                msgs.append(f'hour and minute are not read from bytes 1..3 and 4..6 (ranges seen: {sorted(k for k in hm)})')
                continue
            sign = 1 if f == '+' else -1
            want = D.aff_scale(D.aff_add(D.aff_scale(D.aff_of(h), 3600), D.aff_scale(D.aff_of(m), 60)), sign)
            kinds.add('+' if sign == 1 else '-')
            if not D.aff_equiv(a, want, st=st):
                msgs.append(f"the value for a string starting with {f!r} is not {'+' if sign == 1 else '-'}(3600 hh + 60 mm)")
                continue
            if D.get_iv(st, h)[1] > 23 or D.get_iv(st, m)[1] > 59:
                msgs.append(f'hh up to {D.get_iv(st, h)[1]} / mm up to {D.get_iv(st, m)[1]} are accepted (RFC 3339: 00-23, 00-59)')
                continue
            ll, lh = D.get_iv(st, sv.len)
            if (ll, lh) != (6, 6):
                msgs.append(f'a numeric zone of length {ll}..{lh} is accepted (+hh:mm has 6 bytes)')
                continue
            good += 1
    ctx.rule('C13-R3 parse_offset: Z -> 0, +-hh:mm -> +-(3600 hh + 60 mm), hh <= 23, mm <= 59', max(nok, 3), good, floor=3, sample={'ok paths': nok, 'forms': sorted(kinds)})
    if kinds != {'Z', '+', '-'}:
        msgs.append(f'expected the forms Z, + and -, seen {sorted(kinds)}')
    for i, m in enumerate(dict.fromkeys(msgs)):
        ctx.finding(f'C13:OFFSET|{i}', 'C13-R3 zone', facts.bodies[PARSE_OFFSET]['span'], f'parse_offset: {m}')
    N.judge(kinds=('ARITH', 'BOUNDS', 'CAST', 'UNWRAP', 'PANIC', 'STDPRE'), allowed_causes=())


def sfirst(I, st, sv):
    from ..models import sfacts
    f = sfacts(st, sv)
    return f.get('first') or sv.first


def check(ctx):
    N0 = Numeric(ctx)
    facts = N0.facts
    write_side(ctx, facts)
    read_side(ctx, facts)
    offset_reader(ctx, facts)
    ctx.cov['entries'] += [FMT, PARSE, PARSE_OFFSET]
    ctx.assumptions.append('A-SPLIT: parse_format_string splits a pattern without quotes into maximal runs of one character')
    ctx.cov['trusted_base'] += ['rustc MIR of the dev profile', 'vf/models.py (str::parse denotes the digits; format! templates)']
