"""C08 -- Time is arithmetic modulo 24 h with one canonical value per time of day (DESIGN section 4, C08)."""
from .. import domain as D
from ..numeric import Numeric, construction_entries, NPD, TIME, OFFSET
from ..models import deref

LEVEL = 'proof'
EXPLANATION = ('Abstract interpretation of the MIR of every function that constructs a Time and of every Time arithmetic '
               'operation, for all inputs at once: (D1) every construction site yields nanoseconds in [0, 86_400e9); '
               '(D2) the stored value is congruent to self.nanoseconds +/- unit*count modulo 86_400e9 (affine form with modulus); '
               '(D3) no intermediate overflows / lossy casts / panics; (D4) the offset is passed through; (D5) the three '
               'constructors accept exactly the documented ranges and their messages agree with their guards. '
               'D1+D2 determine the result uniquely as (t +/- amount) mod 24 h.')

META = {
    'technique': 'static analysis: MIR abstract interpretation (interval x affine-modulo domain), invariant establishment at every construction site, guard/message consistency',
    'note': 'trusted: rustc MIR with overflow checks, std semantics of % / rem_euclid / Duration accessors as modelled in vf/models.py; assumptions A-FIXED, A-LOCAL (offset bound) in the evidence file',
}

UNITS = {'hours': 3_600 * 10**9, 'minutes': 60 * 10**9, 'seconds': 10**9, 'millis': 10**6, 'micros': 10**3, 'nanos': 1}
T = '<time::Time as shared::TimeUtilities>::'


def self_struct(I, st, arg):
    v = deref(I, st, arg)
    return v if v is not None and v[0] == 's' else None


def check_result_time(ctx, N, label, expected_of, offset_of=None, result_of=None):
    """every result disjunct: nanoseconds == expected (mod 24 h) and offset identical to the receiver's"""
    I = N.I
    n_inst = ok_aff = ok_off = 0
    for args, st0, outs in N.results.get(label, []):
        exp = expected_of(I, st0, args)
        want_off = offset_of(I, st0, args) if offset_of else self_struct(I, st0, args[0])[2][1]
        for st, rv in outs:
            res = result_of(I, st, args, rv) if result_of else rv
            n_inst += 1
            if res is None or res[0] != 's' or res[1] != TIME:
                continue
            nv = res[2][0]
            if nv[0] == 'i' and exp is not None and D.aff_equiv(D.aff_of(nv[1]), exp, NPD):
                ok_aff += 1
            else:
                got = D.aff_of(nv[1]) if nv[0] == 'i' else None
                ctx.finding(f'C08:AFFMOD|{label}', 'AFF (t +/- amount) mod 24h', I.bodies[label.split(' [')[0]]['span'] if label.split(' [')[0] in I.bodies else None,
                            f'{label}: stored nanoseconds are not provably congruent to the specified instant modulo 86_400e9: '
                            f'got {got}, expected {exp} (mod {NPD})')
            if res[2][1] == want_off:
                ok_off += 1
            else:
                ctx.finding(f'C08:OFFSET|{label}', 'F6 offset passthrough', None,
                            f'{label}: the result does not carry the receiver\'s offset unchanged (got {I.describe(st, res[2][1])})')
    ctx.rule('C08-D2 affine-mod-24h', n_inst, ok_aff, sample={'entry': label, 'spec': 'nanoseconds == self.nanoseconds +/- amount (mod 86_400e9)'})
    ctx.rule('C08-D4 offset passthrough', n_inst, ok_off)
    if n_inst == 0:
        ctx.finding(f'C08:NORESULT|{label}', 'coverage', None, f'{label}: no result disjunct to check (analysis produced nothing or every path panics)')


def check(ctx):
    N = Numeric(ctx)
    I = N.I
    facts = N.facts
    # ---- D2/D3/D4: unit arithmetic
    for op, sign in (('add', 1), ('sub', -1)):
        for unit, U in UNITS.items():
            fn = f'{T}{op}_{unit}'
            N.run(fn)

            def expected(I, st, args, sign=sign, U=U):
                s = self_struct(I, st, args[0])
                return D.aff_add(D.aff_of(s[2][0][1]), D.aff_scale(D.aff_of(args[1][1]), U), sign)
            check_result_time(ctx, N, fn, expected)
    # ---- operators with Time / Duration
    for tr, sign in (('Add', 1), ('Sub', -1)):
        fn = f'<time::Time as std::ops::{tr}>::{tr.lower()}'
        N.run(fn)

        def exp_tt(I, st, args, sign=sign):
            a, b = self_struct(I, st, args[0]), self_struct(I, st, args[1])
            return D.aff_add(D.aff_of(a[2][0][1]), D.aff_of(b[2][0][1]), sign)
        check_result_time(ctx, N, fn, exp_tt)
        fn = f'<time::Time as std::ops::{tr}<std::time::Duration>>::{tr.lower()}'
        N.run(fn)

        def exp_td(I, st, args, sign=sign):
            a, d = self_struct(I, st, args[0]), args[1]
            dn = D.aff_add(D.aff_scale(D.aff_of(d[2][0][1]), 10**9), D.aff_of(d[2][1][1]))
            return D.aff_add(D.aff_of(a[2][0][1]), dn, sign)
        check_result_time(ctx, N, fn, exp_td)
        # the *Assign forms write through &mut self
        for suffix, exp in (('', exp_tt), ('<std::time::Duration>', exp_td)):
            fn = f'<time::Time as std::ops::{tr}Assign{suffix}>::{tr.lower()}_assign'
            N.run(fn)
            check_result_time(ctx, N, fn, exp, result_of=lambda I, st, args, rv: deref(I, st, args[0]))
    # ---- D5: constructors
    spec = {'time::Time::from_hms': [(0, 23), (0, 59), (0, 59)], 'time::Time::from_seconds': [(0, 86_399)],
            'time::Time::from_nanos': [(0, NPD - 1)]}
    for fn, ranges in spec.items():
        N.run(fn)
        hull = [None] * len(ranges)
        nok = 0
        for args, st0, outs in N.results.get(fn, []):
            for st, rv in outs:
                if rv[0] == 'e' and set(rv[2]) == {0}:
                    nok += 1
                    for i, a in enumerate(args):
                        l, h = D.get_iv(st, a[1])
                        hull[i] = (l, h) if hull[i] is None else (min(hull[i][0], l), max(hull[i][1], h))
        good = nok > 0 and all(h == r for h, r in zip(hull, ranges))
        ctx.rule('C08-D5 accepted set = documented range', 1, 1 if good else 0, sample={'constructor': fn, 'accepted_hull': hull})
        if not good:
            ctx.finding(f'C08:ACCEPT|{fn}', 'F3 accepted set', I.bodies[fn]['span'] if fn in I.bodies else None,
                        f'{fn}: the set of accepted arguments is {hull}, the property states {ranges}')
    # ---- D1: every construction site of Time, assume-guarantee
    sites = construction_entries(facts, TIME)

    def is_api(fn):
        b = facts.bodies.get(fn)
        return b is None or b.get('vis') == 'Public' or fn.startswith('<')
    for fn in sorted(sites):
        if fn not in N.results and is_api(fn):
            N.run(fn)
    # the public functions that reach a private constructing helper (through any chain of private functions)
    from .. import shape
    cg = shape.call_graph(facts)
    callers = {}
    for f_, cs in cg.items():
        for c_ in cs:
            callers.setdefault(c_.split('::{closure')[0], set()).add(f_.split('::{closure')[0])
    for fn in sorted(sites):
        if is_api(fn):
            continue
        seen, work = set(), [fn]
        while work:
            g = work.pop()
            for c_ in callers.get(g, ()):
                if c_ in seen:
                    continue
                seen.add(c_)
                if is_api(c_):
                    if c_ not in N.results and c_ in facts.bodies:
                        N.run(c_)
                else:
                    work.append(c_)
    # a private helper that builds a Time is judged where the public functions call it (its arguments are theirs); only a helper that no
    # analysed function reaches is analysed on its own, with arbitrary arguments
    reached = {o.fn.split('::{closure')[0] for o in I.obl.values() if o.kind == 'INV'}
    for fn in sorted(sites):
        if fn not in N.results and not is_api(fn) and fn not in reached:
            N.run(fn)
    N.check_o2()
    ctx.rule('C08-D1 construction sites analysed', sum(sites.values()), sum(sites.values()), floor=8,
             sample={'functions_constructing_Time': len(sites)})
    # field visibility: nanoseconds must not be writable outside the crate
    adt = facts.adts.get(TIME)
    vis_ok = adt is not None and all('Restricted' in f['vis'] or 'crate' in f['vis'].lower() for f in adt['variants'][0]['fields'])
    ctx.rule('C08-D1 fields crate-private', 1, 1 if vis_ok else 0)
    if not vis_ok:
        ctx.finding('C08:VIS|time::Time', 'F2 boundary', None, 'a field of Time is visible outside the crate: the invariant cannot be maintained')
    N.judge(allowed_causes=('std::time::SystemTime::duration_since',),
            scope=lambda o: True)
    ctx.cov['trusted_base'] += ['rustc MIR of the dev profile (overflow checks on)', 'std semantics of % and rem_euclid',
                                'vf/models.py rows: ' + ', '.join(sorted(I.models_used))[:600]]
