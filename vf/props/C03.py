"""C03 -- Unix timestamps and ordering form a faithful linear time line (DESIGN section 4, C03)."""
from .. import domain as D
from ..absint import ORDERING, OPTION
from ..numeric import Numeric, NPD, DATETIME, DATE, TIME, OFFSET
from ..entries import MIN_I, MAX_I
from ..models import deref
from .C04 import instant, struct_of, check_panic_exact

LEVEL = 'proof'
EXPLANATION = ('For all pairs of values at once: DateTime eq/cmp/partial_cmp return exactly equality/order of the instant '
               '86_400e9*days + nanoseconds (checked in every result disjunct against the ordering facts the path implies), Time and Date '
               'likewise on their single key; none of eq, cmp, timestamp, *_since, duration_between depends on an offset (no path condition '
               'or result value is computed from an offset, Offset::resolve is never consulted); timestamp() == floor((instant - epoch)/1e9) and '
               'from_timestamp(ts) builds the instant 1e9*(ts + epoch) as exact affine identities, so they are mutually inverse; the epoch '
               'constant equals the day number of 1970-01-01 by constant propagation through date_to_days; from_timestamp panics only through the '
               'range error of the splitter and only when the instant is not representable.')
META = {
    'technique': 'static analysis: MIR abstract interpretation (ordering facts, exact affine identities), dependence of results and path conditions on inputs',
    'note': 'trusted: rustc MIR with overflow checks, vf/models.py (integer cmp, try_into); invariant nanoseconds < 86_400e9 (C08/F2) makes the instant injective',
}

DAYS_TO_1970 = 719_162
EPOCH_SECS = DAYS_TO_1970 * 86_400
DTU = '<datetime::DateTime as shared::DateUtilities>::'
DTT = '<datetime::DateTime as shared::TimeUtilities>::'


def vids_with(st, aff):
    return [v for v in D.AFF_INDEX.get(aff.key(), ()) if v in st.iv]


def key_rel(I, st, a, b):
    """possible orderings of the keys of two values of the same crate type, as implied by the state: a set of '<','=','>'"""
    if a[1] == DATETIME:
        best = frozenset('<=>')
        for xa in vids_with(st, instant(a)):
            for xb in vids_with(st, instant(b)):
                best = best & D.rel_get(st, xa, xb)
        rd = D.rel_get(st, a[2][0][1], b[2][0][1])
        rn = D.rel_get(st, a[2][1][1], b[2][1][1])
        lex = set()
        if '<' in rd or ('=' in rd and '<' in rn):
            lex.add('<')
        if '>' in rd or ('=' in rd and '>' in rn):
            lex.add('>')
        if '=' in rd and '=' in rn:
            lex.add('=')
        return best & frozenset(lex)
    return D.rel_get(st, a[2][0][1], b[2][0][1])


def check_cmp_like(ctx, N, fn, kind):
    """kind: 'eq' | 'cmp' | 'partial_cmp'"""
    I = N.I
    n = ok = 0
    for args, st0, outs in N.results.get(fn, []):
        a, b = deref(I, st0, args[0]), deref(I, st0, args[1])
        for st, rv in outs:
            cases = []
            if kind == 'eq':
                if rv[0] != 'i':
                    cases.append((None, st, 'unreadable result'))
                else:
                    for val, want in ((1, frozenset('=')), (0, frozenset('<>'))):
                        s2 = st.clone()
                        if D.set_iv(s2, rv[1], val, val):
                            cases.append((want, s2, f'result {bool(val)}'))
            else:
                ov = rv
                if kind == 'partial_cmp':
                    if rv[0] == 'e' and rv[1] == OPTION and set(rv[2]) == {1}:
                        ov = rv[2][1][0]
                    else:
                        ov = None
                if ov is None or ov[0] != 'e' or ov[1] != ORDERING:
                    cases.append((None, st, 'result is not (Some of) an Ordering'))
                else:
                    for vi in ov[2]:
                        cases.append((frozenset('<=>'[vi]), st, 'result ' + ('Less', 'Equal', 'Greater')[vi]))
                    if len(ov[2]) > 1:
                        cases = [(None, st, 'result Ordering not decided on this path')]
            for want, s2, what in cases:
                n += 1
                got = key_rel(I, s2, a, b) if want is not None else None
                if want is not None and got and got <= want:
                    ok += 1
                else:
                    ctx.finding(f'C03:ORDER|{fn}', 'order = order of the instant', I.bodies[fn]['span'],
                                f'{fn}: on a path with {what} the analysis can only derive key ordering {sorted(got) if got else got}, expected {sorted(want) if want else "-"}')
    ctx.rule('C03-D1 eq/cmp decide the key ordering', n, ok, sample={'fn': fn})
    if n == 0:
        ctx.finding(f'C03:NORESULT|{fn}', 'coverage', None, f'{fn}: nothing to check')


def bool_cases(st, aff):
    """states refining `st` in which every comparison-valued atom of `aff` is decided"""
    atoms = [v for v in aff.co if v in D.TERM and D.TERM[v][0] in D.CMP_SETS and D.get_iv(st, v) == (0, 1)]
    states = [st]
    for v in atoms[:4]:
        nxt = []
        for s in states:
            for val in (0, 1):
                s2 = s.clone()
                if D.set_iv(s2, v, val, val):
                    nxt.append(s2)
        states = nxt
    return states


def offset_symbols(I, st0, args):
    syms = set()
    for a in args:
        v = deref(I, st0, a)
        if v is not None and v[0] == 's' and v[1] in (DATETIME, TIME):
            off = v[2][-1]
            if off[0] == 'e' and 0 in off[2]:
                syms.add(off[2][0][0][1])
    loc = getattr(I, '_local_off', {}).get(I.cur_entry)
    if loc is not None:
        syms.add(loc)
    return syms


def value_vids(v, out):
    if v is None:
        return
    k = v[0]
    if k == 'i':
        out.add(v[1])
    elif k in ('t', 'a'):
        for x in v[1]:
            value_vids(x, out)
    elif k == 's':
        for x in v[2]:
            value_vids(x, out)
    elif k == 'e':
        for fs in v[2].values():
            for x in fs:
                value_vids(x, out)


def check_offset_independent(ctx, N, fn, resolve_calls):
    I = N.I
    n = ok = 0
    for args, st0, outs in N.results.get(fn, []):
        offs = offset_symbols(I, st0, args)
        for st, rv in outs:
            n += 1
            vv = set()
            value_vids(rv, vv)
            src, tags = D.sources(vv | set(st.tested))
            bad = (src & offs) or any(t == ('discr', OFFSET) for t in tags)
            if not bad and not resolve_calls.get(fn):
                ok += 1
            else:
                ctx.finding(f'C03:OFFSET-DEP|{fn}', 'F6 independence of the offset', I.bodies[fn]['span'] if fn in I.bodies else None,
                            f'{fn}: the result or a branch on the way depends on an offset '
                            f'(offset symbols reached: {sorted(D.NAME.get(s, s) for s in (src & offs))}, offset discriminant read: {("discr", OFFSET) in tags}, '
                            f'Offset::resolve calls: {resolve_calls.get(fn, 0)})')
    ctx.rule('C03-D2 offset independence', n, ok, sample={'fn': fn})


def check(ctx):
    N = Numeric(ctx)
    I = N.I
    resolve_calls = {}
    orig = I.contracts['offset::Offset::resolve']

    def counting(I_, st, args, dty, site):
        resolve_calls[I_.cur_entry] = resolve_calls.get(I_.cur_entry, 0) + 1
        return orig(I_, st, args, dty, site)
    I.contracts['offset::Offset::resolve'] = counting

    # ---- D1: as_nanos is the instant functional on every branch
    fn = 'datetime::DateTime::as_nanos'
    N.run(fn)
    n = ok = 0
    for args, st0, outs in N.results.get(fn, []):
        recv = struct_of(I, st0, args[0], DATETIME)
        for st, rv in outs:
            n += 1
            if rv[0] == 'i' and D.aff_equiv(D.aff_of(rv[1]), instant(recv), 0, st=st):
                ok += 1
            else:
                ctx.finding('C03:AFF|datetime::DateTime::as_nanos', 'AFF instant', I.bodies[fn]['span'], f'as_nanos is not 86_400e9*days + nanoseconds on some branch')
    ctx.rule('C03-D1 as_nanos = instant', n, ok, floor=2)

    # ---- D1: equality and order
    for ty in ('datetime::DateTime', 'time::Time', 'date::Date'):
        for tr, m, kind in (('std::cmp::PartialEq', 'eq', 'eq'), ('std::cmp::Ord', 'cmp', 'cmp'), ('std::cmp::PartialOrd', 'partial_cmp', 'partial_cmp')):
            fn = f'<{ty} as {tr}>::{m}'
            N.run(fn)
            check_cmp_like(ctx, N, fn, kind)
            if ty != 'date::Date':
                check_offset_independent(ctx, N, fn, resolve_calls)

    # ---- D2: the difference / timestamp functions do not look at offsets
    indep = [DTU + 'timestamp', DTU + 'years_since', DTU + 'months_since', DTU + 'days_since', 'datetime::DateTime::duration_between',
             'time::Time::duration_between']
    for unit in ('hours', 'minutes', 'seconds', 'millis', 'micros', 'nanos'):
        indep.append(DTT + unit + '_since')
        indep.append('<time::Time as shared::TimeUtilities>::' + unit + '_since')
    for fn in indep:
        N.run(fn)
        check_offset_independent(ctx, N, fn, resolve_calls)

    # ---- D1: nanos_since is the difference of the instants
    fn = DTT + 'nanos_since'
    n = ok = 0
    for args, st0, outs in N.results.get(fn, []):
        a, b = deref(I, st0, args[0]), deref(I, st0, args[1])
        for st, rv in outs:
            n += 1
            if rv[0] == 'i' and D.aff_equiv(D.aff_of(rv[1]), D.aff_add(instant(a), instant(b), -1), 0, st=st):
                ok += 1
            else:
                ctx.finding(f'C03:AFF|{fn}', 'AFF difference of instants', I.bodies[fn]['span'], 'nanos_since is not instant(self) - instant(other)')
    ctx.rule('C03-D1 nanos_since = difference of instants', n, ok, floor=1)

    # ---- D3: timestamps
    fn = DTU + 'timestamp'
    n = ok = 0
    for args, st0, outs in N.results.get(fn, []):
        recv = struct_of(I, st0, args[0], DATETIME)
        for st, rv in outs:
            n += 1
            q, _ = D.divmod_vids(st, recv[2][1][1], 10**9)
            exp = D.aff_add(D.aff_add(D.aff_scale(D.aff_of(recv[2][0][1]), 86_400), D.aff_of(q)), D.aff_const(EPOCH_SECS), -1)
            if rv[0] == 'i' and D.aff_equiv(D.aff_of(rv[1]), exp, 0, st=st):
                ok += 1
            else:
                ctx.finding(f'C03:TS|{fn}', 'AFF timestamp', I.bodies[fn]['span'],
                            f'DateTime::timestamp is not 86_400*days + nanoseconds/1e9 - {EPOCH_SECS}: got {D.aff_of(rv[1]) if rv[0] == "i" else rv[0]}')
    ctx.rule('C03-D3 timestamp = floor((instant - epoch)/1e9)', n, ok, floor=1)

    fn = DTU + 'from_timestamp'
    N.run(fn)
    exp_dt = lambda I, st, args, recv: D.aff_add(D.aff_scale(D.aff_of(args[0][1]), 10**9), D.aff_const(EPOCH_SECS * 10**9))
    n = ok = 0
    for args, st0, outs in N.results.get(fn, []):
        for st, rv in outs:
            n += 1
            if rv[0] == 's' and rv[1] == DATETIME and D.aff_equiv(instant(rv), exp_dt(I, st, args, None), 0, st=st) \
                    and rv[2][2] == ('e', OFFSET, {0: (('i', D.const_vid(0), 'i32'),)}):
                ok += 1
            else:
                ctx.finding(f'C03:TS|{fn}', 'AFF from_timestamp', I.bodies[fn]['span'], 'DateTime::from_timestamp does not build the instant 1e9*(ts + epoch) at offset 0')
    ctx.rule('C03-D3 from_timestamp builds the instant of the timestamp', n, ok, floor=1)
    # panic exactness (receiver-less: use a shim around check_panic_exact's interface)
    pn = pk = 0
    cfgs = N.results.get(fn, [])
    for ci, st, cause in N.panics.get(fn, []):
        args = cfgs[ci][0]
        iv = D.eval_aff(st, exp_dt(I, st, args, None))
        pn += 1
        if iv is not None and (iv[1] < MIN_I or iv[0] > MAX_I):
            pk += 1
        else:
            ctx.finding(f'C03:SPURIOUS-PANIC|{fn}', 'panic exactly when out of range', None, f'{fn}: a panic is reachable for an instant in [{iv[0]}, {iv[1]}] (cause {cause})')
    ctx.rule('C03-D3 from_timestamp panics only out of range', pn, pk, floor=1)

    # Date
    fn = '<date::Date as shared::DateUtilities>::timestamp'
    N.run(fn)
    n = ok = 0
    for args, st0, outs in N.results.get(fn, []):
        recv = struct_of(I, st0, args[0], DATE)
        for st, rv in outs:
            n += 1
            exp = D.aff_add(D.aff_scale(D.aff_of(recv[2][0][1]), 86_400), D.aff_const(EPOCH_SECS), -1)
            if rv[0] == 'i' and D.aff_equiv(D.aff_of(rv[1]), exp, 0, st=st):
                ok += 1
            else:
                ctx.finding(f'C03:TS|{fn}', 'AFF timestamp', I.bodies[fn]['span'], 'Date::timestamp is not 86_400*(days - epoch day)')
    ctx.rule('C03-D3 Date::timestamp', n, ok, floor=1)
    fn = '<date::Date as shared::DateUtilities>::from_timestamp'
    N.run(fn)
    n = ok = 0
    for args, st0, outs in N.results.get(fn, []):
        ts = args[0]
        for st, rv in outs:
            n += 1
            # days' == floor(ts / 86_400) + epoch day:   86_400*(days' - epoch) <= ts < 86_400*(days' - epoch) + 86_400
            good = False
            if rv[0] == 's' and rv[1] == DATE:
                d = rv[2][0][1]
                q, r = D.divmod_vids(st, ts[1], 86_400)
                sub = bool_cases(st, D.aff_of(d))
                good = bool(sub)
                qe, _re = D.divmod_euclid(st, ts[1], 86_400, force=True)
                for s2 in sub:
                    this = False
                    # (the Euclidean quotient is the floor itself)
                    if D.aff_equiv(D.aff_of(d), D.aff_add(D.aff_of(qe), D.aff_const(DAYS_TO_1970)), 0, st=s2):
                        this = True
                    for cand in (D.aff_add(D.aff_of(q), D.aff_const(DAYS_TO_1970)), D.aff_add(D.aff_of(q), D.aff_const(DAYS_TO_1970 - 1))):
                        if D.aff_equiv(D.aff_of(d), cand, 0, st=s2):
                            rl, rh = D.get_iv(s2, r)
                            # truncating quotient q: floor = q when the remainder is >= 0, q - 1 when it is negative
                            if cand.c0 == DAYS_TO_1970 and rl >= 0:
                                this = True
                            if cand.c0 == DAYS_TO_1970 - 1 and rh < 0:
                                this = True
                    good = good and this
            if good:
                ok += 1
            else:
                ctx.finding(f'C03:TS|{fn}', 'AFF from_timestamp', I.bodies[fn]['span'], 'Date::from_timestamp does not return floor(ts/86_400) + epoch day on some path')
    ctx.rule('C03-D3 Date::from_timestamp floors to the day', n, ok, floor=1)

    # ---- the epoch constant is the day number of 1970-01-01 (constant propagation through date_to_days)
    from ..absint import const_int
    fn = 'util::date::convert::date_to_days'
    N.run(fn, label=fn + ' [1970-01-01]', overrides={'year@1': lambda I, st, ty: const_int(1970, 'i32'), 'month@2': lambda I, st, ty: const_int(1, 'u32'),
                                                     'day@3': lambda I, st, ty: const_int(1, 'u32')})
    res = N.flat(fn + ' [1970-01-01]')
    good = len(res) == 1 and res[0][1][0] == 'e' and set(res[0][1][2]) == {0} and D.get_iv(res[0][0], res[0][1][2][0][0][1]) == (DAYS_TO_1970, DAYS_TO_1970)
    ctx.rule('C03-D3 epoch constant = day number of 1970-01-01', 1, 1 if good else 0)
    if not good:
        ctx.finding('C03:EPOCH', 'constant propagation', None, f'date_to_days(1970,1,1) does not fold to {DAYS_TO_1970}, the constant timestamp()/from_timestamp() use')

    N.judge(allowed_causes=('util::time::convert::secs_to_days_nanos', 'int::try_from', '<date::Date as shared::DateUtilities>::from_timestamp'),
            kinds=('ARITH', 'BOUNDS', 'CAST', 'UNWRAP', 'PANIC', 'STDPRE', 'INV'),
            skip_fns=('util::date::convert::years_between', 'util::date::convert::months_between', 'util::date::convert::days_to_wyear'))
    ctx.cov['trusted_base'] += ['rustc MIR of the dev profile', 'vf/models.py rows: ' + ', '.join(sorted(I.models_used))[:600]]
