"""C01 -- day number <-> proleptic Gregorian date is a validated bijection (DESIGN section 4, C01): structural / range part."""
from .. import domain as D
from ..absint import const_int
from ..numeric import Numeric, DATE, DATETIME

LEVEL = 'proof'
EXPLANATION = ('Decided for all inputs: (D1) Date/DateTime::from_ymd(hms) return exactly the day number date_to_days returned (value identity), and '
               'date_to_days / year_doy_to_days reach Ok only past validate_date / validate_doy, the month match and the day-in-month guard, whose 18 '
               'OutOfRange sites are guard/message consistent (O1/O2); (D3) days_to_date is total on all 2^32 day numbers with month in [1,12], day in '
               '[1,31], year != 0, |year| <= 5_880_993 and date_to_days / year_doy_to_days are total on all argument triples, including the i32 edge '
               'arithmetic at MIN_DATE / MAX_DATE (div/mod linearisation, no hand-discharged obligation); (D4) year_month_to_doy evaluated for each month gives offsets equal to '
               'the prefix sums of the month lengths in both the common and the leap case, which differ exactly by 29 February; MIN_DATE / MAX_DATE are the '
               'dates of i32::MIN / i32::MAX, 2000-03-01 is day 730_179 and 0001-01-01 is day 0 (constant propagation through the '
               'kernels). (B) date_to_days IS the proleptic Gregorian day count: in each of the 802 residue classes of the 400-year cycle (year = 400k + j AD, -(400k + j) BC, k symbolic, plus the years -1 and -2) the accepted days of every month are exactly 1..=length (leap by the astronomical year), the day number is base + days-before-month + day - 1 with one base per year, consecutive years are 365/366 days apart in every cycle and across the missing year 0, and 0001-01-01 is day 0 -- so it is strictly increasing by one from each valid date to the next, hence injective (oracle: the calendar definition, not the leap functions of the code). (I) days_to_date is its inverse: for every i32 day number n -- analysed in the 400 March-based years of the cycle x (all later cycles with a symbolic cycle index, the six cycles around the era boundary one by one, all earlier cycles symbolic, and the two partial cycles at the ends of the i32 range), with the day inside the year symbolic -- date_to_days accepts the date days_to_date returns and gives back exactly n (affine identity on every path; the classes cover 2^32 day numbers exactly once). With (B) the two kernels are mutually inverse bijections between the valid dates and the i32 day numbers.')
META = {
    'technique': 'static analysis: MIR abstract interpretation (totality, ranges, guard/message consistency), value identity at kernel call sites, constant propagation; '
                 'residue-class case analysis of both day-number kernels over the 400-year cycle (symbolic cycle index) against the Gregorian rule, and their composition per March-year class',
    'note': 'trusted: rustc MIR, vf/models.py; Python oracle of the Gregorian rule (vf/calendar.py daynum) for the year-class rules B and I',
}

D2D = 'util::date::convert::days_to_date'
DTD = 'util::date::convert::date_to_days'
YDD = 'util::date::convert::year_doy_to_days'
YMD = 'util::date::convert::year_month_to_doy'
LEAP = 'util::leap::is_leap_year'


def body_consts(facts, fn):
    out = set()
    b = facts.bodies.get(fn)
    if b is None:
        return out

    def op(o):
        if isinstance(o, dict) and o.get('o') == 'const' and o['const'].get('c') == 'int':
            out.add(int(o['const']['v']))
    for blk in b['blocks']:
        for s in blk['stmts']:
            if s['s'] == 'assign':
                rv = s['rv']
                for k in ('op', 'a', 'b'):
                    op(rv.get(k))
                for o in rv.get('ops', []):
                    op(o)
        t = blk['term']
        for a in t.get('args', []):
            op(a)
        op(t.get('discr'))
    return out


def const_call(N, fn, label, vals, tys):
    """constant propagation of one call through the crate's own code (no result merging)"""
    from ..entries import arg_names
    names = arg_names(N.I.bodies[fn])
    ov = {n: (lambda I, st, ty, v=v, t=t: const_int(v, t)) for n, v, t in zip(names, vals, tys)}
    saved = dict(N.I.return_partition)
    N.I.return_partition.clear()
    try:
        N.run(fn, label=label, overrides=ov)
    finally:
        N.I.return_partition.update(saved)
    return N.flat(label)


def check(ctx):
    from ..calendar import check_day_count, check_inverse
    check_day_count(ctx, Numeric)
    check_inverse(ctx, Numeric)
    N = Numeric(ctx)
    I = N.I
    facts = N.facts
    # ---- D3: totality and ranges of the kernels
    part = I.return_partition.pop(D2D)
    N.run(D2D)
    I.return_partition[D2D] = part
    hull = [None, None, None]
    zero_year = False
    for st, rv in N.flat(D2D):
        for i in range(3):
            l, h = D.get_iv(st, rv[1][i][1])
            hull[i] = (l, h) if hull[i] is None else (min(l, hull[i][0]), max(h, hull[i][1]))
        l, h = D.get_iv(st, rv[1][0][1])
        if l <= 0 <= h:
            zero_year = True
    good = hull[0] is not None and hull[1] == (1, 12) and hull[2][0] == 1 and hull[2][1] == 31 and not zero_year and -5_881_000 < hull[0][0] and hull[0][1] < 5_881_000
    ctx.rule('C01-D3 days_to_date output ranges', 1, 1 if good else 0, sample={'year_month_day_hull': hull, 'year_zero_possible': zero_year})
    if not good:
        ctx.finding('C01:RANGE|' + D2D, 'F1 ranges', I.bodies[D2D]['span'], f'days_to_date output ranges derived as {hull} (year 0 possible: {zero_year}); expected month [1,12], day [1,31], year != 0')
    for fn in (DTD, YDD):
        part = I.return_partition.pop(fn)
        N.run(fn)
        I.return_partition[fn] = part
        oks = [(st, rv) for st, rv in N.flat(fn) if rv[0] == 'e' and set(rv[2]) == {0}]
        errs = [(st, rv) for st, rv in N.flat(fn) if rv[0] == 'e' and 1 in rv[2]]
        ctx.rule('C01-D1 kernels have both outcomes', 1, 1 if oks and errs else 0)
        if not (oks and errs):
            ctx.finding('C01:OUTCOMES|' + fn, 'F4', I.bodies[fn]['span'], f'{fn}: {len(oks)} Ok and {len(errs)} Err exits')
        # accepted year range / month / day on Ok
        yh = None
        for st, rv in oks:
            args = [a for a in N.results[fn][0][0]]
            l, h = D.get_iv(st, args[0][1])
            yh = (l, h) if yh is None else (min(l, yh[0]), max(h, yh[1]))
        good = yh == (-5_879_611, 5_879_611)
        ctx.rule('C01-D1 accepted years', 1, 1 if good else 0, sample={'fn': fn, 'accepted_year_hull': yh})
        if not good:
            ctx.finding('C01:ACCEPT|' + fn, 'F3 accepted set', I.bodies[fn]['span'], f'{fn} accepts years {yh}, documented range is +/-5_879_611')
    # ---- D1: the public constructors return the kernel's day number
    for fn, path in (('date::Date::from_ymd', DATE), ('datetime::DateTime::from_ymd', DATETIME), ('datetime::DateTime::from_ymdhms', DATETIME)):
        rets = []

        def hook(I_, f, depth, results):
            if f == DTD:
                rets.extend(rv[2][0][0][1] for st, rv in results if rv[0] == 'e' and 0 in rv[2] and rv[2][0][0][0] == 'i')
        I.return_hooks.append(hook)
        try:
            N.run(fn)
        finally:
            I.return_hooks.remove(hook)
        n = ok = 0
        for st, rv in N.flat(fn):
            if rv[0] == 'e' and set(rv[2]) == {0}:
                n += 1
                v = rv[2][0][0]
                if v[0] == 's' and v[2][0][0] == 'i' and v[2][0][1] in rets:
                    ok += 1
                else:
                    ctx.finding('C01:PRODUCER|' + fn, 'F4 who-constructs', I.bodies[fn]['span'], f'{fn}: the day number of an Ok result is not the value date_to_days returned')
        ctx.rule('C01-D1 constructors return the kernel day number', n, ok, floor=1, sample={'fn': fn})
    ncalls = sum(1 for b in facts.body_list for blk in b['blocks'] if blk['term']['t'] == 'call' and blk['term']['func'].get('id') in (DTD, YDD))
    ctx.rule('C01-D1 call sites of the two producers', ncalls, ncalls, floor=4, sample={'call_sites': ncalls})
    # ---- D4: month tables
    table = {}
    for m in range(1, 13):
        res = const_call(N, YMD, f'{YMD} [month={m}]', [None, m], [None, 'u32']) if False else None
    names = None
    from ..entries import arg_names
    for m in range(1, 13):
        lab = f'{YMD} [month={m}]'
        N.run(YMD, label=lab, overrides={'month@2': lambda I, st, ty, m=m: const_int(m, 'u32')})
        ent = set()
        for st, rv in N.flat(lab):
            if rv[0] == 'e' and set(rv[2]) == {0}:
                off, ln = rv[2][0][0][1]
                ent.add((D.get_iv(st, off[1]), D.get_iv(st, ln[1])))
        table[m] = ent
    ok_tab = all(len(e) in (1, 2) and all(a[0] == a[1] and b[0] == b[1] for a, b in e) for e in table.values())
    common = leap = None
    if ok_tab:
        common = {m: min(e) for m, e in table.items()}
        leap = {m: max(e) for m, e in table.items()}
        for arm, feb, total in ((common, 28, 365), (leap, 29, 366)):
            lens = [arm[m][1][0] for m in range(1, 13)]
            offs = [arm[m][0][0] for m in range(1, 13)]
            if lens != [31, feb, 31, 30, 31, 30, 31, 31, 30, 31, 30, 31] or offs != [sum(lens[:i]) for i in range(12)] or sum(lens) != total:
                ok_tab = False
    ctx.rule('C01-D4 year_month_to_doy arms: offsets = prefix sums, arms differ by 29 Feb', 24, 24 if ok_tab else 0,
             sample={'common': {m: (v[0][0], v[1][0]) for m, v in (common or {}).items()}})
    if not ok_tab:
        ctx.finding('C01:TABLE|' + YMD, 'F5 table agreement', I.bodies[YMD]['span'], f'month table of year_month_to_doy is inconsistent: {table}')
    dc = body_consts(facts, D2D)
    # range ends and LEAPOCH by constant propagation through the kernels
    anchors = [(DTD, '[MAX_DATE]', [5_879_611, 7, 12], ['i32', 'u32', 'u32'], (1 << 31) - 1), (DTD, '[MIN_DATE]', [-5_879_611, 6, 23], ['i32', 'u32', 'u32'], -(1 << 31)),
               (DTD, '[LEAPOCH 2000-03-01]', [2000, 3, 1], ['i32', 'u32', 'u32'], 730_179), (DTD, '[0001-01-01]', [1, 1, 1], ['i32', 'u32', 'u32'], 0)]
    for fn, tag, vals, tys, want in anchors:
        res = const_call(N, fn, fn + ' ' + tag, vals, tys)
        good = len(res) == 1 and res[0][1][0] == 'e' and set(res[0][1][2]) == {0} and D.get_iv(res[0][0], res[0][1][2][0][0][1]) == (want, want)
        ctx.rule('C01-D4 constants agree with the kernels (constant propagation)', 1, 1 if good else 0, sample={'anchor': tag, 'expected_day': want})
        if not good:
            ctx.finding('C01:ANCHOR-CONST|' + tag, 'constant propagation', None, f'date_to_days{tuple(vals)} does not fold to {want}')
    for tag, day, want in (('[i32::MAX]', (1 << 31) - 1, (5_879_611, 7, 12)), ('[i32::MIN]', -(1 << 31), (-5_879_611, 6, 23)), ('[0]', 0, (1, 1, 1))):
        res = const_call(N, D2D, D2D + ' ' + tag, [day], ['i32'])
        got = [tuple(D.get_iv(st, x[1]) for x in rv[1]) for st, rv in res]
        good = len(got) == 1 and got[0] == tuple((w, w) for w in want)
        ctx.rule('C01-D4 constants agree with the kernels (constant propagation)', 1, 1 if good else 0, sample={'anchor': 'days_to_date' + tag, 'expected': want})
        if not good:
            ctx.finding('C01:ANCHOR-CONST|days_to_date' + tag, 'constant propagation', None, f'days_to_date({day}) folds to {got}, expected {want}')
    N.judge(kinds=('ARITH', 'BOUNDS', 'CAST', 'UNWRAP', 'PANIC', 'STDPRE', 'OOR', 'INV'))
    noor = sum(1 for k, o in I.obl.items() if o.kind == 'OOR')
    ctx.rule('C01-D2 OutOfRange sites of the date kernels', noor, noor, floor=6, sample={'sites': noor})
    ctx.cov['trusted_base'] += ['rustc MIR of the dev profile', 'vf/models.py rows: ' + ', '.join(sorted(I.models_used))[:400]]
