"""C18 -- the timezone reader returns the UTC offset the TZif data defines per instant (decision structure)."""
import itertools
from .. import domain as D
from ..numeric import Numeric
from ..models import deref, some, none, ok, err, const_int

LEVEL = 'other'
EXPLANATION = ('Decided on the MIR, for symbolic tables and timestamps: (L) TimeZone::to_local_time_type on tables of 0, 1 and 2 symbolic transitions (ascending) '
               'with and without a footer rule: from the last transition onward (t_last <= ts, inclusive), or with an empty table, the result is the '
               'evaluation of the footer rule when there is one; otherwise it is the local time type whose index belongs to the latest transition with '
               't <= ts (inclusive), the first type before the first transition; every result is the unchanged value of one of these two lookups. '
               '(R) the footer rule evaluation: a fixed rule yields its type; an alternating rule compares the timestamp with start = local start - '
               'standard offset and end = local end - daylight offset and yields daylight time exactly for start <= ts < end when start < end, and '
               'exactly outside end <= ts < start otherwise (southern hemisphere), standard time when a switch instant cannot be computed. '
               '(D) the switch instants: Jn is day n of the year without counting 29 February (year_doy_to_days skips the leap day exactly from n = 60 on '
               'in leap years), n is the zero-based day n+1, Mm.w.d is the w-th (5 = last) d-weekday of month m taken from weekdays_in_month, whose '
               'result is, for every month length 28..31, every weekday of the 1st (its day number 7q + r, q symbolic, through the real days_to_wday) and '
               'every asked weekday, exactly the ascending list of the days of the month with that weekday (196 cases); the local instant is 86_400 * day + time of the rule. (P) the reader itself (vf/tzparse.py), with the cursor and the integer reader replaced by recording contracts: parse_hms yields direction -1 exactly '
               'after a minus sign and hour[:minute[:second]] in reading order, absent fields 0; parse_tz_string_offset(_extended) returns direction * (3600 h + 60 m + s) and '
               'accepts every h in 0..=24 (-167..=167), m, s in 0..=59; parse_tz_string_rule builds Jn / n / Mm.w.d by the first byte, accepting all of the POSIX field '
               'ranges 1..=365, 0..=365, 1..=12, 1..=5, 0..=6 in reading order, switch time 02:00:00 unless /time follows (extended grammar exactly for version 3); '
               'from_tz_string gives utoff = -offset, an omitted daylight offset one hour ahead of standard time, first rule = end of standard time, second = end of '
               'daylight time; Header::parse reads 4 + 1 + 15 bytes, maps the version byte NUL / 0x32 / 0x33 to versions 1 / 2 / 3 and stores the six counts in the RFC 8536 order; DataBlock::parse cuts timecnt*T, timecnt, typecnt*6, charcnt, '
               'leapcnt*(T+4), isstdcnt, isutcnt bytes in this order (T = 4 or 8); from_tzif reads header + one 4-byte block and no footer for version 1, and header, skipped version-1 block, second header, 8-byte block and footer (extended grammar exactly for version 3) otherwise, one analysis per combination of header versions. Not decided: the calendar kernels '
               '(C01/C02), reading the year of the rule from the UTC timestamp (the property excludes switch-overs near 1 January), that the system file is the one read.')
META = {
    'technique': 'static analysis: MIR abstract interpretation of the lookup and rule evaluation on symbolic transition tables; decision tables from the ordering '
                 'facts of each result path against the RFC 8536 / POSIX TZ rule; call wiring and affine identities of the rule-day computation',
    'note': 'trusted: rustc MIR, vf/models.py; calendar kernels summarised (C01/C02); tables of at most two transitions are analysed, larger ones by uniformity of the loop body',
}

TZ = 'local::timezone::TimeZone'
LOOKUP = 'local::timezone::TimeZone::to_local_time_type'
RULE_EVAL = 'local::timezone::TimeZone::rule_to_local_time_type'
LTYPE = 'local::timezone::TimeZone::local_time_type'
TRANSITION = 'local::timezone::Transition'
LTT = 'local::timezone::LocalTimeType'
RULE = 'local::transition_rule::TransitionRule'
ALT = 'local::transition_rule::AlternateLocalTimeType'
STD_END = 'local::transition_rule::AlternateLocalTimeType::local_std_end_timestamp'
DST_END = 'local::transition_rule::AlternateLocalTimeType::local_dst_end_timestamp'
RULE_TS = 'local::transition_rule::rule_to_local_timestamp'
YDD = 'util::date::convert::year_doy_to_days'
WIM = 'util::date::convert::weekdays_in_month'
YMD = 'util::date::convert::year_month_to_doy'
I64 = {'k': 'int', 's': True, 'bits': 64, 'name': 'i64'}
USZ = {'k': 'int', 's': False, 'bits': 64, 'name': 'usize'}


def install_array_vec(I):
    """a Vec field given as an exact array of symbolic elements: deref gives a slice with known elements"""
    m_deref = I.models.get('<std::vec::Vec<T, A> as std::ops::Deref>::deref')
    m_last = I.models.get('core::slice::<impl [T]>::last')

    def vderef(I_, st, args, dty, site):
        v = deref(I_, st, args[0])
        if v is not None and v[0] == 'a':
            return [(st, ('slice', {'len': D.const_vid(len(v[1])), 'elems': tuple(v[1]), 'elem_ty': None, 'ident': ('arr', id(v))}))]
        return m_deref(I_, st, args, dty, site)

    def last(I_, st, args, dty, site):
        a = args[0]
        if a[0] == 'slice' and a[1].get('elems') is not None:
            el = a[1]['elems']
            if not el:
                return [(st, none())]
            e = el[-1] if site['callee'].endswith('last') else el[0]
            return [(st, some(('r', I_.alloc(st, e))))]
        return m_last(I_, st, args, dty, site)
    I.models['<std::vec::Vec<T, A> as std::ops::Deref>::deref'] = vderef
    for n in ('core::slice::<impl [T]>::last', 'core::slice::<impl [T]>::first'):
        I.models[n] = last
    for n in ('std::vec::Vec::<T, A>::last', 'std::vec::Vec::<T, A>::first'):
        I.models[n] = last


def lookup_rule(ctx, facts):
    span = facts.bodies[LOOKUP]['span']
    total = good = 0
    for ntrans in (0, 1, 2):
        for has_rule in (False, True):
            N = Numeric(ctx, 'default', max_disj=200, max_steps=200_000)
            I = N.I
            install_array_vec(I)
            rec = {'rule': [], 'type': []}

            def c_rule(I_, st, args, dty, site, rec=rec):
                s2 = st.clone()
                r = I_.top(s2, dty, 'rule result')
                rec['rule'].append((st, args, r))
                return [(s2, r)]

            def c_type(I_, st, args, dty, site, rec=rec):
                s2 = st.clone()
                r = I_.top(s2, dty, 'typed result')
                rec['type'].append((st, args, r))
                return [(s2, r)]
            I.contracts[RULE_EVAL] = c_rule
            I.contracts[LTYPE] = c_type
            I.return_partition[LOOKUP] = lambda I_, st, v: id(st)
            I.unroll_for[LOOKUP] = 6
            T = []

            def mk_self(I_, st, ty, ntrans=ntrans, has_rule=has_rule, T=T):
                tzty = ty['to'] if ty.get('k') == 'ref' else ty
                v = I_.top(st, tzty, 'tz')
                trs = []
                prev = None
                for i in range(ntrans):
                    t = I_.top(st, I64, f't{i}')
                    ix = I_.top(st, USZ, f'idx{i}')
                    if prev is not None:
                        D.refine_cmp(st, 'Lt', prev[1], t[1])       # the table is ascending (RFC 8536)
                    prev = t
                    trs.append(('s', TRANSITION, (t, ix), None))
                    T.append((t[1], ix[1]))
                rule = v[2][2]
                rule = ('e', rule[1], {1: rule[2][1]}) if has_rule else ('e', rule[1], {0: ()})
                v = ('s', v[1], (('a', tuple(trs)), v[2][1], rule), v[3])
                return ('r', I_.alloc(st, v))
            N.run(LOOKUP, overrides={'self': mk_self}, variants=('fixed',))
            for args, st0, outs in N.results.get(LOOKUP, []):
                ts = args[1][1]
                for st, rv in outs:
                    total += 1
                    via_rule = [r for r in rec['rule'] if r[2] == rv]
                    via_type = [r for r in rec['type'] if r[2] == rv]
                    msg = None
                    rels = [D.rel_get(st, t, ts) for t, _ in T]       # t_i vs ts
                    if not via_rule and not via_type:
                        msg = 'a result is neither the footer rule evaluation nor a local time type looked up by index'
                    elif via_rule:
                        a = via_rule[-1][1]
                        if a[1][0] != 'i' or a[1][1] != ts:
                            msg = 'the footer rule is not evaluated for the given timestamp'
                        elif not has_rule:
                            msg = 'a footer rule is evaluated although the file has none'
                        elif ntrans and not rels[-1] <= frozenset('<='):
                            msg = f'the footer rule is used although the last transition may be later than the timestamp ({sorted(rels[-1])})'
                    else:
                        idx = via_type[-1][1][1]
                        if has_rule and (ntrans == 0 or rels[-1] <= frozenset('<=')):
                            msg = 'from the last transition onward (or with an empty table) the footer rule must decide, a table entry is used'
                        else:
                            # which transition may be the latest one with t <= ts on this path?
                            cands = [i for i in range(ntrans) if rels[i] & frozenset('<=') and all('>' in rels[j] for j in range(i + 1, ntrans))]
                            sure = [i for i in range(ntrans) if rels[i] <= frozenset('<=') and all(rels[j] <= frozenset('>') for j in range(i + 1, ntrans))]
                            none_before = all('>' in r for r in rels)
                            if idx[0] != 'i':
                                msg = 'the type index is not tracked'
                            elif D.get_iv(st, idx[1]) == (0, 0) and idx[1] in D.CONSTVAL:
                                if not none_before or sure:
                                    msg = f'type 0 is used although a transition at or before the timestamp exists ({[sorted(r) for r in rels]})'
                            else:
                                who = [i for i, (_t, ix) in enumerate(T) if ix == idx[1]]
                                if not who:
                                    msg = 'the type index does not come from a transition of the table'
                                elif who[0] not in sure:
                                    msg = (f'the type of transition {who[0]} is used on a path where it is not certainly the latest one at or before the timestamp '
                                           f'({[sorted(r) for r in rels]})')
                    if msg:
                        ctx.finding(f'C18:LOOKUP|{ntrans}|{int(has_rule)}', 'C18-L lookup', span, f'to_local_time_type with {ntrans} transition(s), footer {"present" if has_rule else "absent"}: {msg}')
                    else:
                        good += 1
            # inclusiveness: with one transition and no rule there must be a path on which t0 == ts selects transition 0
            if ntrans == 1 and not has_rule:
                incl = False
                for args, st0, outs in N.results.get(LOOKUP, []):
                    ts = args[1][1]
                    for st, rv in outs:
                        via_type = [r for r in rec['type'] if r[2] == rv]
                        if via_type and via_type[-1][1][1][0] == 'i' and via_type[-1][1][1][1] == T[0][1] and '=' in D.rel_get(st, T[0][0], ts):
                            incl = True
                total += 1
                if incl:
                    good += 1
                else:
                    ctx.finding('C18:LOOKUP|inclusive', 'C18-L lookup', span, 'a transition does not apply at its own instant (t == timestamp selects the previous type)')
    ctx.rule('C18-L lookup: footer from the last transition onward, else the latest transition at or before the timestamp', total, good, floor=8)


def rule_eval(ctx, facts):
    """(R): decision table of the footer rule evaluation"""
    span = facts.bodies[RULE_EVAL]['span']
    N = Numeric(ctx, 'default', max_disj=400, max_steps=300_000)
    I = N.I
    ends = {}

    def mk(name):
        def c(I_, st, args, dty, site):
            s1, s2 = st.clone(), st.clone()
            if name not in ends:
                ends[name] = D.sym_vid(-(1 << 50), 1 << 50, name)
            s1.iv[ends[name]] = (-(1 << 50), 1 << 50)
            ts = args[1]
            ends.setdefault(name + ':ts', []).append(ts[1] if ts[0] == 'i' else None)
            return [(s1, some(('i', ends[name], 'i64'))), (s2, none())]
        return c
    I.contracts[STD_END] = mk('std_end_local')
    I.contracts[DST_END] = mk('dst_end_local')
    I.return_partition[RULE_EVAL] = lambda I_, st, v: id(st)
    N.run(RULE_EVAL, variants=('fixed',))
    total = good = 0
    kinds = set()
    for args, st0, outs in N.results.get(RULE_EVAL, []):
        rule = deref(I, st0, args[0])
        ts = args[1][1]
        for st, rv in outs:
            total += 1
            msg = None
            cur = deref(I, st, args[0])
            if cur is None or cur[0] != 'e' or len(cur[2]) != 1 or rv[0] != 's':
                msg = 'the rule or the result is not definite on one path'
            elif 0 in cur[2]:
                kinds.add('fixed')
                if rv[2] != cur[2][0][0][2]:
                    msg = 'a fixed rule does not yield its own local time type'
            else:
                altt = cur[2][1][0]
                names = [f['name'] for f in facts.adts[ALT]['variants'][0]['fields']]
                std, dst = altt[2][names.index('std')], altt[2][names.index('dst')]
                which = 'std' if rv[2] == std[2] else 'dst' if rv[2] == dst[2] else None
                A, B = ends.get('std_end_local'), ends.get('dst_end_local')
                if which is None:
                    msg = 'the result is neither the standard nor the daylight type of the rule'
                elif any(t != ts for k in ('std_end_local:ts', 'dst_end_local:ts') for t in ends.get(k, [])):
                    msg = 'the switch instants are not computed for the given timestamp'
                else:
                    haveA, haveB = A in st.iv and A is not None, B in st.iv and B is not None
                    # find the values compared: S = A - std.utoff, E = B - dst.utoff
                    S = D.aff_add(D.aff_of(A), D.aff_of(std[2][0][1]), -1) if A is not None else None
                    E = D.aff_add(D.aff_of(B), D.aff_of(dst[2][0][1]), -1) if B is not None else None
                    sv = [v for v in st.iv if S is not None and v in D.AFF and D.aff_equiv(D.AFF[v], S)] if S is not None else []
                    ev = [v for v in st.iv if E is not None and v in D.AFF and D.aff_equiv(D.AFF[v], E)] if E is not None else []
                    if not sv or not ev:
                        kinds.add('unevaluable')
                        if which != 'std':
                            msg = 'when a switch instant cannot be computed the standard type must be used'
                    else:
                        s_, e_ = sv[0], ev[0]
                        rse, rst, rte = D.rel_get(st, s_, e_), D.rel_get(st, s_, ts), D.rel_get(st, ts, e_)
                        exp = set()
                        for a, b, c in itertools.product(rse, rst, rte):
                            # consistency of a total order on (S, E, ts)
                            val = {'S': 0.0}
                            val['T'] = 1.0 if b == '<' else 0.0 if b == '=' else -1.0      # S ? ts
                            # E from ts ? E
                            poss = []
                            for eval_ in (-2.0, -1.0, -0.5, 0.0, 0.5, 1.0, 2.0):
                                okc = (val['T'] < eval_) if c == '<' else (val['T'] == eval_) if c == '=' else (val['T'] > eval_)
                                oka = (0.0 < eval_) if a == '<' else (0.0 == eval_) if a == '=' else (0.0 > eval_)
                                if okc and oka:
                                    poss.append(eval_)
                            if not poss:
                                continue
                            S_lt_E = a == '<'
                            if S_lt_E:
                                dst_on = b in '<=' and c == '<'            # S <= ts < E
                            else:
                                e_le_t = c in '>='                          # E <= ts
                                t_lt_s = b == '>'                           # ts < S
                                dst_on = not (e_le_t and t_lt_s)
                            exp.add('dst' if dst_on else 'std')
                        kinds.add('north' if rse <= frozenset('<') else 'south' if not (rse & frozenset('<')) else 'mixed')
                        if exp != {which}:
                            msg = (f'the {which} type is returned on a path where start ? end is {sorted(rse)}, start ? ts is {sorted(rst)}, ts ? end is {sorted(rte)}: '
                                   f'the rule demands {sorted(exp)}')
            if msg:
                ctx.finding('C18:RULE|decision', 'C18-R rule evaluation', span, f'rule_to_local_time_type: {msg}')
            else:
                good += 1
    need = {'fixed', 'north', 'south', 'unevaluable'}
    if not need <= kinds:
        ctx.finding('C18:RULE|coverage', 'C18-R rule evaluation', span, f'expected result paths for {sorted(need)}, seen {sorted(kinds)}')
    ctx.rule('C18-R footer rule: fixed, daylight window start <= ts < end in either hemisphere, standard when not computable', total, good, floor=3, sample={'cases': sorted(kinds)})
    N.judge(kinds=('ARITH', 'BOUNDS', 'CAST', 'UNWRAP', 'PANIC', 'STDPRE'))


RULEDAY = 'local::transition_rule::RuleDay'
FROM_SECONDS = 'datetime::DateTime::from_seconds'
YEAR_OF = '<datetime::DateTime as shared::DateUtilities>::year'
TIMESTAMP_OF = '<datetime::DateTime as shared::DateUtilities>::timestamp'
EPOCH_SECS = 719_162 * 86_400
I32 = {'k': 'int', 's': True, 'bits': 32, 'name': 'i32'}
U32 = {'k': 'int', 's': False, 'bits': 32, 'name': 'u32'}


def rule_days(ctx, facts):
    """(D1): which day a rule denotes and how the local switch instant is built from it"""
    span = facts.bodies[RULE_TS]['span']
    total = good = 0
    for variant in (0, 1, 2):
        N = Numeric(ctx, 'default', max_disj=300, max_steps=300_000)
        I = N.I
        rec = {'fs': [], 'year': [], 'ts': [], 'ydd': [], 'wim': [], 'ymd': [], 'last': [], 'get': []}

        def recorder(key, ret, fallible=True):
            def c(I_, st, args, dty, site):
                s1, s2 = st.clone(), st.clone()
                r = ret(I_, s1, dty)
                rec[key].append((st, args, r))
                if dty.get('path') == 'std::result::Result':
                    return [(s1, ok(r)), (s2, err(I_.top(s2, dty['args'][1], 'e')))]
                if dty.get('path') == 'std::option::Option' and fallible:
                    return [(s1, some(r)), (s2, none())]
                return [(s1, r)]
            return c

        def inner(name):
            def f(I_, st, dty):
                ty = dty['args'][0] if dty.get('path') in ('std::result::Result', 'std::option::Option') else dty
                return I_.top(st, ty, name)
            return f
        I.contracts[FROM_SECONDS] = recorder('fs', inner('datetime'))
        I.contracts[YEAR_OF] = recorder('year', inner('year'))
        I.contracts[TIMESTAMP_OF] = recorder('ts', inner('unix'))
        I.contracts[YDD] = recorder('ydd', inner('days'))
        I.contracts[WIM] = recorder('wim', inner('weekdays'))
        I.contracts[YMD] = recorder('ymd', inner('doy'))
        m_last = I.find_model('core::slice::<impl [T]>::last')
        m_get = I.find_model('core::slice::<impl [T]>::get')

        def o_last(I_, st, args, dty, site):
            outs = m_last(I_, st, args, dty, site)
            rec['last'].append((st, args, outs))
            return outs

        def o_get(I_, st, args, dty, site):
            outs = m_get(I_, st, args, dty, site)
            rec['get'].append((st, args, outs))
            return outs
        I.models['core::slice::<impl [T]>::last'] = o_last
        I.models['core::slice::<impl [T]>::get'] = o_get
        I.return_partition[RULE_TS] = lambda I_, st, v: id(st)
        fields = {}

        def mk_rule(I_, st, ty, variant=variant, fields=fields):
            v = I_.top(st, ty['to'] if ty.get('k') == 'ref' else ty, 'rule day')
            v = ('e', v[1], {variant: v[2][variant]})
            fields['f'] = [x[1] for x in v[2][variant]]
            return ('r', I_.alloc(st, v))
        N.run(RULE_TS, overrides={'start@1': mk_rule}, variants=('fixed',))
        nok = 0
        for args, st0, outs in N.results.get(RULE_TS, []):
            time_v, ts_v = args[1][1], args[2][1]
            for st, rv in outs:
                if rv[0] != 'e' or 1 not in rv[2] or 0 in rv[2]:
                    continue
                nok += 1
                total += 1
                msg = None
                res = rv[2][1][0]

                def mine(lst):
                    # the calls made on this path: their fresh result values are alive in this state only
                    def vids(v):
                        if v[0] == 'i':
                            return [v[1]]
                        if v[0] in ('t', 'a'):
                            return [x for y in v[1] for x in vids(y)]
                        if v[0] == 's':
                            return [x for y in v[2] for x in vids(y)]
                        return []
                    return [r for r in lst if all(x in st.iv for x in vids(r[2])[:2])]
                tsr = [r for r in rec['ts'] if r[2] == res]
                if not tsr:
                    msg = 'the result is not the Unix timestamp of the local switch instant (DateTime::timestamp)'
                else:
                    dt2 = deref(I, tsr[-1][0], tsr[-1][1][0])
                    fs2 = [r for r in rec['fs'] if r[2] == dt2]
                    yr = mine(rec['year'])[-1] if mine(rec['year']) else None
                    fs1 = [r for r in rec['fs'] if yr is not None and r[2] == deref(I, yr[0], yr[1][0])]
                    if not fs2 or not fs1 or yr is None:
                        msg = 'the year / the final instant are not built through DateTime::from_seconds'
                    elif not D.aff_equiv(D.aff_of(fs1[-1][1][0][1]), D.aff_add(D.aff_of(ts_v), D.aff_const(EPOCH_SECS)), st=st):
                        msg = 'the year is not read from timestamp + (days to 1970) * 86400'
                    else:
                        year = yr[2][1]
                        ydd = [r for r in mine(rec['ydd']) if D.aff_equiv(D.aff_of(fs2[-1][1][0][1]), D.aff_add(D.aff_scale(D.aff_of(r[2][1]), 86_400), D.aff_of(time_v)), st=st)]
                        if not ydd:
                            msg = 'the local switch instant is not 86_400 * day + time of the rule with day from year_doy_to_days'
                        else:
                            y_, doy_, ign_ = ydd[-1][1]
                            f = fields['f']
                            if y_[1] != year:
                                msg = 'year_doy_to_days is not called with the year of the timestamp'
                            elif variant == 0 and not (doy_[1] == f[0] and D.get_iv(st, ign_[1]) == (1, 1)):
                                msg = 'Jn must be day n with 29 February not counted (year_doy_to_days(year, n, true))'
                            elif variant == 1 and not (D.aff_equiv(D.aff_of(doy_[1]), D.aff_add(D.aff_of(f[0]), D.aff_const(1)), st=st) and D.get_iv(st, ign_[1]) == (0, 0)):
                                msg = 'the zero-based day n must be day n + 1 with leap days counted (year_doy_to_days(year, n + 1, false))'
                            elif variant == 2:
                                wim = mine(rec['wim'])[-1] if mine(rec['wim']) else None
                                ymd = mine(rec['ymd'])[-1] if mine(rec['ymd']) else None
                                if wim is None or ymd is None or D.get_iv(st, ign_[1]) != (0, 0):
                                    msg = 'Mm.w.d must go through weekdays_in_month, year_month_to_doy and year_doy_to_days(.., false)'
                                elif not (wim[1][0][1] == year and wim[1][1][1] == f[0] and wim[1][2][1] == f[2] and ymd[1][0][1] == year and ymd[1][1][1] == f[0]):
                                    msg = 'weekdays_in_month / year_month_to_doy are not called with (year, m, d) / (year, m)'
                                else:
                                    start = ymd[2][1][0][1]
                                    rest = D.aff_add(D.aff_of(doy_[1]), D.aff_of(start), -1)
                                    wl, wh = D.get_iv(st, f[1])
                                    if len(rest.co) != 1 or rest.c0 != 0:
                                        msg = f'the day of year is not (days before the month) + (day of month taken from weekdays_in_month): {D.aff_of(doy_[1])} vs start {D.aff_of(start)}'
                                    elif (wl, wh) == (5, 5):
                                        # the last element: slice.last(), or element number len - 1
                                        by_index = [g for g in rec['get'] if g[1][0][0] == 'slice' and g[1][1][0] == 'i'
                                                    and D.aff_equiv(D.aff_of(g[1][1][1]), D.Aff({g[1][0][1]['len']: 1}, -1), st=st)]
                                        if not rec['last'] and not by_index:
                                            msg = 'week 5 must take the last matching weekday of the month'
                                    else:
                                        gets = [g for g in rec['get'] if g[1][1][0] == 'i' and D.aff_equiv(D.aff_of(g[1][1][1]), D.aff_add(D.aff_of(f[1]), D.aff_const(-1)), st=st)]
                                        if not gets or (wl <= 5 <= wh):
                                            msg = f'week w (here {wl}..{wh}) must take element w - 1 of weekdays_in_month'
                if msg:
                    ctx.finding(f'C18:DAY|{variant}', 'C18-D rule day', span, f'rule_to_local_timestamp for RuleDay variant {variant}: {msg}')
                else:
                    good += 1
        if nok == 0:
            total += 1
            ctx.finding(f'C18:DAY|{variant}|none', 'C18-D rule day', span, f'rule_to_local_timestamp for RuleDay variant {variant}: no Some result')
    ctx.rule('C18-D1 Jn / n / Mm.w.d denote the documented day, local instant = 86_400 * day + time', total, good, floor=3)


def leap_shift(ctx, facts):
    """(D2): year_doy_to_days(year, n, true) skips 29 February exactly from n = 60 on in leap years"""
    span = facts.bodies[YDD]['span']
    N = Numeric(ctx, 'default', max_disj=200, max_steps=200_000)
    I = N.I
    L = {}

    def c_leap(I_, st, args, dty, site):
        # the leap status of the year is fixed per run (below), whether and when the code asks for it
        return [(st.clone(), const_int(L['fixed'], 'bool'))]

    def c_leaps(I_, st, args, dty, site):
        s = st.clone()
        if 'n' not in L:
            L['n'] = D.sym_vid(0, 1_500_000, 'leap_years')
        s.iv.setdefault(L['n'], (0, 1_500_000))
        return [(s, ('i', L['n'], 'u32'))]

    def c_valid(I_, st, args, dty, site):
        from ..models import UNIT
        return [(st.clone(), ok(UNIT))]
    I.contracts['util::leap::is_leap_year'] = c_leap
    I.contracts['util::leap::leap_years'] = c_leaps
    I.contracts['util::date::validate::validate_doy'] = c_valid
    I.return_partition[YDD] = lambda I_, st, v: id(st)

    def ign(I_, st, ty):
        return const_int(1, 'bool')

    def doy(I_, st, ty):
        return I_.top(st, ty, 'n', lo=1, hi=365)
    groups = {}
    for fixed in (0, 1):
      L['fixed'] = fixed
      label = f'{YDD}[leap={fixed}]'
      N.run(YDD, label=label, overrides={'ignore_leap@3': ign, 'doy@2': doy}, variants=('fixed',))
      for args, st0, outs in N.results.get(label, []):
        year, n = args[0][1], args[1][1]
        for st, rv in outs:
            if rv[0] != 'e' or 0 not in rv[2] or 1 in rv[2]:
                continue
            r = rv[2][0][0]
            a = D.aff_of(r[1])
            leap = (fixed, fixed)
            neg = D.get_iv(st, year)[1] < 0
            groups.setdefault((neg, leap), []).append((a.co.get(n, 0), a.c0 - (366 if (neg and leap == (1, 1)) else 365 if neg else 0) * 0, D.get_iv(st, n), a))
    good = True
    why = ''
    seen_shift = False
    for (neg, leap), items in groups.items():
        cs = sorted({(c0, iv) for (_k, c0, iv, _a) in items})
        if any(k != 1 for (k, *_r) in items):
            good, why = False, 'the day number does not grow by one per day of the year'
        c0s = sorted({c for c, _ in cs})
        if leap == (1, 1):
            if len(c0s) != 2 or c0s[1] - c0s[0] != 1:
                good, why = False, f'in a leap year two shifts differing by one day are expected, constants seen {c0s}'
                continue
            lo_iv = [iv for c, iv in cs if c == c0s[0]]
            hi_iv = [iv for c, iv in cs if c == c0s[1]]
            if max(b for _a, b in lo_iv) != 59 or min(a_ for a_, _b in hi_iv) != 60:
                good, why = False, f'29 February must be skipped exactly from n = 60 on; unshifted n up to {max(b for _a, b in lo_iv)}, shifted from {min(a_ for a_, _b in hi_iv)}'
            seen_shift = True
        elif leap == (0, 0) and len(c0s) != 1:
            good, why = False, 'a common year must not shift any day'
    if not seen_shift and good:
        good, why = False, 'no leap-year path with a shift was found'
    ctx.rule('C18-D2 Jn skips 29 February exactly from n = 60 on in leap years', 1, 1 if good else 0)
    if not good:
        ctx.finding('C18:J-LEAP', 'C18-D2 leap shift', span, f'year_doy_to_days(year, n, true): {why}')


def resolve_wiring(ctx, facts):
    """Offset::Local resolves to the utoff of the lookup at the current Unix time in the zone read from the system file"""
    RES = 'offset::Offset::resolve'
    if not ctx.anchor(facts.bodies, RES, 'C18 resolve'):
        return
    N = Numeric(ctx, 'default', max_disj=100, max_steps=100_000)
    I = N.I
    I.contracts.pop(RES, None)
    rec = {'tz': [], 'look': [], 'now': [], 'ts': []}

    def rc(key, wrap=None):
        def c(I_, st, args, dty, site):
            s1, s2 = st.clone(), st.clone()
            ty = dty['args'][0] if dty.get('path') == 'std::result::Result' else dty
            r = I_.top(s1, ty, key)
            rec[key].append((st, args, r))
            if dty.get('path') == 'std::result::Result':
                return [(s1, ok(r)), (s2, err(I_.top(s2, dty['args'][1], 'e')))]
            return [(s1, r)]
        return c
    I.contracts['local::timezone::TimeZone::from_tzif'] = rc('tz')
    I.contracts[LOOKUP] = rc('look')
    I.contracts['datetime::DateTime::now'] = rc('now')
    I.contracts[TIMESTAMP_OF] = rc('ts')
    I.return_partition[RES] = lambda I_, st, v: id(st)
    N.run(RES, variants=('local',))
    good = False
    why = 'no path returns the looked-up offset'
    for args, st0, outs in N.results.get(RES, []):
        for st, rv in outs:
            if rv[0] != 'i':
                continue
            for lk in rec['look']:
                r = lk[2]
                if r[0] == 's' and r[2][0][0] == 'i' and r[2][0][1] == rv[1]:
                    tzv = deref(I, lk[0], lk[1][0])
                    tsv = lk[1][1]
                    from_file = any(t[2] == tzv for t in rec['tz'])
                    at_now = any(tsr[2] == tsv and any(deref(I, tsr[0], tsr[1][0]) == n[2] for n in rec['now']) for tsr in rec['ts'])
                    if from_file and at_now:
                        good = True
                    else:
                        why = 'the lookup is not made in the zone parsed from the file at the timestamp of DateTime::now()'
    ctx.rule('C18 Offset::Local = utoff of the lookup at now() in the zone read from the system file', 1, 1 if good else 0)
    if not good:
        ctx.finding('C18:RESOLVE', 'C18 resolve wiring', facts.bodies[RES]['span'], f'Offset::resolve: {why}')


def decoding(ctx, facts):
    """transition times and UTC offsets are decoded as signed big-endian integers (RFC 8536), version 1 times sign-extended"""
    from ..entries import install_splitter_contract, install_tz_partitions, install_cursor_contracts
    FT = 'local::timezone::TimeZone::from_tzif'
    if not ctx.anchor(facts.bodies, FT, 'C18 decoding'):
        return
    N = Numeric(ctx, 'default', max_disj=64, max_steps=400_000)
    I = N.I
    for f in (install_splitter_contract, install_tz_partitions, install_cursor_contracts):
        f(I)
    made = {}

    def wrap(tn):
        name = f'core::num::<impl {tn}>::from_be_bytes'
        m = I.find_model(name)

        def w(I_, st, args, dty, site):
            outs = m(I_, st, args, dty, site) if m else None
            if outs is None:
                s2 = st.clone()
                outs = [(s2, I_.top(s2, dty, 'be'))]
            for s2, v in outs:
                if v[0] == 'i':
                    made[v[1]] = tn
            return outs
        I.models[name] = w
    for tn in ('i32', 'i64', 'u32', 'u64', 'u16', 'i16'):
        wrap(tn)
    seen = {'t': [], 'l': []}

    def c_tr(I_, st, args, dty, site):
        seen['t'].append(made.get(args[0][1]) if args[0][0] == 'i' else None)
        s2 = st.clone()
        return [(s2, ('s', TRANSITION, (args[0], args[1]), None))]

    def c_ltt(I_, st, args, dty, site):
        seen['l'].append(made.get(args[0][1]) if args[0][0] == 'i' else None)
        s2 = st.clone()
        return [(s2, ('s', LTT, (args[0], args[1]), None))]
    I.contracts['local::timezone::Transition::new'] = c_tr
    I.contracts['local::timezone::LocalTimeType::new'] = c_ltt

    def footer(I_, st, args, dty, site):
        s1, s2 = st.clone(), st.clone()
        return [(s1, ok(I_.top(s1, dty['args'][0], 'rule'))), (s2, err(I_.top(s2, dty['args'][1], 'e')))]
    I.contracts['local::transition_rule::TransitionRule::from_tz_string'] = footer
    N.run(FT, variants=('fixed',))
    tt, lt = set(seen['t']), set(seen['l'])
    good = bool(tt) and tt <= {'i32', 'i64'} and {'i32', 'i64'} <= tt and lt == {'i32'}
    ctx.rule('C18 transition times (4 or 8 bytes) and UTC offsets are decoded as signed big-endian integers', 1, 1 if good else 0,
             sample={'transition time decoders': sorted(map(str, tt)), 'utoff decoders': sorted(map(str, lt))})
    if not good:
        ctx.finding('C18:DECODE', 'C18 decoding', facts.bodies[FT]['span'],
                    f'from_tzif: transition times must come from i32::from_be_bytes (version 1, sign-extended) / i64::from_be_bytes and offsets from i32::from_be_bytes; '
                    f'seen {sorted(map(str, tt))} and {sorted(map(str, lt))}')


WDAY = 'util::date::convert::days_to_wday'
DTDAYS = 'util::date::convert::date_to_days'


def weekday_lists(ctx, facts):
    """(D3) weekdays_in_month(year, month, w) is the ascending list of exactly the days d of the month with weekday(d) == w.
    Finite partition: month length 28..31 x (day number of the 1st) mod 7 x w; the day number of the 1st is 7 q + r with q symbolic, so
    days_to_wday (its real body) is evaluated for every week at once.  Expected weekday of day d: (r + d) mod 7 (0 = Sunday; day number 0
    is a Monday, which C02 decides for days_to_wday on all 2^32 days)."""
    if not ctx.anchor(facts.bodies, WIM, 'C18 weekday lists'):
        return
    span = facts.bodies[WIM]['span']
    I32 = {'k': 'int', 's': True, 'bits': 32, 'name': 'i32'}
    U32 = {'k': 'int', 's': False, 'bits': 32, 'name': 'u32'}
    total = good = 0
    N = Numeric(ctx, 'default', max_disj=300, max_steps=400_000)
    I = N.I
    Q = D.sym_vid(-300_000_000, 300_000_000, 'week')
    cur = {}

    def k_ymd(I_, st, args, dty, site):
        s1, s2 = st.clone(), st.clone()
        r = ('t', (I_.top(s1, U32, 'doy', lo=1, hi=366), const_int(cur['len'], 'u32')))
        return [(s1, ok(r)), (s2, err(I_.top(s2, dty['args'][1], 'e')))]

    def k_dtd(I_, st, args, dty, site):
        s1, s2 = st.clone(), st.clone()
        if not (args[2][0] == 'i' and D.get_iv(st, args[2][1]) == (1, 1)):
            cur['bad'] = 'the day number of the month is not taken from date_to_days(year, month, 1)'
        s1.iv[Q] = (-300_000_000, 300_000_000)
        y = I_.binop(s1, 'Mul', ('i', Q, 'i32'), const_int(7, 'i32'), I32, None, None)
        y = I_.binop(s1, 'Add', y, const_int(cur['r'], 'i32'), I32, None, None)
        return [(s1, ok(y)), (s2, err(I_.top(s2, dty['args'][1], 'e')))]
    I.contracts[YMD] = k_ymd
    I.contracts[DTDAYS] = k_dtd
    m_push = I.find_model('std::vec::Vec::<T, A>::push')

    def push(I_, st, args, dty, site):
        st.trace = st.trace + (('push', args[1]),)
        return m_push(I_, st, args, dty, site)
    I.models['std::vec::Vec::<T, A>::push'] = push
    m_collect = I.find_model('std::iter::Iterator::collect')

    def collect(I_, st, args, dty, site):
        # a list built by collecting a known sequence: its elements are the pushes
        from ..models import as_iter
        it = as_iter(I_, st, args[0])
        if it is not None and it[0] == 'it' and it[1] == 'seq' and site.get('fn', '').startswith(WIM):
            for e in it[2][it[3]:]:
                st.trace = st.trace + (('push', e),)
        return m_collect(I_, st, args, dty, site)
    I.models['std::iter::Iterator::collect'] = collect
    I.return_partition[WIM] = lambda I_, st, v: id(st)
    I.unroll_for[WIM] = 9
    for ln in (28, 29, 30, 31):
        for r in range(7):
            for w in range(7):
                cur.clear()
                cur.update({'len': ln, 'r': r})
                label = f'{WIM}[{ln} days, 1st = {r} mod 7, weekday {w}]'
                N.run(WIM, label=label, overrides={'weekday@3': lambda I_, st, ty, w=w: const_int(w, 'u8')}, variants=('fixed',))
                want = [d for d in range(1, ln + 1) if (r + d) % 7 == w]
                total += 1
                msg = cur.get('bad')
                nsome = 0
                for args, st0, outs in N.results.get(label, []):
                    for st, rv in outs:
                        if rv[0] != 'e' or 1 not in rv[2]:
                            continue          # None: a month or year the kernels reject
                        nsome += 1
                        got = []
                        for e in st.trace:
                            if isinstance(e, tuple) and e and e[0] == 'push':
                                v = e[1]
                                iv = D.get_iv(st, v[1]) if v[0] == 'i' else None
                                got.append(int(iv[0]) if iv is not None and iv[0] == iv[1] else None)
                        if got != want and msg is None:
                            msg = f'a month of {ln} days whose 1st has day number = {r} (mod 7), weekday {w}: the list is {got}, the calendar has {want}'
                if nsome == 0 and msg is None:
                    msg = f'a month of {ln} days, weekday {w}: no list is returned'
                if msg:
                    ctx.finding(f'C18:WEEKDAYS|{ln}|{r}|{w}', 'C18-D3 weekday lists', span, f'weekdays_in_month: {msg}')
                else:
                    good += 1
    ctx.rule('C18-D3 weekdays_in_month lists exactly the days of the month with the asked weekday, ascending (month length x first day mod 7 x weekday)',
             total, good, floor=196)
    N.judge(kinds=('ARITH', 'BOUNDS', 'CAST', 'UNWRAP', 'PANIC', 'STDPRE'), allowed_causes=())


def check(ctx):
    N0 = Numeric(ctx)
    facts = N0.facts
    for f in (LOOKUP, RULE_EVAL, LTYPE, RULE_TS):
        if not ctx.anchor(facts.bodies, f, 'C18 anchors'):
            return
    lookup_rule(ctx, facts)
    rule_eval(ctx, facts)
    rule_days(ctx, facts)
    weekday_lists(ctx, facts)
    leap_shift(ctx, facts)
    resolve_wiring(ctx, facts)
    decoding(ctx, facts)
    from ..tzparse import check_parser
    check_parser(ctx, facts)
    ctx.cov['entries'] += [LOOKUP, RULE_EVAL, RULE_TS]
    ctx.cov['trusted_base'] += ['rustc MIR of the dev profile', 'vf/models.py']
