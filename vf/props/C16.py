"""C16 -- a cron expression denotes exactly the documented value sets per field."""
import re
from .. import domain as D
from ..numeric import Numeric
from .. import roundtrip as RT
from ..models import strv_of, deref, const_int, ok, err, UNIT as UNITV

LEVEL = 'other'
EXPLANATION = ('The field table in the doc comment of CronSchedule::parse is the oracle for the per-field ranges. Decided: (T) parse_expression hands '
               'field i of the expression to parse_cron_part with the documented minimum, maximum and kind (numeric / month names / weekday names) and '
               'puts the five results in the schedule in that order, after requiring exactly five fields; (I) for each of the five parameter sets, '
               'parse_cron_part is analysed on exact symbolic items -- `*`, `*/s`, `a`, `a-b` with symbolic numbers of 1..3 digits, every month and '
               'weekday name in mixed case, the weekday 7, two-item lists, and malformed items (empty, stray character, third range part, bare `/`): '
               'the set operations performed on each accepting path are exactly those of the documented meaning (all of min..=max; min..=max stepping '
               'by s from the minimum; the single value; the values a..=b, weekdays reduced modulo 7), the accepted numbers are exactly those inside '
               'the range (a <= b for ranges, s >= 1 for steps), names map to their number, and every malformed item ends in an error. Not decided: '
               'splitting the expression at whitespace (std), the HashSet itself.')
META = {
    'technique': 'static analysis: abstract interpretation of parse_cron_part on exact symbolic item texts (digits of symbolic numbers, literal names), '
                 'recording the set operations per path; constants of parse_expression against the documented field table',
    'note': 'trusted: rustc MIR, vf/models.py, vf/roundtrip.py (exact string operations); std HashSet / split_whitespace semantics',
}

PARSE = 'cron::CronSchedule::parse'
EXPR = 'cron::parse_expression'
PART = 'cron::parse_cron_part'
CPT = 'cron::CronPartType'
MONTHS = ['jan', 'feb', 'mar', 'apr', 'may', 'jun', 'jul', 'aug', 'sep', 'oct', 'nov', 'dec']
WDAYS = ['sun', 'mon', 'tue', 'wed', 'thu', 'fri', 'sat']
U8 = {'k': 'int', 's': False, 'bits': 8, 'name': 'u8'}


def doc_table(doc):
    rows = []
    for line in doc.splitlines():
        line = line.strip()
        if not line.startswith('|'):
            continue
        cells = [c.strip() for c in line.strip('|').split('|')]
        if len(cells) != 2 or cells[0] in ('Field',) or set(cells[0]) <= set('- '):
            continue
        m = re.match(r'(\d+)-(\d+)', cells[1])
        if m:
            rows.append((cells[0], int(m.group(1)), int(m.group(2)), 'Jan-Dec' in cells[1], 'Sun-Sat' in cells[1]))
    return rows


def table_rule(ctx, facts):
    """(T): constants and order of the five parse_cron_part calls in parse_expression"""
    rows = doc_table(facts.bodies[PARSE].get('docs') or '')
    ctx.rule('C16-T documented field table parsed', len(rows), len(rows), floor=5)
    N = Numeric(ctx, 'default', max_disj=100, max_steps=100_000)
    I = N.I
    calls = []

    idxmap = {}
    m_index = I.find_model('<std::vec::Vec<T, A> as std::ops::Index<I>>::index')

    def vindex(I_, st, args, dty, site):
        outs = m_index(I_, st, args, dty, site)
        iv = D.get_iv(st, args[1][1]) if args[1][0] == 'i' else None
        for s2, v in outs or ():
            sv = strv_of(I_, s2, v)
            if sv is not None and iv is not None and iv[0] == iv[1]:
                idxmap[sv.ident] = int(iv[0])
        return outs
    I.models['<std::vec::Vec<T, A> as std::ops::Index<I>>::index'] = vindex

    def part(I_, st, args, dty, site):
        mn, mx = D.get_iv(st, args[1][1]), D.get_iv(st, args[2][1])
        ty = deref(I_, st, args[3])
        s1, s2 = st.clone(), st.clone()
        r = I_.top(s1, dty['args'][0], f'set{len(calls)}')
        fsv = strv_of(I_, st, args[0])
        calls.append((mn, mx, sorted(ty[2]) if ty and ty[0] == 'e' else None, r, idxmap.get(fsv.ident) if fsv is not None else None))
        return [(s1, ok(r)), (s2, err(I_.top(s2, dty['args'][1], 'msg')))]
    I.contracts[PART] = part
    I.return_partition[EXPR] = lambda I_, st, v: id(st)
    N.run(EXPR, variants=('fixed',))
    want = []
    for name, lo, hi, months, wdays in rows:
        kind = 1 if months else 2 if wdays else 0
        want.append(((lo, lo), (hi if not wdays else 6,) * 2, [kind]))
    got = [(c[0], c[1], c[2]) for c in calls[:5]]
    good = len(calls) >= 5 and got == want and [c[4] for c in calls[:5]] == [0, 1, 2, 3, 4]
    # the Ok result carries the five sets in order
    order_ok = False
    for args, st0, outs in N.results.get(EXPR, []):
        for st, rv in outs:
            if rv[0] == 'e' and 0 in rv[2] and 1 not in rv[2]:
                tup = rv[2][0][0]
                if tup[0] == 't' and len(tup[1]) == 5:
                    sets = [c[3] for c in calls]
                    # each element is the result of the i-th call on this path (calls are recorded per path prefix: take the last five)
                    order_ok = all(any(tup[1][i] == c[3] for c in calls if (c[0], c[1], c[2]) == want[i]) for i in range(5))
    ctx.rule('C16-T parse_expression uses the documented range and kind for each field, in order', 5, 5 if (good and order_ok) else 0,
             sample={'documented': [(r[0], r[1], r[2]) for r in rows], 'calls': [(c[0][0], c[1][0], c[2]) for c in calls[:5]]})
    if not (good and order_ok):
        ctx.finding('C16:TABLE', 'C16-T field table', facts.bodies[EXPR]['span'],
                    f'parse_expression: the parse_cron_part calls {[(c[4], c[0][0], c[1][0], c[2]) for c in calls[:5]]} (field index, min, max, kind) do not match the documented table '
                    f'{[(r[0], r[1], r[2]) for r in rows]} in order, or the results are not returned in that order')
    # exactly five fields
    body = facts.bodies[EXPR]
    five = any(s['s'] == 'assign' and s['rv']['r'] == 'bin' and s['rv']['op'] in ('Ne', 'Eq') and
               any(o.get('o') == 'const' and o['const'].get('v') == '5' for o in (s['rv']['a'], s['rv']['b']))
               for blk in body['blocks'] for s in blk['stmts'])
    ctx.rule('C16-T exactly five fields are required', 1, 1 if five else 0)
    if not five:
        ctx.finding('C16:FIVE', 'C16-T field count', body['span'], 'parse_expression does not compare the number of fields with 5')
    # CronSchedule::parse puts the sets into the schedule fields in order
    N2 = Numeric(ctx, 'default', max_disj=50, max_steps=50_000)
    tagged = {}

    def expr(I_, st, args, dty, site):
        s1, s2 = st.clone(), st.clone()
        t = I_.top(s1, dty['args'][0], 'fields')
        tagged['t'] = t
        return [(s1, ok(t)), (s2, err(I_.top(s2, dty['args'][1], 'e')))]
    N2.I.contracts[EXPR] = expr
    N2.run(PARSE, variants=('fixed',))
    adt = facts.adts.get('cron::CronSchedule')
    names = [f['name'] for f in adt['variants'][0]['fields']] if adt else []
    want_names = ['minutes', 'hours', 'days_of_month', 'months', 'days_of_week']
    good2 = False
    for args, st0, outs in N2.results.get(PARSE, []):
        for st, rv in outs:
            if rv[0] == 'e' and 0 in rv[2] and 1 not in rv[2] and 't' in tagged:
                val = rv[2][0][0]
                t = tagged['t']
                if val[0] == 's' and t[0] == 't' and all(n in names for n in want_names):
                    good2 = all(val[2][names.index(n)] == t[1][i] for i, n in enumerate(want_names))
    ctx.rule('C16-T CronSchedule::parse stores field i of the expression as minutes, hours, days_of_month, months, days_of_week', 1, 1 if good2 else 0)
    if not good2:
        ctx.finding('C16:STORE', 'C16-T schedule fields', facts.bodies[PARSE]['span'], 'CronSchedule::parse does not store the five parsed sets in the schedule fields in the documented order')
    N.judge(kinds=('ARITH', 'BOUNDS', 'CAST', 'UNWRAP', 'PANIC', 'STDPRE'), allowed_causes=())
    return [(r[1], r[2] if not r[4] else 6, 1 if r[3] else 2 if r[4] else 0, r[0]) for r in rows]


class Items:
    def __init__(self, ctx):
        self.N = Numeric(ctx, 'default', max_disj=600, max_steps=2_000_000)
        self.I = I = self.N.I
        RT.install(I)
        RT.install_exact_strings(I)
        I.return_partition[PART] = lambda I_, st, v: id(st)
        I.return_partition['cron::parse_value'] = lambda I_, st, v: id(st)
        I.return_partition['cron::parse_range_value'] = lambda I_, st, v: id(st)
        I.unroll_for[PART] = 8
        m_step = I.models.get('std::iter::Iterator::step_by')
        m_map = I.models.get('std::iter::Iterator::map')

        def step_by(I_, st, args, dty, site):
            m_step(I_, st, args, dty, site)      # records the step >= 1 obligation
            return [(st, ('it', 'stepby', args[0], args[1]))]

        def map_(I_, st, args, dty, site):
            if args[0][0] == 's' and args[0][1] == 'std::ops::RangeInclusive':
                return [(st, ('it', 'mapped', args[0], args[1]))]
            return m_map(I_, st, args, dty, site)
        I.models['std::iter::Iterator::step_by'] = step_by
        I.models['std::iter::Iterator::map'] = map_

        def extend(I_, st, args, dty, site):
            e = args[1]
            classes = None
            if e[0] == 'it' and e[1] == 'mapped':
                # evaluate the element mapping now, while the closure's captures are alive: identity / modulo 7 / other
                s3 = st.clone()
                x = I_.top(s3, U8, 'elem', lo=0, hi=255)
                classes = set()
                for s4, y in I_.call_closure(s3, e[3], [x], site) or []:
                    if y[0] != 'i':
                        classes.add('other')
                    elif y[1] == x[1]:
                        classes.add('id')
                    else:
                        q, r = D.divmod_vids(s4, x[1], 7)
                        classes.add('mod7' if (y[1] == r or D.aff_equiv(D.aff_of(y[1]), D.aff_of(r), st=s4)) else 'other')
            st.trace = st.trace + (('extend', e, frozenset(classes) if classes is not None else None),)
            return [(st, UNITV)]

        def insert(I_, st, args, dty, site):
            st.trace = st.trace + (('insert', args[1]),)
            return [(st, I_.top(st, {'k': 'bool'}, 'inserted'))]
        I.models['<std::collections::HashSet<T, S, A> as std::iter::Extend<T>>::extend'] = extend
        I.models['std::collections::HashSet::<T, S, A>::insert'] = insert

    def run(self, chars_builder, mn, mx, kind):
        """chars_builder(I, st) -> [(state, XText)]; returns [(state, result value)]"""
        I = self.I

        def build(I_, st0):
            cfgs = []
            for s, xt in chars_builder(I_, st0):
                sv = RT.new_string(I_, s, xt)
                cell = I_.alloc(s, ('e', CPT, {kind: ()}))
                cfgs.append((s, [('str', sv), const_int(mn, 'u8'), const_int(mx, 'u8'), ('r', cell)]))
            return cfgs
        return I.run_entry(PART, build, label=PART)


def lit(text):
    return [('c', ch) for ch in text]


def num_states(I, st, name, lo=0, hi=255):
    """sub-states with a symbolic number of 1, 2 or 3 digits (no leading zeros): [(state, vid, chars)]"""
    outs = []
    v = D.sym_vid(lo, hi, name)
    for d, (a, b) in ((1, (0, 9)), (2, (10, 99)), (3, (100, 999))):
        a2, b2 = max(a, lo), min(b, hi)
        if a2 > b2:
            continue
        s = st.clone()
        s.iv[v] = (a2, b2)
        outs.append((s, v, d))
    return outs


def events(st):
    return [e for e in st.trace if isinstance(e, tuple) and e and e[0] in ('extend', 'insert')]


def is_ok(rv):
    return rv[0] == 'e' and 0 in rv[2] and 1 not in rv[2]


def is_err(rv):
    return rv[0] == 'e' and 1 in rv[2] and 0 not in rv[2]


def range_of(I, st, v):
    """(start interval, end interval) of a RangeInclusive value"""
    if v[0] == 's' and v[1] == 'std::ops::RangeInclusive' and v[2][0][0] == 'i' and v[2][1][0] == 'i':
        return v[2][0][1], v[2][1][1]
    return None


def check_items(ctx, facts, params):
    IT = Items(ctx)
    I = IT.I
    span = facts.bodies[PART]['span']

    def report(key, msg):
        ctx.finding(f'C16:ITEM|{key}', 'C16-I item semantics', span, msg)

    for mn, mx, kind, fname in params:
        tag = fname
        dow = kind == 2
        # ---- '*'
        res = IT.run(lambda I_, st: [(st.clone(), RT.XText(lit('*'), {}, False))], mn, mx, kind)
        good = bool(res)
        for st, rv in res:
            ev = events(st)
            r = range_of(I, st, ev[0][1]) if len(ev) == 1 and ev[0][0] == 'extend' else None
            if not is_ok(rv) or r is None or D.get_iv(st, r[0]) != (mn, mn) or D.get_iv(st, r[1]) != (mx, mx):
                good = False
        ctx.rule('C16-I `*` denotes min..=max', 1, 1 if good else 0, sample={'field': tag})
        if not good:
            report(f'{tag}|star', f'{tag}: `*` does not denote exactly {mn}..={mx}')
        # ---- '*/s'
        def b_step(I_, st):
            return [(s, RT.XText(lit('*/') + [('d', 0, k) for k in range(d)], {0: (v, d)}, False)) for s, v, d in num_states(I_, st, 'step')]
        res = IT.run(b_step, mn, mx, kind)
        good = bool(res)
        okiv = []
        why = ''
        for st, rv in res:
            ev = events(st)
            sv = [x for x in st.iv if D.NAME.get(x) == 'step']
            if is_ok(rv):
                e = ev[0][1] if len(ev) == 1 and ev[0][0] == 'extend' else None
                if e is None or e[0] != 'it' or e[1] != 'stepby' or range_of(I, st, e[2]) is None:
                    good, why = False, 'an accepted step does not extend the set by (min..=max).step_by(step)'
                    continue
                r = range_of(I, st, e[2])
                stepv = e[3]
                if D.get_iv(st, r[0]) != (mn, mn) or D.get_iv(st, r[1]) != (mx, mx) or not sv or not D.aff_equiv(D.aff_of(stepv[1]), D.aff_of(sv[0]), st=st):
                    good, why = False, 'the stepped range is not min..=max by the written step'
                okiv.append(D.get_iv(st, sv[0]))
            elif not is_err(rv):
                good, why = False, 'indefinite result'
        lo = min((a for a, b in okiv), default=None)
        hi = max((b for a, b in okiv), default=None)
        if good and (lo != 1 or hi != 255):
            good, why = False, f'steps {lo}..{hi} are accepted, expected every step 1..=255 (0 is rejected)'
        ctx.rule('C16-I `*/s` denotes min, min+s, .. and rejects s = 0', 1, 1 if good else 0, sample={'field': tag})
        if not good:
            report(f'{tag}|step', f'{tag}: `*/s`: {why}')
        # ---- single value 'a'
        def b_single(I_, st):
            return [(s, RT.XText([('d', 0, k) for k in range(d)], {0: (v, d)}, False)) for s, v, d in num_states(I_, st, 'a')]
        res = IT.run(b_single, mn, mx, kind)
        good, why = bool(res), ''
        acc = []
        for st, rv in res:
            avs = [x for x in st.iv if D.NAME.get(x) == 'a']
            if not avs:
                good, why = False, 'the analysis lost track of the written number'
                continue
            av = avs[0]
            if is_ok(rv):
                ev = events(st)
                if len(ev) != 1 or ev[0][0] != 'insert' or ev[0][1][0] != 'i':
                    good, why = False, 'an accepted value is not inserted as one value'
                    continue
                ins = ev[0][1][1]
                a_iv = D.get_iv(st, av)
                if dow and a_iv == (7, 7):
                    if D.get_iv(st, ins) != (0, 0):
                        good, why = False, '7 does not denote Sunday (0)'
                elif not D.aff_equiv(D.aff_of(ins), D.aff_of(av), st=st):
                    good, why = False, 'the inserted value is not the written number'
                acc.append(a_iv)
            elif not is_err(rv):
                good, why = False, 'indefinite result'
        want = {(mn, mx)} if not dow else {(mn, mx), (7, 7)}
        cover = sorted(acc)
        merged = []
        for a, b in cover:
            if merged and a <= merged[-1][1] + 1:
                merged[-1] = (merged[-1][0], max(merged[-1][1], b))
            else:
                merged.append((a, b))
        exp = [(mn, 7)] if dow else [(mn, mx)]
        if good and merged != exp:
            good, why = False, f'the accepted single values are {merged}, documented {exp}'
        ctx.rule('C16-I a single number denotes itself, exactly the documented range is accepted', 1, 1 if good else 0, sample={'field': tag})
        if not good:
            report(f'{tag}|single', f'{tag}: single value: {why}')
        # ---- range 'a-b'
        def b_range(I_, st):
            outs = []
            for s, va, da in num_states(I_, st, 'a'):
                for s2, vb, db in num_states(I_, s, 'b'):
                    outs.append((s2, RT.XText([('d', 0, k) for k in range(da)] + lit('-') + [('d', 1, k) for k in range(db)], {0: (va, da), 1: (vb, db)}, False)))
            return outs
        res = IT.run(b_range, mn, mx, kind)
        good, why = bool(res), ''
        top = 7 if dow else mx
        seen_ok = False
        for st, rv in res:
            avs = [x for x in st.iv if D.NAME.get(x) == 'a']
            bvs = [x for x in st.iv if D.NAME.get(x) == 'b']
            if not avs or not bvs:
                good, why = False, 'the analysis lost track of the written numbers'
                continue
            av, bv = avs[0], bvs[0]
            (al, ah), (bl, bh) = D.get_iv(st, av), D.get_iv(st, bv)
            if is_ok(rv):
                seen_ok = True
                ev = events(st)
                e = ev[0][1] if len(ev) == 1 and ev[0][0] == 'extend' else None
                rng = None
                clo = None
                if e is not None and e[0] == 'it' and e[1] == 'mapped':
                    rng, clo = range_of(I, st, e[2]), e[3]
                elif e is not None:
                    rng = range_of(I, st, e)
                if rng is None:
                    good, why = False, 'an accepted range does not extend the set by a..=b'
                    continue
                if not (D.aff_equiv(D.aff_of(rng[0]), D.aff_of(av), st=st) and D.aff_equiv(D.aff_of(rng[1]), D.aff_of(bv), st=st)):
                    if not (dow and ((al, ah) == (7, 7) or (bl, bh) == (7, 7))):
                        good, why = False, 'the range put into the set is not the written a..=b'
                        continue
                # the element mapping: identity, or modulo 7 for weekdays
                classes = ev[0][2] if len(ev[0]) > 2 else None
                if clo is not None:
                    want_cls = frozenset(['mod7']) if dow else frozenset(['id'])
                    if classes != want_cls:
                        good, why = False, 'the values of a range are not ' + ('reduced modulo 7' if dow else 'taken as they are')
                elif dow and bh >= 7:
                    good, why = False, 'a weekday range that reaches 7 is not reduced modulo 7'
                if D.rel_get(st, av, bv) - frozenset('<='):
                    good, why = False, 'a range with a > b is accepted'
                if al < mn or bh > top:
                    good, why = False, f'a range reaching outside {mn}..={top} is accepted ({al}..{ah} - {bl}..{bh})'
            elif is_err(rv):
                # rejected: must violate a <= b, a >= min or b <= top on the whole path
                inside = al >= mn and bh <= top and not (D.rel_get(st, av, bv) - frozenset('<='))
                if inside:
                    good, why = False, f'a range inside {mn}..={top} with a <= b is rejected (a in {al}..{ah}, b in {bl}..{bh})'
            else:
                good, why = False, 'indefinite result'
        if not seen_ok:
            good, why = False, 'no range is accepted'
        ctx.rule('C16-I `a-b` denotes a..=b (weekdays modulo 7), accepted exactly when min <= a <= b <= max', 1, 1 if good else 0, sample={'field': tag})
        if not good:
            report(f'{tag}|range', f'{tag}: range: {why}')
        # ---- names
        names = MONTHS if kind == 1 else WDAYS if kind == 2 else []
        for idx, nm in enumerate(names):
            mixed = nm[0].upper() + nm[1] + nm[2].upper()
            res = IT.run(lambda I_, st, mixed=mixed: [(st.clone(), RT.XText(lit(mixed), {}, False))], mn, mx, kind)
            want = idx + 1 if kind == 1 else idx
            good = bool(res)
            for st, rv in res:
                ev = events(st)
                if not is_ok(rv) or len(ev) != 1 or ev[0][0] != 'insert' or ev[0][1][0] != 'i' or D.get_iv(st, ev[0][1][1]) != (want, want):
                    good = False
            ctx.rule('C16-I a month / weekday name denotes its number, in any case', 1, 1 if good else 0, sample={'field': tag, 'name': mixed})
            if not good:
                report(f'{tag}|name|{nm}', f'{tag}: the name {mixed!r} does not denote {want}')
        if kind == 0:
            res = IT.run(lambda I_, st: [(st.clone(), RT.XText(lit('Jan'), {}, False))], mn, mx, kind)
            good = bool(res) and all(is_err(rv) for st, rv in res)
            ctx.rule('C16-I names are rejected in numeric fields', 1, 1 if good else 0, sample={'field': tag})
            if not good:
                report(f'{tag}|name-in-numeric', f'{tag}: a name is accepted in a numeric field')
        # ---- lists: the items are independent, the set is their union
        one = str(mn + 1)
        two = str(mx)
        res = IT.run(lambda I_, st: [(st.clone(), RT.XText(lit(one + ',' + two), {}, False))], mn, mx, kind)
        good = bool(res)
        for st, rv in res:
            ev = events(st)
            vals = [D.get_iv(st, e[1][1]) for e in ev if e[0] == 'insert' and e[1][0] == 'i']
            if not is_ok(rv) or vals != [(mn + 1, mn + 1), (mx, mx)]:
                good = False
        ctx.rule('C16-I a comma list denotes the union of its items', 1, 1 if good else 0, sample={'field': tag, 'list': one + ',' + two})
        if not good:
            report(f'{tag}|list', f'{tag}: the list {one},{two} does not insert both values')
        # ---- malformed items are rejected
        for bad in ['', ',', one + ',', '*/', '/', one + '-', '-' + one, one + '-' + two + '-' + two, one + '/2', '*/0', '*' + one, one + '*', one + ' ', '*/x', '*/-1', '*/+2', '+' + one]:
            res = IT.run(lambda I_, st, bad=bad: [(st.clone(), RT.XText(lit(bad), {}, False))], mn, mx, kind)
            good = bool(res) and all(is_err(rv) for st, rv in res)
            ctx.rule('C16-I malformed items are rejected', 1, 1 if good else 0, sample={'field': tag, 'item': bad})
            if not good:
                report(f'{tag}|bad|{bad}', f'{tag}: the malformed field {bad!r} is not rejected on every path')
    IT.N.judge(kinds=('ARITH', 'BOUNDS', 'CAST', 'UNWRAP', 'PANIC', 'STDPRE'), allowed_causes=())
    ctx.cov['trusted_base'] += ['vf/models.py rows: ' + ', '.join(sorted(I.models_used))[:600]]


def whitespace_rule(ctx, facts):
    """fields are separated by any run of whitespace: parse_expression on exact expressions with tabs, double and outer blanks"""
    span = facts.bodies[EXPR]['span']
    total = good = 0
    for text, want in (('1 2 3 4 5', ['1', '2', '3', '4', '5']), ('1  2\t3 \t 4 5', ['1', '2', '3', '4', '5']), (' 1 2 3 4 5 ', ['1', '2', '3', '4', '5']),
                       ('1 2 3 4', None), ('1 2 3 4 5 6', None), ('', None)):
        N = Numeric(ctx, 'default', max_disj=100, max_steps=100_000)
        I = N.I
        RT.install(I)
        RT.install_exact_strings(I)
        got = []

        def part(I_, st, args, dty, site, got=got):
            sv = strv_of(I_, st, args[0])
            xt = I_.xtext.get(sv.ident) if sv is not None else None
            got.append(RT._text_of(xt) if xt is not None else None)
            s1 = st.clone()
            return [(s1, ok(I_.top(s1, dty['args'][0], 'set')))]
        I.contracts[PART] = part

        def expr(I_, st, ty, text=text):
            return ('str', RT.new_string(I_, st, RT.XText(lit(text), {}, False)))
        I.return_partition[EXPR] = lambda I_, st, v: id(st)
        N.run(EXPR, overrides={'expression@1': expr}, variants=('fixed',))
        res = [rv for _a, _s, outs in N.results.get(EXPR, []) for _st, rv in outs]
        total += 1
        if want is None:
            okk = bool(res) and all(is_err(rv) for rv in res) and not got
            what = 'must be rejected (not five fields)'
        else:
            okk = bool(res) and all(is_ok(rv) for rv in res) and got == want
            what = f'must be split into the fields {want}'
        if okk:
            good += 1
        else:
            ctx.finding(f'C16:FIELDS|{text!r}', 'C16-T whitespace separated fields', span, f'parse_expression({text!r}) {what}; fields handed on: {got}, results: {["Ok" if is_ok(r) else "Err" if is_err(r) else "?" for r in res]}')
    ctx.rule('C16-T five fields separated by runs of whitespace', total, good, floor=6)


def check(ctx):
    N0 = Numeric(ctx)
    facts = N0.facts
    for f in (PARSE, EXPR, PART):
        if not ctx.anchor(facts.bodies, f, 'C16 anchors'):
            return
    params = table_rule(ctx, facts)
    whitespace_rule(ctx, facts)
    if len(params) == 5:
        check_items(ctx, facts, params)
    ctx.cov['entries'] += [EXPR, PART]
    ctx.cov['trusted_base'] += ['rustc MIR of the dev profile', 'vf/roundtrip.py exact string operations']
