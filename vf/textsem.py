"""Symbolic text of the formatter (used by C11, C13, C20): the calendar/clock kernels are replaced by value-partitioned
summaries, `format_part` is analysed once per pattern run, and every output disjunct is a list of text segments
(models.m_format) that is compared with the documented symbol table.

Environment of one output disjunct (read from its abstract state):
  Y sign, month M, weekday WD0 (Sunday first) / WD1 (Monday first), hour h  -- constants (value partitioning)
  D, DOY, W, m, s, days, nanoseconds, offset                                   -- ranges / symbols
"""
import re
from . import domain as D
from .models import strv_of, ok, const_int

MONTH_WIDE = ['January', 'February', 'March', 'April', 'May', 'June', 'July', 'August', 'September', 'October', 'November', 'December']
WDAY_WIDE = ['Sunday', 'Monday', 'Tuesday', 'Wednesday', 'Thursday', 'Friday', 'Saturday']

K_DTD = 'util::date::convert::days_to_date'
K_DOY = 'util::date::convert::days_to_doy'
K_WYEAR = 'util::date::convert::days_to_wyear'
K_WDAY = 'util::date::convert::days_to_wday'
K_NTT = 'util::time::convert::nanos_to_time'
MAX_YEAR = 5_879_611


class Kernels:
    """value-partitioned summaries of the kernels; symbols are cached per argument so that repeated calls agree"""

    def __init__(self, I, year_range=None):
        self.I = I
        self.syms = {}
        self.year_range = year_range
        I.contracts[K_DTD] = self.dtd
        I.contracts[K_DOY] = self.doy
        I.contracts[K_WYEAR] = self.wyear
        I.contracts[K_WDAY] = self.wday
        I.contracts[K_NTT] = self.ntt

    def sym(self, key, lo, hi, name):
        v = self.syms.get(key)
        if v is None:
            v = D.sym_vid(lo, hi, name)
            self.syms[key] = v
        return v

    def _narrow(self, st, v, lo, hi):
        cl, ch = D.get_iv(st, v)
        lo, hi = max(lo, cl), min(hi, ch)
        if lo > hi:
            return False
        D.set_iv(st, v, lo, hi)
        return True

    def dtd(self, I, st, args, dty, site):
        if args[0][0] != 'i':
            return None
        a = args[0][1]
        y = self.sym(('Y', a), -MAX_YEAR, MAX_YEAR, 'year')
        m = self.sym(('M', a), 1, 12, 'month')
        d = self.sym(('D', a), 1, 31, 'day')
        outs = []
        yr = self.year_range
        for (ylo, yhi) in ([yr] if yr else [(-MAX_YEAR, -1), (1, MAX_YEAR)]):
            for mm in range(1, 13):
                s = st.clone()
                for v, lo, hi in ((y, -MAX_YEAR, MAX_YEAR), (m, 1, 12), (d, 1, 31)):
                    if v not in s.iv:
                        s.iv[v] = (lo, hi)
                if not self._narrow(s, y, ylo, yhi) or not self._narrow(s, m, mm, mm):
                    continue
                outs.append((s, ('t', (('i', y, 'i32'), ('i', m, 'u32'), ('i', d, 'u32')))))
        return outs

    def _one(self, st, key, lo, hi, name, ty):
        v = self.sym(key, lo, hi, name)
        s = st.clone()
        if v not in s.iv:
            s.iv[v] = (lo, hi)
        return [(s, ('i', v, ty))]

    def doy(self, I, st, args, dty, site):
        return self._one(st, ('DOY', args[0][1]), 1, 366, 'day_of_year', 'u32') if args[0][0] == 'i' else None

    def wyear(self, I, st, args, dty, site):
        return self._one(st, ('W', args[0][1]), 1, 53, 'week_of_year', 'u32') if args[0][0] == 'i' else None

    def wday(self, I, st, args, dty, site):
        if args[0][0] != 'i' or args[1][0] != 'i':
            return None
        f = D.get_iv(st, args[1][1])
        if f[0] != f[1]:
            return None
        v = self.sym(('WD', args[0][1], int(f[0])), 0, 6, 'weekday_monday_first' if f[0] else 'weekday_sunday_first')
        outs = []
        for w in range(7):
            s = st.clone()
            if v not in s.iv:
                s.iv[v] = (0, 6)
            if self._narrow(s, v, w, w):
                outs.append((s, ('i', v, 'u32')))
        return outs

    def ntt(self, I, st, args, dty, site):
        if args[0][0] != 'i':
            return None
        a = args[0][1]
        h = self.sym(('h', a), 0, 23, 'hour')
        m = self.sym(('m', a), 0, 59, 'minute')
        sec = self.sym(('s', a), 0, 59, 'second')
        outs = []
        for hh in range(24):
            s = st.clone()
            for v, lo, hi in ((h, 0, 23), (m, 0, 59), (sec, 0, 59)):
                if v not in s.iv:
                    s.iv[v] = (lo, hi)
            if self._narrow(s, h, hh, hh):
                outs.append((s, ('t', (('i', h, 'u32'), ('i', m, 'u32'), ('i', sec, 'u32')))))
        return outs

    def const_of(self, st, kind, arg=None):
        """constant value of a partitioned symbol in state st (None when the kernel was not consulted / not constant)"""
        for key, v in self.syms.items():
            if key[0] == kind and (arg is None or key[1:] == arg) and v in st.iv:
                lo, hi = D.get_iv(st, v)
                if lo == hi:
                    return int(lo)
        return None

    def sym_of(self, kind, extra=()):
        for key, v in self.syms.items():
            if key[0] == kind and key[2:] == tuple(extra):
                return v
        return None


# ----------------------------------------------------------------------------------------------------------------
def pieces_of(I, st, rv):
    """segments of a returned String / &str value in state st: list of ('lit', text) | ('zp'|'num', vid, width) | ('opq',)
    a literal piece with several possible texts (not a single path) is ('lits', frozenset)"""
    sv = strv_of(I, st, rv)
    if sv is None:
        return [('opq',)]
    sg = I.seg.get(sv.ident)
    if sg is None:
        if sv.lits is not None:
            sg = (('lit', frozenset(sv.lits)),)
        else:
            return [('opq',)]
    out = []
    for p in sg:
        if p[0] == 'lit':
            if len(p[1]) == 1:
                t = next(iter(p[1]))
                if out and out[-1][0] == 'lit':
                    out[-1] = ('lit', out[-1][1] + t)
                elif t != '':
                    out.append(('lit', t))
            else:
                out.append(('lits', p[1]))
        elif p[0] == 'zp':
            out.append(('zp', p[1], p[2]))
        elif p[0] == 'num':
            out.append(('num', p[1], 1))
        else:
            out.append(('opq',))
    return out


def match_example(st, pieces, text):
    """can the segment list produce exactly `text`?  (digits of a zero-padded number: as many as the width, more only
    without a leading zero; the value must lie in the number's range)"""
    def rec(i, pos):
        if i == len(pieces):
            return pos == len(text)
        p = pieces[i]
        if p[0] == 'lit':
            return text.startswith(p[1], pos) and rec(i + 1, pos + len(p[1]))
        if p[0] == 'lits':
            return any(text.startswith(t, pos) and rec(i + 1, pos + len(t)) for t in p[1])
        if p[0] in ('zp', 'num'):
            lo, hi = D.get_iv(st, p[1])
            w = p[2] if isinstance(p[2], int) else 1
            j = pos
            while j < len(text) and text[j].isdigit():
                j += 1
                ds = text[pos:j]
                n = int(ds)
                if len(ds) == max(w, len(str(n))) and lo <= n <= hi and rec(i + 1, j):
                    return True
            return False
        return False
    return rec(0, 0)


def render_shape(st, pieces):
    out = []
    for p in pieces:
        if p[0] == 'lit':
            out.append(repr(p[1]))
        elif p[0] == 'lits':
            out.append('{' + '|'.join(sorted(p[1])) + '}')
        elif p[0] in ('zp', 'num'):
            lo, hi = D.get_iv(st, p[1])
            out.append(f'{p[0]}{p[2]}[{lo}..{hi}]')
        else:
            out.append('?')
    return ' '.join(out) if out else "''"


def shape_key(st, pieces):
    """comparable shape of a disjunct (for the default-row rule): kinds, widths, literal texts, value ranges"""
    out = []
    for p in pieces:
        if p[0] in ('zp', 'num'):
            out.append((p[0], p[2], D.get_iv(st, p[1])))
        else:
            out.append(p)
    return tuple(out)


# ----------------------------------------------------------------------------------------------------------------
def parse_doc_table(doc):
    """rows of the Markdown symbol table: [(field, [patterns], [examples], hint, unlimited)]"""
    rows = []
    field = None
    for line in doc.splitlines():
        line = line.strip()
        if not line.startswith('|'):
            continue
        cells = [c.strip() for c in line.strip('|').split('|')]
        if len(cells) < 4 or cells[1] in ('Pattern',) or set(cells[1]) <= set('- '):
            continue
        if cells[0]:
            field = cells[0].replace('<br/>', ' ')
        pat = cells[1]
        unlimited = pat.endswith('+')
        pat = pat.rstrip('+')
        if '..' in pat:
            a, b = pat.split('..')
            pats = [a[0] * k for k in range(len(a), len(b) + 1)]
        else:
            pats = [pat]
        ex = [e.strip() for e in re.split(r',|<br/>', cells[2]) if e.strip() and e.strip() != '...']
        rows.append((field, pats, ex, cells[3].replace('<br/>', ' '), unlimited))
    return rows


def ordinal(n):
    if (n - 1) % 10 == 0 and n != 11:
        return f'{n}st'
    if (n - 2) % 10 == 0 and n != 12:
        return f'{n}nd'
    if (n - 3) % 10 == 0 and n != 13:
        return f'{n}rd'
    return f'{n}th'
