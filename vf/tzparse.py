"""C18-P: what the TZif reader makes of the bytes -- the POSIX TZ footer grammar and the layout of the data block.

The lookup rules of C18 start from a parsed TimeZone; these rules decide that the parser builds the value RFC 8536 / POSIX describe:
  (P1) parse_hms: [+|-]hh[:mm[:ss]] -- direction -1 exactly after '-', the numbers in reading order, absent fields 0;
  (P2) parse_tz_string_offset(_extended): the result is direction * (3600 h + 60 m + s) and the accepted fields include every
       h in 0..=24 (-167..=167 extended), m, s in 0..=59;
  (P3) parse_tz_string_rule: Jn with n exactly 1..=365, n exactly 0..=365, Mm.w.d exactly 1..=12 / 1..=5 / 0..=6 in reading order,
       chosen by the first byte; the time is 02:00:00 unless '/' follows, then the (extended, for version 3) offset parser's value;
  (P4) from_tz_string: utoff = -(std offset); daylight utoff = -(dst offset), one hour ahead of standard time when omitted; the first rule is
       the end of standard time (start of daylight time), the second the end of daylight time; times in the same order;
  (L)  Header::parse reads magic(4) version(1) reserved(15) and six big-endian u32 counts in the RFC 8536 order isut, isstd, leap, time, type,
       char; DataBlock::parse cuts time*T, time, 6*type, char, leap*(T+4), isstd, isut bytes in that order, T = 4 (v1) or 8.
All on the MIR with the cursor and the integer reader replaced by recording contracts (every number read is a fresh symbol)."""
from . import domain as D
from .numeric import Numeric
from .models import ok, err, const_int, deref

PHMS = 'local::transition_rule::parse_hms'
POFF = 'local::transition_rule::parse_tz_string_offset'
POFFX = 'local::transition_rule::parse_tz_string_offset_extended'
PRULE = 'local::transition_rule::parse_tz_string_rule'
PINT = 'local::transition_rule::parse_int'
FOOTER = 'local::transition_rule::TransitionRule::from_tz_string'
REMDES = 'local::transition_rule::remove_designation'
CUR = "local::cursor::Cursor::<'a>::"
HEADER = 'local::header::Header::parse'
BLOCK = "local::data_block::DataBlock::<'a>::parse"
I32 = {'k': 'int', 's': True, 'bits': 32, 'name': 'i32'}
U8 = {'k': 'int', 's': False, 'bits': 8, 'name': 'u8'}
USZ = {'k': 'int', 's': False, 'bits': 64, 'name': 'usize'}


def _inner(dty):
    return dty['args'][0] if dty.get('path') in ('std::result::Result', 'std::option::Option') else dty


def _fallible(I_, st, dty, v_builder):
    s1, s2 = st.clone(), st.clone()
    v = v_builder(s1)
    return s1, v, [(s1, ok(v)), (s2, err(I_.top(s2, dty['args'][1], 'e')))]


def cursor_contracts(I, sizes=False):
    """the cursor as a source of unknown bytes: every call is recorded in the path's trace"""
    from .absint import StrV
    # the rules read the events of a path: results of helper functions of the parser are never joined
    I.partition_prefixes['local::transition_rule::'] = lambda I_, st, v: id(st)

    def get_next(I_, st, args, dty, site):
        s1, v, outs = _fallible(I_, st, dty, lambda s: I_.top(s, U8, 'byte'))
        s1.trace = s1.trace + (('next', v[1]),)
        return outs

    def fresh_slice(I_, s, n=None):
        ln = n if n is not None else I_.top(s, USZ, 'len', lo=0, hi=(1 << 62))
        return ('slice', {'len': ln[1], 'elems': None, 'elem_ty': U8, 'ident': next(StrV._ids)})

    def read_exact(I_, st, args, dty, site):
        def build(s):
            v = fresh_slice(I_, s, args[1] if args[1][0] == 'i' else None)
            n = const_of(s, args[1]) if args[1][0] == 'i' else None
            if n is not None and 0 < n <= 4:
                v[1]['elems'] = [I_.top(s, U8, 'byte') for _ in range(n)]       # a short piece: its bytes can be matched one by one
            return v
        s1, v, outs = _fallible(I_, st, dty, build)
        s1.trace = s1.trace + (('read', args[1][1] if args[1][0] == 'i' else None, v[1]['ident'], tuple(e[1] for e in (v[1].get('elems') or ()))),)
        return outs

    def read_some(I_, st, args, dty, site):
        s1 = st.clone()
        v = fresh_slice(I_, s1)
        s1.trace = s1.trace + (('scan', v[1]['ident']),)
        return [(s1, v)]

    def empty(I_, st, args, dty, site):
        s1 = st.clone()
        return [(s1, I_.top(s1, {'k': 'bool'}, 'empty'))]

    def read_tag(I_, st, args, dty, site):
        s1, v, outs = _fallible(I_, st, dty, lambda s: fresh_slice(I_, s))
        s1.trace = s1.trace + (('tag',),)
        return outs
    # a peek through `remaining().first()` is the same observation as get_next: the byte is recorded
    m_first = I.find_model('core::slice::<impl [T]>::first')

    def first(I_, st, args, dty, site):
        outs = m_first(I_, st, args, dty, site)
        for s2, v in outs or []:
            if v[0] == 'e' and 1 in v[2] and site.get('fn', '').startswith('local::'):
                e = deref(I_, s2, v[2][1][0])
                if e is not None and e[0] == 'i':
                    s2.trace = s2.trace + (('next', e[1]),)
        return outs
    I.models['core::slice::<impl [T]>::first'] = first
    I.contracts[CUR + 'get_next'] = get_next
    I.contracts[CUR + 'read_exact'] = read_exact
    I.contracts[CUR + 'read_while'] = read_some
    I.contracts[CUR + 'read_until'] = read_some
    I.contracts[CUR + 'empty'] = empty
    I.contracts[CUR + 'read_tag'] = read_tag


def pint_contract(I):
    def parse_int(I_, st, args, dty, site):
        s1, v, outs = _fallible(I_, st, dty, lambda s: I_.top(s, _inner(dty), 'number'))
        s1.trace = s1.trace + (('pint', v[1]),)
        return outs
    I.contracts[PINT] = parse_int


def events(st, kind):
    return [e for e in st.trace if isinstance(e, tuple) and e and e[0] == kind]


def is_ok(rv):
    return rv[0] == 'e' and set(rv[2]) == {0}


def okval(rv):
    return rv[2][0][0]


def const_of(st, v):
    if v[0] != 'i':
        return None
    lo, hi = D.get_iv(st, v[1])
    return int(lo) if lo == hi else None


# ------------------------------------------------------------------------------------------------------------------
def rule_hms(ctx, facts):
    span = facts.bodies[PHMS]['span']
    N = Numeric(ctx, 'default', max_disj=200, max_steps=200_000)
    I = N.I
    cursor_contracts(I)
    pint_contract(I)
    I.return_partition[PHMS] = lambda I_, st, v: id(st)
    N.run(PHMS, variants=('fixed',))
    total = good = 0
    shapes = set()
    for args, st0, outs in N.results.get(PHMS, []):
        for st, rv in outs:
            if not is_ok(rv):
                continue
            total += 1
            v = okval(rv)
            msg = None
            if v[0] != 't' or len(v[1]) != 4:
                msg = 'the result is not a (direction, hour, minute, second) tuple'
            else:
                d, h, m, s = v[1]
                seq = [e for e in st.trace if isinstance(e, tuple) and e and e[0] in ('next', 'pint')]
                nexts = [e for e in seq if e[0] == 'next']
                pints = [e[1] for e in seq if e[0] == 'pint']
                dc = const_of(st, d)
                first = D.get_iv(st, nexts[0][1]) if nexts else None
                if dc not in (-1, 1) or first is None:
                    msg = f'the direction is {dc} (must be -1 or 1, decided by the first byte)'
                elif (dc == -1) != (first == (45, 45)):
                    msg = f"the direction is {dc} on a path whose first byte is in {first}: it must be -1 exactly after '-'"
                elif not pints or h[0] != 'i' or h[1] != pints[0]:
                    msg = 'the hour is not the first number read'
                elif len(pints) > 3:
                    msg = 'more than three numbers are read'
                else:
                    for idx, (fld, nm) in enumerate(((m, 'minute'), (s, 'second')), start=1):
                        if len(pints) > idx:
                            if fld[0] != 'i' or fld[1] != pints[idx]:
                                msg = msg or f'the {nm} is not number #{idx + 1} of the text'
                            # the number is read only after a ':'
                            pos = [i for i, e in enumerate(seq) if e[0] == 'pint'][idx]
                            prev = [e for e in seq[:pos] if e[0] == 'next']
                            if not prev or D.get_iv(st, prev[-1][1]) != (58, 58):
                                msg = msg or f"the {nm} is read although the byte before it is not known to be ':'"
                        elif const_of(st, fld) != 0:
                            msg = msg or f'an absent {nm} must be 0'
                    shapes.add(len(pints))
            if msg:
                ctx.finding(f'C18:HMS|{msg[:40]}', 'C18-P1 hh[:mm[:ss]]', span, f'parse_hms: {msg}')
            else:
                good += 1
    if shapes != {1, 2, 3} or total == 0:
        ctx.finding('C18:HMS|shapes', 'C18-P1 hh[:mm[:ss]]', span, f'parse_hms: expected results with one, two and three numbers, seen {sorted(shapes)}')
    ctx.rule("C18-P1 parse_hms: direction from the sign, hour[:minute[:second]] in reading order, absent fields 0", max(total, 1), good, floor=3)


def rule_offsets(ctx, facts):
    for fn, hlo, hhi in ((POFF, 0, 24), (POFFX, -167, 167)):
        if not ctx.anchor(facts.bodies, fn, 'C18-P2'):
            continue
        span = facts.bodies[fn]['span']
        N = Numeric(ctx, 'default', max_disj=200, max_steps=200_000)
        I = N.I
        cursor_contracts(I)
        made = {}

        def hms(I_, st, args, dty, site, made=made):
            outs = []
            for dv in (-1, 1):
                s1 = st.clone()
                h, m, s = (I_.top(s1, I32, n) for n in ('hour', 'minute', 'second'))
                made[(h[1], m[1], s[1])] = dv
                outs.append((s1, ok(('t', (const_int(dv, 'i32'), h, m, s)))))
            s2 = st.clone()
            outs.append((s2, err(I_.top(s2, dty['args'][1], 'e'))))
            return outs
        I.contracts[PHMS] = hms
        I.return_partition[fn] = lambda I_, st, v: id(st)
        N.run(fn, variants=('fixed',))
        total = good = 0
        acc = {}
        for args, st0, outs in N.results.get(fn, []):
            for st, rv in outs:
                if not is_ok(rv):
                    continue
                total += 1
                v = okval(rv)
                hit = None
                for (h, m, s), dv in made.items():
                    want = D.aff_scale(D.Aff({h: 3600, m: 60, s: 1}, 0), dv)
                    if v[0] == 'i' and D.aff_equiv(D.aff_of(v[1]), want, st=st):
                        hit = (h, m, s, dv)
                if hit is None:
                    ctx.finding(f'C18:OFFSET|{fn}|value', 'C18-P2 offsets', span, f'{fn}: the result is not direction * (3600 * hour + 60 * minute + second)')
                    continue
                h, m, s, dv = hit
                for nm, x in (('hour', h), ('minute', m), ('second', s)):
                    lo, hi = D.get_iv(st, x)
                    a = acc.setdefault((dv, nm), [lo, hi])
                    a[0], a[1] = min(a[0], lo), max(a[1], hi)
                good += 1
        want = {'hour': (hlo, hhi), 'minute': (0, 59), 'second': (0, 59)}
        for dv in (-1, 1):
            for nm, (lo, hi) in want.items():
                got = tuple(acc.get((dv, nm), (None, None)))
                total += 1
                # every value the grammar allows must be accepted (what is done with other values is C19's concern: no crash)
                if got[0] is not None and got[0] <= lo and got[1] >= hi:
                    good += 1
                else:
                    ctx.finding(f'C18:OFFSET|{fn}|{nm}|{dv}', 'C18-P2 offsets', span,
                                f'{fn}: the accepted {nm} values (direction {dv}) are {got[0]}..={got[1]}, POSIX / RFC 8536 allow {lo}..={hi}: a well-formed footer is rejected')
        ctx.rule(f'C18-P2 {fn.rsplit("::", 1)[1]}: value and accepted field ranges', max(total, 1), good, floor=8)


def rule_ruleday(ctx, facts):
    span = facts.bodies[PRULE]['span']
    total = good = 0
    seen = set()
    for ext in (False, True):
        N = Numeric(ctx, 'default', max_disj=300, max_steps=300_000)
        I = N.I
        cursor_contracts(I)
        pint_contract(I)
        times = {}

        def offc(which):
            def c(I_, st, args, dty, site):
                s1, v, outs = _fallible(I_, st, dty, lambda s: I_.top(s, I32, 'time'))
                times[v[1]] = which
                return outs
            return c
        I.contracts[POFF] = offc('plain')
        I.contracts[POFFX] = offc('extended')
        I.return_partition[PRULE] = lambda I_, st, v: id(st)
        label = f'{PRULE}[extensions={ext}]'
        N.run(PRULE, label=label, overrides={'string_extensions@2': lambda I_, st, ty, ext=ext: ('i', D.const_vid(1 if ext else 0), 'bool')}, variants=('fixed',))
        acc = {}
        for args, st0, outs in N.results.get(label, []):
            for st, rv in outs:
                if not is_ok(rv):
                    continue
                total += 1
                v = okval(rv)
                msg = None
                if v[0] != 't' or len(v[1]) != 2 or v[1][0][0] != 'e' or len(v[1][0][2]) != 1:
                    msg = 'the result is not (one RuleDay variant, time)'
                else:
                    day, tm = v[1]
                    var = list(day[2])[0]
                    flds = day[2][var]
                    pints = [e[1] for e in events(st, 'pint')]
                    nexts = events(st, 'next')
                    first = D.get_iv(st, nexts[0][1]) if nexts else (None, None)
                    wantfirst = {0: lambda f: f == (74, 74), 1: lambda f: f[0] is not None and 48 <= f[0] and f[1] <= 57, 2: lambda f: f == (77, 77)}
                    if var not in wantfirst or not wantfirst[var](first):
                        msg = f"variant {var} of RuleDay is built on a path whose first byte is in {first} (J = Julian without leap day, digit = zero-based day, M = month.week.day)"
                    elif [f[1] for f in flds if f[0] == 'i'] != pints[:len(flds)] or len(pints) != len(flds):
                        msg = 'the fields of the rule day are not the numbers of the text in reading order'
                    else:
                        for i, f in enumerate(flds):
                            lo, hi = D.get_iv(st, f[1])
                            a = acc.setdefault((var, i), [lo, hi])
                            a[0], a[1] = min(a[0], lo), max(a[1], hi)
                        tc = const_of(st, tm)
                        if tm[0] == 'i' and tm[1] in times:
                            if times[tm[1]] != ('extended' if ext else 'plain'):
                                msg = f'the time after "/" is read with the {times[tm[1]]} offset grammar although string extensions are {"on" if ext else "off"}'
                            else:
                                prev = nexts[-1] if nexts else None
                                if prev is None or D.get_iv(st, prev[1]) != (47, 47):
                                    msg = "a time is read although the byte after the day is not known to be '/'"
                            seen.add(('time', 'given'))
                        elif tc == 7200:
                            seen.add(('time', 'default'))
                        else:
                            msg = f'without "/time" the switch time must be 02:00:00 (7200), it is {tc if tc is not None else "not a constant"}'
                        seen.add(('variant', var))
                if msg:
                    ctx.finding(f'C18:RULEDAY|{msg[:48]}', 'C18-P3 rule days', span, f'parse_tz_string_rule: {msg}')
                else:
                    good += 1
        want = {(0, 0): (1, 365), (1, 0): (0, 365), (2, 0): (1, 12), (2, 1): (1, 5), (2, 2): (0, 6)}
        names = {(0, 0): 'Jn day', (1, 0): 'zero-based day n', (2, 0): 'month of Mm.w.d', (2, 1): 'week of Mm.w.d', (2, 2): 'weekday of Mm.w.d'}
        for k, (lo, hi) in want.items():
            total += 1
            got = tuple(acc.get(k, (None, None)))
            if got[0] is not None and got[0] <= lo and got[1] >= hi:
                good += 1
            else:
                ctx.finding(f'C18:RULEDAY|range|{names[k]}', 'C18-P3 rule days', span,
                            f'parse_tz_string_rule: the accepted values of the {names[k]} are {got[0]}..={got[1]}, POSIX allows {lo}..={hi}: a well-formed footer is rejected')
    need = {('variant', 0), ('variant', 1), ('variant', 2), ('time', 'given'), ('time', 'default')}
    if not need <= seen:
        ctx.finding('C18:RULEDAY|forms', 'C18-P3 rule days', span, f'parse_tz_string_rule: expected all three day forms with and without a time, seen {sorted(map(str, seen))}')
    ctx.rule('C18-P3 parse_tz_string_rule: day form by first byte, fields in reading order with exactly the POSIX ranges, default time 02:00:00', max(total, 1), good, floor=5)


LTT = 'local::timezone::LocalTimeType'
ALT = 'local::transition_rule::AlternateLocalTimeType'
RULE = 'local::transition_rule::TransitionRule'


def rule_footer(ctx, facts):
    """(P4) how from_tz_string combines the parts of `std offset [dst [offset] , start[/time] , end[/time]]`"""
    from .entries import install_cursor_contracts
    span = facts.bodies[FOOTER]['span']
    N = Numeric(ctx, 'default', max_disj=300, max_steps=600_000)
    I = N.I
    cursor_contracts(I)
    offs, rules = [], []

    def remdes(I_, st, args, dty, site):
        s1, s2 = st.clone(), st.clone()
        s1.trace = s1.trace + (('des',),)
        return [(s1, ok(('t', ()))), (s2, err(I_.top(s2, dty['args'][1], 'e')))]

    def poff(I_, st, args, dty, site):
        s1, v, outs = _fallible(I_, st, dty, lambda s: I_.top(s, I32, 'offset', lo=-(25 * 3600), hi=25 * 3600))
        s1.trace = s1.trace + (('off', v[1]),)
        return outs

    def prule(I_, st, args, dty, site):
        s1, v, outs = _fallible(I_, st, dty, lambda s: I_.top(s, _inner(dty), 'rule'))
        s1.trace = s1.trace + (('rule', v),)
        return outs
    I.contracts[REMDES] = remdes
    I.contracts[POFF] = poff
    I.contracts[PRULE] = prule
    I.return_partition[FOOTER] = lambda I_, st, v: id(st)
    N.run(FOOTER, variants=('fixed',))
    total = good = 0
    forms = set()
    for args, st0, outs in N.results.get(FOOTER, []):
        for st, rv in outs:
            if not is_ok(rv):
                continue
            v = okval(rv)
            if v[0] != 'e' or 1 not in v[2] or 0 in v[2]:
                continue                  # Ok(None): no footer rule
            total += 1
            r = v[2][1][0]
            o = [e[1] for e in events(st, 'off')]
            rl = [e[1] for e in events(st, 'rule')]
            msg = None

            def utoff_is(ltt, aff, what):
                if ltt[0] != 's' or ltt[1] != LTT or ltt[2][0][0] != 'i':
                    return f'{what} is not a LocalTimeType'
                if not D.aff_equiv(D.aff_of(ltt[2][0][1]), aff, st=st):
                    return f'the UTC offset of {what} is {D.aff_of(ltt[2][0][1])}, expected {aff} (POSIX offsets count west of Greenwich as positive: utoff = -offset)'
                return None
            if r[0] != 'e' or r[1] != RULE or len(r[2]) != 1:
                msg = 'the result is not one TransitionRule variant'
            elif 0 in r[2]:
                forms.add('fixed')
                if len(o) != 1 or rl:
                    msg = 'a fixed rule is built although more than the standard offset was read'
                else:
                    msg = utoff_is(r[2][0][0], D.aff_scale(D.aff_of(o[0]), -1), 'the fixed local time type')
                    if msg is None and const_of(st, r[2][0][0][2][1]) != 0:
                        msg = 'the fixed local time type is marked as daylight time'
            else:
                a = r[2][1][0]
                if a[0] != 's' or a[1] != ALT or len(a[2]) != 6:
                    msg = 'the alternate rule does not have the six fields std, std_end, std_end_time, dst, dst_end, dst_end_time'
                elif len(rl) != 2 or len(o) not in (1, 2):
                    msg = f'{len(o)} offsets and {len(rl)} rules were read for an alternating rule (1 or 2 offsets, 2 rules expected)'
                else:
                    std, std_end, std_t, dst, dst_end, dst_t = a[2]
                    forms.add('alternate, dst offset ' + ('given' if len(o) == 2 else 'omitted'))
                    msg = utoff_is(std, D.aff_scale(D.aff_of(o[0]), -1), 'standard time')
                    want_dst = D.aff_scale(D.aff_of(o[1]), -1) if len(o) == 2 else D.aff_add(D.aff_scale(D.aff_of(o[0]), -1), D.aff_const(3600))
                    msg = msg or utoff_is(dst, want_dst, 'daylight time' + ('' if len(o) == 2 else ' (offset omitted: one hour ahead of standard time)'))
                    if msg is None and (const_of(st, std[2][1]) != 0 or const_of(st, dst[2][1]) != 1):
                        msg = 'the daylight flags of the two local time types are not (false, true)'
                    r1, r2 = rl
                    if msg is None and not (r1[0] == 't' and r2[0] == 't' and std_end == r1[1][0] and std_t == r1[1][1] and dst_end == r2[1][0] and dst_t == r2[1][1]):
                        msg = ('the first rule of the footer (start of daylight time) must become (std_end, std_end_time) and the second (end of daylight time) '
                               '(dst_end, dst_end_time), each with its own time')
            if msg:
                ctx.finding(f'C18:FOOTER|{msg[:48]}', 'C18-P4 footer composition', span, f'from_tz_string: {msg}')
            else:
                good += 1
    need = {'fixed', 'alternate, dst offset given', 'alternate, dst offset omitted'}
    if not need <= forms:
        ctx.finding('C18:FOOTER|forms', 'C18-P4 footer composition', span, f'from_tz_string: expected the three footer forms {sorted(need)}, seen {sorted(forms)}')
    ctx.rule('C18-P4 from_tz_string: utoff = -offset, omitted daylight offset = standard + 1 h, rules and times in order', max(total, 1), good, floor=3,
             sample={'forms': sorted(forms)})


def rule_layout(ctx, facts):
    """(L) header field order and data block layout of RFC 8536"""
    for fn in (HEADER, BLOCK):
        if not ctx.anchor(facts.bodies, fn, 'C18-L layout'):
            return
    # ---- header
    N = Numeric(ctx, 'default', max_disj=200, max_steps=300_000)
    I = N.I
    cursor_contracts(I)
    bes = {}
    m_be = I.find_model('core::num::<impl u32>::from_be_bytes')

    def be(I_, st, args, dty, site):
        s1 = st.clone()
        v = I_.top(s1, dty, 'count')
        s1.trace = s1.trace + (('be', v[1]),)
        return [(s1, v)]
    I.models['core::num::<impl u32>::from_be_bytes'] = be
    I.return_partition[HEADER] = lambda I_, st, v: id(st)
    N.run(HEADER, variants=('fixed',))
    span = facts.bodies[HEADER]['span']
    total = good = 0
    for args, st0, outs in N.results.get(HEADER, []):
        for st, rv in outs:
            if not is_ok(rv):
                continue
            total += 1
            h = okval(rv)
            seq = [e for e in st.trace if isinstance(e, tuple) and e and e[0] in ('read', 'be')]
            sizes = [const_of(st, ('i', e[1], 'usize')) if e[1] is not None else None for e in seq if e[0] == 'read']
            msg = None
            if sizes != [4, 1, 15, 4, 4, 4, 4, 4, 4]:
                msg = f'the header is read in pieces of {sizes} bytes, RFC 8536 has magic 4, version 1, reserved 15 and six 4-byte counts'
            else:
                # every count is decoded right after its four bytes were read
                kinds = [e[0] for e in seq]
                if kinds != ['read', 'read', 'read'] + ['read', 'be'] * 6:
                    msg = 'the six counts are not decoded one by one as they are read'
                else:
                    counts = [e[1] for e in seq if e[0] == 'be']
                    flds = h[2] if h[0] == 's' else ()
                    got = [f[1] for f in flds[1:7] if f[0] == 'i'] if len(flds) == 7 else []
                    vb = [e for e in seq if e[0] == 'read'][1][3]
                    ver = h[2][0] if h[0] == 's' else None
                    vi = list(ver[2])[0] if ver is not None and ver[0] == 'e' and len(ver[2]) == 1 else None
                    want_byte = {0: (0, 0), 1: (0x32, 0x32), 2: (0x33, 0x33)}
                    if vi is None or len(vb) != 1 or D.get_iv(st, vb[0]) != want_byte.get(vi):
                        msg = (f'version variant #{vi} is produced for a version byte in {D.get_iv(st, vb[0]) if len(vb) == 1 else "?"}; '
                               'RFC 8536: NUL = version 1, "2" (0x32) = version 2, "3" (0x33) = version 3')
                    elif got != counts:
                        msg = ('the counts are not stored in file order: RFC 8536 has isutcnt, isstdcnt, leapcnt, timecnt, typecnt, charcnt; the struct fields '
                               'isut_count, isstd_count, leap_count, transition_count, type_count, char_count must receive them in this order')
            if msg:
                ctx.finding(f'C18:LAYOUT|header|{msg[:40]}', 'C18-L layout', span, f'Header::parse: {msg}')
            else:
                good += 1
    ctx.rule('C18-L header: 4 + 1 + 15 bytes, then isut, isstd, leap, time, type, char counts (big-endian u32) in file order', max(total, 1), good, floor=3)
    # ---- data block
    span = facts.bodies[BLOCK]['span']
    total = good = 0
    seenT = set()
    N = Numeric(ctx, 'default', max_disj=200, max_steps=300_000)
    I = N.I
    cursor_contracts(I)
    I.return_partition[BLOCK] = lambda I_, st, v: id(st)
    hv = {}

    def mk_header(I_, st, ty):
        t = ty['to'] if ty.get('k') == 'ref' else ty
        v = I_.top(st, t, 'header')
        for i, f in enumerate(v[2][1:7]):
            D.set_iv(st, f[1], 0, (1 << 32) - 1)
            hv[i] = f[1]
        return ('r', I_.alloc(st, v)) if ty.get('k') == 'ref' else v
    N.run(BLOCK, overrides={'header@2': mk_header}, variants=('fixed',))
    for args, st0, outs in N.results.get(BLOCK, []):
        for st, rv in outs:
            if not is_ok(rv):
                continue
            total += 1
            b = okval(rv)
            reads = events(st, 'read')
            msg = None
            if b[0] != 's' or len(b[2]) != 8 or len(reads) != 7 or len(hv) != 6:
                msg = f'expected seven consecutive reads into the seven parts of the data block, seen {len(reads)}'
            else:
                T = const_of(st, b[2][0])
                seenT.add(T)
                isut, isstd, leap, tim, typ, chars = (hv[i] for i in range(6))
                want = [D.Aff({tim: T}, 0) if T else None, D.Aff({tim: 1}, 0), D.Aff({typ: 6}, 0), D.Aff({chars: 1}, 0),
                        D.Aff({leap: (T or 0) + 4}, 0), D.Aff({isstd: 1}, 0), D.Aff({isut: 1}, 0)]
                names = ['transition times (timecnt * TIME_SIZE)', 'transition types (timecnt)', 'local time type records (typecnt * 6)', 'designations (charcnt)',
                         'leap second records (leapcnt * (TIME_SIZE + 4))', 'standard/wall indicators (isstdcnt)', 'UT/local indicators (isutcnt)']
                if T not in (4, 8):
                    msg = f'TIME_SIZE is {T}, must be 4 (version 1) or 8'
                for k, (e, w, nm) in enumerate(zip(reads, want, names)):
                    if msg:
                        break
                    if e[1] is None or w is None or not D.aff_equiv(D.aff_of(e[1]), w, st=st):
                        msg = f'part {k + 1}, the {nm}, is read with length {D.aff_of(e[1]) if e[1] is not None else "?"} (TIME_SIZE {T})'
                    elif b[2][k + 1][0] != 'slice' or b[2][k + 1][1].get('ident') != e[2]:
                        msg = f'the {nm} are not stored in field {k + 1} of the data block'
            if msg:
                ctx.finding(f'C18:LAYOUT|block|{msg[:40]}', 'C18-L layout', span, f'DataBlock::parse: {msg}')
            else:
                good += 1
    if seenT != {4, 8}:
        ctx.finding('C18:LAYOUT|block|sizes', 'C18-L layout', span, f'DataBlock::parse: expected blocks with 4-byte (version 1) and 8-byte times, seen {sorted(map(str, seenT))}')
    ctx.rule('C18-L data block: timecnt*T, timecnt, typecnt*6, charcnt, leapcnt*(T+4), isstdcnt, isutcnt bytes in this order (T = 4 or 8)', max(total, 1), good, floor=2)


FROM_TZIF = 'local::timezone::TimeZone::from_tzif'
VERSION = 'local::header::Version'


def rule_versions(ctx, facts):
    """(V) which blocks from_tzif reads: a version-1 file has one header and one block with 4-byte times and no footer; a version-2+ file has the
    version-1 block (skipped), a second header, a block with 8-byte times and the footer, read with the extended grammar exactly for version 3"""
    from .entries import install_splitter_contract, install_tz_partitions
    if not ctx.anchor(facts.bodies, FROM_TZIF, 'C18-V'):
        return
    span = facts.bodies[FROM_TZIF]['span']
    results = []
    # one run per combination of header versions (first header, second header): paths of different combinations are never joined
    for combo in ((0, 0), (1, 0), (1, 1), (1, 2), (2, 0), (2, 1), (2, 2)):
        N = Numeric(ctx, 'default', max_disj=5000, max_steps=6_000_000)
        I = N.I
        for f in (install_splitter_contract, install_tz_partitions):
            f(I)

        def header(I_, st, args, dty, site, combo=combo):
            hty = _inner(dty)
            nth = len(events(st, 'hdr'))
            var = combo[min(nth, 1)]
            s1 = st.clone()
            h = I_.top(s1, hty, 'header')
            ver = h[2][0]
            h = ('s', h[1], (('e', ver[1], {var: ver[2][var]}),) + tuple(h[2][1:]), h[3] if len(h) > 3 else None)
            for f in h[2][1:]:
                D.set_iv(s1, f[1], 0, (1 << 32) - 1)
            s1.trace = s1.trace + (('hdr', h, var),)
            s2 = st.clone()
            return [(s1, ok(h)), (s2, err(I_.top(s2, dty['args'][1], 'e')))]

        def block(I_, st, args, dty, site):
            hv = deref(I_, st, args[1])
            ver = args[2]
            vi = list(ver[2])[0] if ver[0] == 'e' and len(ver[2]) == 1 else None
            s1, v, outs = _fallible(I_, st, dty, lambda s: I_.top(s, _inner(dty), 'block'))
            if v[0] == 's' and vi is not None:
                D.set_iv(s1, v[2][0][1], 4 if vi == 0 else 8, 4 if vi == 0 else 8)      # what DataBlock::parse does with the version (rule L)
            s1.trace = s1.trace + (('blk', hv, vi),)
            return outs

        def footer(I_, st, args, dty, site):
            s1, v, outs = _fallible(I_, st, dty, lambda s: I_.top(s, _inner(dty), 'rule'))
            s1.trace = s1.trace + (('footer', args[1], v),)
            return outs
        I.contracts[HEADER] = header
        I.contracts[BLOCK] = block
        I.contracts[FOOTER] = footer
        I.return_partition[FROM_TZIF] = lambda I_, st, v: id(st)
        label = f'{FROM_TZIF}[versions {combo}]'
        N.run(FROM_TZIF, label=label, variants=('fixed',))
        for args, st0, outs in N.results.get(label, []):
            results.append((args, st0, outs))
    total = good = 0
    kinds = set()
    for args, st0, outs in results:
        for st, rv in outs:
            if not is_ok(rv):
                continue
            total += 1
            seq = [e for e in st.trace if isinstance(e, tuple) and e and e[0] in ('hdr', 'blk', 'footer')]
            shape = [e[0] for e in seq]
            msg = None
            if ('joined',) in st.trace:
                ctx.finding('C18:VERSIONS|joined', 'C18-V blocks by version', span, 'from_tzif: internal: result paths with different reading histories were joined; the rule cannot judge them')
                continue
            tz = okval(rv)
            first = seq[0] if seq else None
            if first is None or first[0] != 'hdr':
                msg = 'the file is not read starting with its header'
            elif first[2] == 0:
                kinds.add('v1')
                if shape != ['hdr', 'blk']:
                    msg = f'a version-1 file must be read as header + one data block, the code reads {shape}'
                elif seq[1][1] != first[1] or seq[1][2] != 0:
                    msg = 'the data block of a version-1 file is not read with its own header and 4-byte times'
                elif not (tz[0] == 's' and tz[2][2][0] == 'e' and set(tz[2][2][2]) == {0}):
                    msg = 'a version-1 file has no footer: the extra rule must be None'
            else:
                kinds.add('v2+')
                if shape != ['hdr', 'blk', 'hdr', 'blk', 'footer']:
                    msg = f'a version-2+ file is header, version-1 block, second header, 8-byte block, footer; the code reads {shape}'
                else:
                    h1, b1, h2, b2, ft = seq
                    if b1[1] != h1[1] or b1[2] != 0:
                        msg = 'the first (version-1) block must be skipped using the first header and 4-byte times'
                    elif b2[1] != h2[1]:
                        msg = 'the second block is not read with the second header'
                    elif h2[2] in (1, 2) and b2[2] != h2[2]:
                        msg = 'the second block of a version-2+ file must be read with the version of the second header (8-byte times)'
                    else:
                        ext = const_of(st, ft[1]) if ft[1][0] == 'i' else None
                        if ext != (1 if h2[2] == 2 else 0):
                            msg = f'the footer is read with string extensions = {ext} for a second header of version variant #{h2[2]} (extensions exactly for version 3)'
                        elif not (tz[0] == 's' and tz[2][2][0] == 'e' and (set(tz[2][2][2]) == {0} or tz[2][2] == ft[2] or tz[2][2][2].get(1, (None,))[0] is not None)):
                            msg = 'the extra rule of the time zone is not the parsed footer'
            if msg:
                ctx.finding(f'C18:VERSIONS|{msg[:48]}', 'C18-V blocks by version', span, f'from_tzif: {msg}')
            else:
                good += 1
    if kinds != {'v1', 'v2+'}:
        ctx.finding('C18:VERSIONS|kinds', 'C18-V blocks by version', span, f'from_tzif: expected results for version-1 and version-2+ files, seen {sorted(kinds)}')
    ctx.rule('C18-V from_tzif: header/block sequence per version, 4- vs 8-byte times, footer grammar by version', max(total, 1), good, floor=4, sample={'kinds': sorted(kinds)})


def check_parser(ctx, facts):
    for fn in (PHMS, POFF, POFFX, PRULE, PINT):
        if not ctx.anchor(facts.bodies, fn, 'C18-P footer grammar'):
            return
    rule_hms(ctx, facts)
    rule_offsets(ctx, facts)
    rule_ruleday(ctx, facts)
    if ctx.anchor(facts.bodies, FOOTER, 'C18-P4'):
        rule_footer(ctx, facts)
    rule_layout(ctx, facts)
    rule_versions(ctx, facts)
