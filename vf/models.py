"""std effect table for E2: transfer functions for the std functions the crate calls.

Three classes (DESIGN section 2): (a) total, result top -- TOTAL_OPAQUE; (b) total with a transfer
function -- the @model functions; (c) functions with a precondition, which record an obligation
(UNWRAP / PANIC / STDPRE).  A callee with no row is reported as unmodelled by the interpreter.
"""
from . import domain as D
from .domain import INF
from .absint import (OPTION, RESULT, CFLOW, ORDERING, UNIT, StrV, const_int, tyname, range_of_name,
                     ty_of_name)

U64MAX = (1 << 64) - 1
USIZE_MAX = (1 << 63) - 1   # no allocation exceeds isize::MAX bytes

_EXACT = {}
_PRED = []


def model(*names):
    def deco(f):
        for n in names:
            _EXACT[n] = f
        return f
    return deco


def model_if(pred):
    def deco(f):
        _PRED.append((pred, f))
        return f
    return deco


def install(interp):
    interp.models.update(_EXACT)
    interp.model_preds.extend(_PRED)
    interp.ambient = []


def none(org=None):
    return ('e', OPTION, {0: (('org', org),) if org else ()})


def none_org(v):
    """origin tag of a None produced by a checked operation (hidden pseudo-field)"""
    if v is not None and v[0] == 'e' and v[1] == OPTION and 0 in v[2] and v[2][0] and v[2][0][0][0] == 'org':
        return v[2][0][0][1]
    return None


def some(v):
    return ('e', OPTION, {1: (v,)})


def ok(v):
    return ('e', RESULT, {0: (v,)})


def err(v):
    return ('e', RESULT, {1: (v,)})


def boolv(st, t, f):
    """bool value from (can be true, can be false)"""
    return ('i', D.fresh_vid(st, 0 if f else 1, 1 if t else 0), 'bool')


def deref(I, st, v):
    n = 0
    while v is not None and v[0] == 'r' and n < 4:
        v = I.read_resolved(st, ('L',) + v[1])
        n += 1
    return v


def origin_of(I, st, v, depth=0):
    """origin stack of the OutOfRange / error struct inside v (if any)"""
    if v is None or depth > 4:
        return None
    v = deref(I, st, v)
    if v is None:
        return None
    if v[0] == 's':
        if v[3] is not None and ('OutOfRange' in v[1] or 'InvalidFormat' in v[1]):
            return v[3]
        for f in v[2]:
            o = origin_of(I, st, f, depth + 1)
            if o:
                return o
        return v[3]
    if v[0] == 'e':
        for fs in v[2].values():
            for f in fs:
                o = origin_of(I, st, f, depth + 1)
                if o:
                    return o
    if v[0] == 't':
        for f in v[1]:
            o = origin_of(I, st, f, depth + 1)
            if o:
                return o
    return None


def cause_of(origin):
    """innermost crate function (outside errors::) in an origin stack, closures folded into their parent"""
    if not origin:
        return None
    for f in reversed(origin):
        if f.startswith('errors::'):
            continue
        return f.split('::{closure')[0]
    return None


def site_obl(I, site, kind, sub=None):
    return I.site(site['fn'], kind, sub or site['callee'], site['bb'], -1, site.get('span'))


# ---------------------------------------------------------------- panics / unwraps

@model_if(lambda n: n in ('std::rt::panic_fmt', 'std::rt::panic_display', 'core::panicking::panic', 'core::panicking::panic_fmt',
                          'std::rt::begin_panic', 'core::panicking::panic_display', 'core::panicking::unreachable_display',
                          'core::panicking::panic_explicit', 'core::panicking::assert_failed', 'core::option::expect_failed',
                          'core::result::unwrap_failed', 'core::option::unwrap_failed', 'core::panicking::panic_nounwind'))
def m_panic(I, st, args, dty, site):
    o = site_obl(I, site, 'PANIC')
    cause = None
    for a in args:
        cause = cause_of(origin_of(I, st, a))
        if cause:
            break
    if cause is None and I.ambient:
        cause = I.ambient[-1]
    I.record(o, False, st, 'explicit panic reachable', cause=cause or 'unattributed')
    for h in I.panic_hooks:
        h(I, st, site, cause or 'unattributed')
    return []


def _unwrap(I, st, args, dty, site, okv, what):
    v = args[0]
    o = site_obl(I, site, 'UNWRAP')
    if v[0] != 'e':
        I.record(o, False, st, f'{what} on unknown value', cause='unknown')
        return [(st, I.top(st, dty, 'unwrap'))]
    bad = [k for k in v[2] if k != okv]
    if bad:
        cause = None
        for k in bad:
            for f in v[2][k]:
                cause = cause_of(origin_of(I, st, f))
        if cause is None:
            cause = none_org(v) or ('None' if v[1] == OPTION else 'Err')
        I.record(o, False, st, f'{what}: failing variant reachable', cause=cause)
        if okv not in v[2]:
            for h in I.panic_hooks:
                h(I, st, site, cause)
    else:
        I.record(o, True, st)
    if okv in v[2]:
        fs = v[2][okv]
        return [(st, fs[0] if fs else UNIT)]
    return []


@model('std::result::Result::<T, E>::unwrap', 'std::result::Result::<T, E>::expect')
def m_res_unwrap(I, st, args, dty, site):
    return _unwrap(I, st, args, dty, site, 0, 'Result::unwrap/expect')


@model('std::option::Option::<T>::unwrap', 'std::option::Option::<T>::expect')
def m_opt_unwrap(I, st, args, dty, site):
    return _unwrap(I, st, args, dty, site, 1, 'Option::unwrap/expect')


@model('std::result::Result::<T, E>::unwrap_err')
def m_res_unwrap_err(I, st, args, dty, site):
    return _unwrap(I, st, args, dty, site, 1, 'Result::unwrap_err')


# ---------------------------------------------------------------- Try / ?

@model('<std::result::Result<T, E> as std::ops::Try>::branch')
def m_try_branch(I, st, args, dty, site):
    v = args[0]
    if v[0] != 'e':
        return None
    vs = {}
    if 0 in v[2]:
        vs[0] = (v[2][0][0],)
    if 1 in v[2]:
        vs[1] = (('e', RESULT, {1: v[2][1]}),)
    return [(st, ('e', CFLOW, vs))]


@model('<std::option::Option<T> as std::ops::Try>::branch')
def m_try_branch_opt(I, st, args, dty, site):
    v = args[0]
    if v[0] != 'e':
        return None
    vs = {}
    if 1 in v[2]:
        vs[0] = (v[2][1][0],)
    if 0 in v[2]:
        vs[1] = (('e', OPTION, {0: ()}),)
    return [(st, ('e', CFLOW, vs))]


@model_if(lambda n: 'FromResidual' in n and n.endswith('::from_residual'))
def m_from_residual(I, st, args, dty, site):
    v = args[0]
    if v[0] != 'e':
        return None
    if v[1] == OPTION:
        return [(st, ('e', OPTION, {0: ()}))]
    payload = v[2].get(1)
    if payload is None:
        return []
    e = payload[0]
    ety = dty['args'][1] if dty and dty.get('k') == 'adt' and len(dty.get('args', [])) > 1 else None
    if ety is not None and ety.get('k') == 'adt' and e is not None and e[0] in ('e', 's') and e[1] == ety['path']:
        return [(st, err(e))]
    if ety is not None and ety.get('k') == 'adt' and ety['path'] == 'std::string::String' and e is not None and e[0] == 'obj':
        return [(st, err(e))]
    # conversion through From: look for a crate impl
    if ety is not None and ety.get('k') == 'adt':
        srcname = None
        if e is not None and e[0] in ('e', 's'):
            srcname = e[1]
        for cand in I.bodies:
            if cand.startswith('<' + ety['path'] + ' as std::convert::From<') and cand.endswith('>>::from'):
                if srcname and srcname in cand:
                    outs = I.call_body(st, cand, [e], site)
                    return [(s2, err(v2)) for s2, v2 in outs]
    return [(st, err(I.top(st, ety, 'err') if ety is not None else ('top', None)))]


# ---------------------------------------------------------------- Option / Result combinators

def _with_ambient(I, st, payload, f):
    c = cause_of(origin_of(I, st, payload)) if payload is not None else None
    I.ambient.append(c)
    try:
        return f()
    finally:
        I.ambient.pop()


@model('std::result::Result::<T, E>::map_err')
def m_map_err(I, st, args, dty, site):
    v, clo = args[0], args[1]
    if v[0] != 'e':
        return None
    outs = []
    if 0 in v[2]:
        outs.append((st.clone(), ('e', RESULT, {0: v[2][0]})))
    if 1 in v[2]:
        e = v[2][1][0]
        r = _with_ambient(I, st, e, lambda: I.call_closure(st, clo, [e], site))
        if r is None:
            s2 = st.clone()
            ety = dty['args'][1] if dty and dty.get('k') == 'adt' else None
            outs.append((s2, err(I.top(s2, ety, 'err') if ety else ('top', None))))
        else:
            for s2, ev in r:
                outs.append((s2, err(ev)))
    return outs


@model('std::result::Result::<T, E>::unwrap_or_else')
def m_res_unwrap_or_else(I, st, args, dty, site):
    v, clo = args[0], args[1]
    if v[0] != 'e':
        return None
    outs = []
    if 0 in v[2]:
        outs.append((st.clone(), v[2][0][0]))
    if 1 in v[2]:
        e = v[2][1][0]
        r = _with_ambient(I, st, e, lambda: I.call_closure(st, clo, [e], site))
        if r is None:
            s2 = st.clone()
            outs.append((s2, I.top(s2, dty, 'uoe')))
        else:
            outs.extend(r)
    return outs


@model('std::option::Option::<T>::ok_or_else')
def m_ok_or_else(I, st, args, dty, site):
    v, clo = args[0], args[1]
    if v[0] != 'e':
        return None
    outs = []
    if 1 in v[2]:
        outs.append((st.clone(), ok(v[2][1][0])))
    if 0 in v[2]:
        I.ambient.append(none_org(v))
        try:
            r = I.call_closure(st, clo, [], site)
        finally:
            I.ambient.pop()
        if r is None:
            s2 = st.clone()
            outs.append((s2, err(('top', None))))
        else:
            for s2, ev in r:
                outs.append((s2, err(ev)))
    return outs


@model('std::option::Option::<T>::unwrap_or', 'std::result::Result::<T, E>::unwrap_or')
def m_unwrap_or(I, st, args, dty, site):
    v, d = args[0], args[1]
    if v[0] != 'e':
        return None
    okv = 1 if v[1] == OPTION else 0
    outs = []
    if okv in v[2]:
        outs.append((st.clone(), v[2][okv][0]))
    if (1 - okv) in v[2]:
        outs.append((st.clone(), d))
    return outs


@model('std::option::Option::<T>::unwrap_or_default')
def m_unwrap_or_default(I, st, args, dty, site):
    v = args[0]
    if v[0] != 'e':
        return None
    outs = []
    if 1 in v[2]:
        outs.append((st.clone(), v[2][1][0]))
    if 0 in v[2]:
        s2 = st.clone()
        outs.append((s2, default_of(I, s2, dty)))
    return outs


def default_of(I, st, ty):
    tn = tyname(ty) if ty else None
    if tn:
        return const_int(0, tn)
    if ty and ty['k'] == 'ref' and ty['to']['k'] == 'str':
        return ('str', I.lit_str(st, ''))
    if ty and ty['k'] == 'adt' and ty['path'] == OPTION:
        return none()
    return I.top(st, ty, 'default') if ty else ('top', None)


@model('std::option::Option::<T>::is_some', 'std::option::Option::<T>::is_none', 'std::result::Result::<T, E>::is_ok',
       'std::result::Result::<T, E>::is_err')
def m_is_variant(I, st, args, dty, site):
    v = deref(I, st, args[0])
    if v is None or v[0] != 'e':
        return None
    name = site['callee']
    want = {'is_some': 1, 'is_none': 0, 'is_ok': 0, 'is_err': 1}[name.rsplit('::', 1)[1]]
    outs = []
    # split so that the enum is refined in each branch
    rp = ('L',) + args[0][1] if args[0][0] == 'r' else None
    for vi, fs in v[2].items():
        s2 = st.clone()
        if rp is not None:
            I.write_resolved(s2, rp, ('e', v[1], {vi: fs}))
        outs.append((s2, const_int(1 if vi == want else 0, 'bool')))
    return outs


@model('<std::option::Option<T> as std::default::Default>::default')
def m_opt_default(I, st, args, dty, site):
    return [(st, none())]


@model_if(lambda n: n.endswith(' as std::default::Default>::default') and n[1:].split(' ')[0] in
          ('i8', 'i16', 'i32', 'i64', 'i128', 'isize', 'u8', 'u16', 'u32', 'u64', 'u128', 'usize', 'bool'))
def m_int_default(I, st, args, dty, site):
    return [(st, const_int(0, tyname(dty)))]


@model_if(lambda n: n.startswith('std::clone::impls::<impl std::clone::Clone for ') or n in (
    '<std::option::Option<T> as std::clone::Clone>::clone', '<std::result::Result<T, E> as std::clone::Clone>::clone'))
def m_clone(I, st, args, dty, site):
    v = deref(I, st, args[0]) if 'for &T' not in site['callee'] else I.read_resolved(st, ('L',) + args[0][1]) if args[0][0] == 'r' else args[0]
    if v is None:
        return None
    return [(st, v)]


@model('std::hint::must_use', 'std::convert::identity')
def m_identity(I, st, args, dty, site):
    return [(st, args[0])]


# ---------------------------------------------------------------- integers

def _intarg(a):
    return a is not None and a[0] == 'i'


@model_if(lambda n: n.startswith('core::num::<impl ') and n.endswith('::is_negative'))
def m_is_negative(I, st, args, dty, site):
    a = args[0]
    if not _intarg(a):
        return None
    return [(st, I.binop(st, 'Lt', a, const_int(0, a[2]), {'k': 'bool'}, None, None))]


@model_if(lambda n: n.startswith('core::num::<impl ') and n.endswith('::is_positive'))
def m_is_positive(I, st, args, dty, site):
    a = args[0]
    if not _intarg(a):
        return None
    return [(st, I.binop(st, 'Gt', a, const_int(0, a[2]), {'k': 'bool'}, None, None))]


def _abs_split(I, st, a, tn, tmax=None):
    """|a| by case split on the sign, so that each branch is an exact affine function of a"""
    lo, hi = D.get_iv(st, a[1])
    outs = []
    if hi >= 0:
        s1 = st.clone()
        if D.set_iv(s1, a[1], max(lo, 0), hi):
            outs.append((s1, ('i', a[1], tn)))
    if lo < 0:
        s2 = st.clone()
        if D.set_iv(s2, a[1], lo, min(hi, -1)):
            l2, h2 = D.get_iv(s2, a[1])
            top_ = -l2 if tmax is None else min(-l2, tmax)
            v = D.term_vid(s2, ('Neg', a[1]), -h2, top_, D.aff_scale(D.aff_of(a[1]), -1))
            outs.append((s2, ('i', v, tn)))
    return outs


@model_if(lambda n: n.startswith('core::num::<impl ') and n.endswith('::unsigned_abs'))
def m_unsigned_abs(I, st, args, dty, site):
    a = args[0]
    if not _intarg(a):
        return None
    return _abs_split(I, st, a, tyname(dty))


@model_if(lambda n: n.startswith('core::num::<impl ') and n.endswith('::abs'))
def m_abs(I, st, args, dty, site):
    a = args[0]
    if not _intarg(a):
        return None
    lo, hi = D.get_iv(st, a[1])
    tr = range_of_name(a[2])
    o = site_obl(I, site, 'STDPRE')
    I.record(o, lo > tr[0], st, f'abs of a value that may be {a[2]}::MIN' if lo <= tr[0] else None, cause='abs overflow')
    return _abs_split(I, st, a, a[2], tr[1])


@model_if(lambda n: n.startswith('core::num::<impl ') and n.endswith('::rem_euclid'))
def m_rem_euclid(I, st, args, dty, site):
    a, b = args[0], args[1]
    if not (_intarg(a) and _intarg(b)):
        return None
    bl, bh = D.get_iv(st, b[1])
    o = site_obl(I, site, 'STDPRE')
    al, ah = D.get_iv(st, a[1])
    tr = range_of_name(a[2])
    okp = not (bl <= 0 <= bh) and not (al <= tr[0] and bl <= -1 <= bh)
    I.record(o, okp, st, f'rem_euclid divisor in [{bl},{bh}]', cause='rem_euclid precondition')
    if bl > 0:
        if al >= 0 and ah < bl:
            return [(st, a)]
        if b[1] in D.CONSTVAL:
            q, r = D.divmod_euclid(st, a[1], D.CONSTVAL[b[1]])
            return [(st, ('i', r, a[2]))]
        v = D.term_vid(st, ('rem_euclid', a[1], b[1]), 0, bh - 1, None)
        return [(st, ('i', v, a[2]))]
    return [(st, I.top(st, dty, 'rem_euclid'))]


@model_if(lambda n: n.startswith('core::num::<impl ') and n.endswith('::div_euclid'))
def m_div_euclid(I, st, args, dty, site):
    a, b = args[0], args[1]
    if not (_intarg(a) and _intarg(b)):
        return None
    bl, bh = D.get_iv(st, b[1])
    al, ah = D.get_iv(st, a[1])
    tr = range_of_name(a[2])
    o = site_obl(I, site, 'STDPRE')
    okp = not (bl <= 0 <= bh) and not (al <= tr[0] and bl <= -1 <= bh)
    I.record(o, okp, st, f'div_euclid divisor in [{bl},{bh}]', cause='div_euclid precondition')
    if bl > 0 and b[1] in D.CONSTVAL:
        q, r = D.divmod_euclid(st, a[1], D.CONSTVAL[b[1]])
        return [(st, ('i', q, a[2]))]
    return [(st, I.top(st, dty, 'div_euclid'))]


@model_if(lambda n: n.startswith('core::num::<impl ') and (n.endswith('::checked_add') or n.endswith('::checked_sub') or n.endswith('::checked_mul')))
def m_checked(I, st, args, dty, site):
    a, b = args[0], args[1]
    if not (_intarg(a) and _intarg(b)):
        return None
    op = {'add': 'Add', 'sub': 'Sub', 'mul': 'Mul'}[site['callee'].rsplit('_', 1)[1]]
    tn = a[2]
    tr = range_of_name(tn)
    ia, ib = D.get_iv(st, a[1]), D.get_iv(st, b[1])
    r = {'Add': D.iv_add, 'Sub': D.iv_sub, 'Mul': D.iv_mul}[op](ia, ib)
    outs = []
    if r[1] >= tr[0] and r[0] <= tr[1]:
        s2 = st.clone()
        # value of the exact operation, restricted to the type on the Some arm
        tup = I.binop(s2, op + 'WithOverflow', a, b, {'k': 'tuple', 'elems': [ty_of_name(tn), {'k': 'bool'}]}, None, None)
        outs.append((s2, some(tup[1][0])))
    if r[0] < tr[0] or r[1] > tr[1]:
        outs.append((st.clone(), none('int::checked_' + op.lower())))
    return outs


@model_if(lambda n: n.startswith('core::num::<impl ') and n.endswith('::pow'))
def m_pow(I, st, args, dty, site):
    a, e = args[0], args[1]
    if not (_intarg(a) and _intarg(e)):
        return None
    tn = a[2]
    tr = range_of_name(tn)
    (al, ah), (el, eh) = D.get_iv(st, a[1]), D.get_iv(st, e[1])
    o = site_obl(I, site, 'STDPRE')
    if al < 0 or eh == INF or eh > 200:
        I.record(o, False, st, f'pow base in [{al},{ah}] exponent in [{el},{eh}]', cause='pow overflow')
        return [(st, I.top(st, dty, 'pow'))]
    lo, hi = al ** el, ah ** eh
    if al == 0 and el == 0:
        lo = 0
    okp = hi <= tr[1]
    I.record(o, okp, st, f'pow result up to {hi} exceeds {tn}::MAX' if not okp else None, cause='pow overflow')
    if al == ah and el == eh and okp:
        return [(st, const_int(al ** el, tn))]
    return [(st, ('i', D.fresh_vid(st, max(lo, tr[0]), min(hi, tr[1])), tn))]


@model_if(lambda n: n.startswith('core::num::<impl ') and n.endswith('::from_be_bytes'))
def m_from_be_bytes(I, st, args, dty, site):
    return [(st, I.top(st, dty, 'be'))]


@model_if(lambda n: (n.startswith('core::num::<impl u8>::is_ascii') or n.startswith('std::char::methods::<impl char>::is_ascii')
                     or n.startswith('core::char::methods::<impl char>::is_ascii')))
def m_is_ascii_x(I, st, args, dty, site):
    a = deref(I, st, args[0])
    if not _intarg(a):
        return [(st, I.top(st, {'k': 'bool'}, 'isascii'))]
    kind = site['callee'].rsplit('::', 1)[1]
    lo, hi = D.get_iv(st, a[1])
    ranges = {'is_ascii_digit': [(48, 57)], 'is_ascii_alphabetic': [(65, 90), (97, 122)],
              'is_ascii_whitespace': [(9, 10), (12, 13), (32, 32)], 'is_ascii': [(0, 127)]}.get(kind)
    if ranges is None:
        return [(st, I.top(st, {'k': 'bool'}, 'isascii'))]
    can_t = any(not (hi < l or lo > h) for l, h in ranges)
    can_f = not any(l <= lo and hi <= h for l, h in ranges)
    outs = []
    if can_t:
        for (l, h) in ranges:
            if hi < l or lo > h:
                continue
            s2 = st.clone()
            if D.set_iv(s2, a[1], l, h):
                outs.append((s2, const_int(1, 'bool')))
    if can_f:
        outs.append((st.clone(), const_int(0, 'bool')))
    return outs


@model('std::cmp::min', 'std::cmp::max')
def m_minmax(I, st, args, dty, site):
    a, b = args
    if _intarg(a) and _intarg(b):
        ia, ib = D.get_iv(st, a[1]), D.get_iv(st, b[1])
        if site['callee'].endswith('min'):
            r = (min(ia[0], ib[0]), min(ia[1], ib[1]))
        else:
            r = (max(ia[0], ib[0]), max(ia[1], ib[1]))
        return [(st, ('i', D.fresh_vid(st, r[0], r[1]), a[2]))]
    # result is one of the two arguments
    s1, s2 = st.clone(), st.clone()
    return [(s1, a), (s2, b)]


def _ordering(I, st, a, b):
    lt, ge = D.cmp_possible(st, 'Lt', a[1], b[1])
    eq, ne = D.cmp_possible(st, 'Eq', a[1], b[1])
    gt, le = D.cmp_possible(st, 'Gt', a[1], b[1])
    outs = []
    for flag, op, vi in ((lt, 'Lt', 0), (eq, 'Eq', 1), (gt, 'Gt', 2)):
        if flag:
            s2 = st.clone()
            if D.refine_cmp(s2, op, a[1], b[1]):
                outs.append((s2, ('e', ORDERING, {vi: ()})))
    return outs


@model_if(lambda n: n.startswith('std::cmp::impls::<impl std::cmp::Ord for ') and n.endswith('>::cmp'))
def m_int_cmp(I, st, args, dty, site):
    a, b = deref(I, st, args[0]), deref(I, st, args[1])
    if not (_intarg(a) and _intarg(b)):
        return None
    return _ordering(I, st, a, b)


@model_if(lambda n: n.startswith('std::cmp::impls::<impl std::cmp::PartialOrd for ') and n.endswith('>::partial_cmp'))
def m_int_partial_cmp(I, st, args, dty, site):
    a, b = deref(I, st, args[0]), deref(I, st, args[1])
    if not (_intarg(a) and _intarg(b)):
        return None
    return [(s, some(v)) for s, v in _ordering(I, st, a, b)]


@model('std::cmp::PartialOrd::lt', 'std::cmp::PartialOrd::le', 'std::cmp::PartialOrd::gt', 'std::cmp::PartialOrd::ge')
def m_partial_ord_default(I, st, args, dty, site):
    tya = site.get('tyargs') or []
    if tya and tya[0].get('k') == 'adt':
        cand = f"<{tya[0]['path']} as std::cmp::PartialOrd>::partial_cmp"
        if cand in I.bodies:
            outs = []
            which = site['callee'].rsplit('::', 1)[1]
            truth = {'lt': {0}, 'le': {0, 1}, 'gt': {2}, 'ge': {1, 2}}[which]
            for s2, v in I.call_body(st, cand, args, site):
                if v[0] == 'e' and 1 in v[2] and v[2][1][0][0] == 'e':
                    for vi in v[2][1][0][2]:
                        outs.append((s2.clone(), const_int(1 if vi in truth else 0, 'bool')))
                else:
                    outs.append((s2, I.top(s2, {'k': 'bool'}, 'cmp')))
            return outs
    return None


@model_if(lambda n: n.startswith('std::cmp::impls::<impl std::cmp::PartialEq<&B> for &A>::'))
def m_ref_eq(I, st, args, dty, site):
    a, b = deref(I, st, args[0]), deref(I, st, args[1])
    ne = site['callee'].endswith('::ne')
    if _intarg(a) and _intarg(b):
        return [(st, I.binop(st, 'Ne' if ne else 'Eq', a, b, {'k': 'bool'}, None, None))]
    if a is not None and b is not None and a[0] == 'str' and b[0] == 'str':
        return str_eq(I, st, a[1], b[1], ne)
    if a is not None and b is not None and a[0] == 'e' and b[0] == 'e' and a[1] == b[1]:
        if len(a[2]) == 1 and len(b[2]) == 1 and not any(a[2].values()) and not any(b[2].values()):
            same = set(a[2]) == set(b[2])
            return [(st, const_int(1 if same != ne else 0, 'bool'))]
    return [(st, I.top(st, {'k': 'bool'}, 'eq'))]


# ---------------------------------------------------------------- conversions

def _conv_int(I, st, a, dty):
    v, okc = I.cast_int(st, a, dty)
    return v


@model('<T as std::convert::Into<U>>::into', '<T as std::convert::From<T>>::from')
def m_into(I, st, args, dty, site):
    a = args[0]
    if _intarg(a) and tyname(dty):
        v, okc = I.cast_int(st, a, dty)
        if okc is False:
            return None
        return [(st, v)]
    tya = site.get('tyargs') or []
    if len(tya) >= 2 and tya[1].get('k') == 'adt':
        src = tya[0]
        for cand in I.bodies:
            if cand.startswith('<' + tya[1]['path'] + ' as std::convert::From<') and cand.endswith('>>::from'):
                want = src.get('path') or tyname(src) or ''
                if want and want in cand[len(tya[1]['path']):]:
                    return I.call_body(st, cand, [a], site)
    if a is not None and dty is not None and a[0] in ('s', 'e') and dty.get('k') == 'adt' and a[1] == dty['path']:
        return [(st, a)]
    return None


@model_if(lambda n: n.startswith('std::convert::num::<impl std::convert::From<') and n.endswith('>::from'))
def m_num_from(I, st, args, dty, site):
    a = args[0]
    if not _intarg(a):
        return None
    v, okc = I.cast_int(st, a, dty)
    return [(st, v)]


@model('<T as std::convert::TryInto<U>>::try_into', '<T as std::convert::TryFrom<U>>::try_from')
def m_try_into(I, st, args, dty, site):
    a = args[0]
    if dty is None or dty.get('k') != 'adt' or dty['path'] != RESULT:
        return None
    tgt = dty['args'][0]
    tn = tyname(tgt)
    if _intarg(a) and tn:
        tr = range_of_name(tn)
        lo, hi = D.get_iv(st, a[1])
        outs = []
        if hi >= tr[0] and lo <= tr[1]:
            s1 = st.clone()
            if D.set_iv(s1, a[1], tr[0], tr[1]):
                outs.append((s1, ok(('i', a[1], tn))))
        tfe = ('s', 'std::num::TryFromIntError', (), ('int::try_from',))
        if lo < tr[0]:
            s2 = st.clone()
            if D.set_iv(s2, a[1], lo, tr[0] - 1):
                outs.append((s2, err(tfe)))
        if hi > tr[1]:
            s3 = st.clone()
            if D.set_iv(s3, a[1], tr[1] + 1, hi):
                outs.append((s3, err(tfe)))
        return outs
    # slice -> array
    if a is not None and a[0] == 'slice' and tgt.get('k') == 'array' and tgt.get('len') is not None:
        n = tgt['len']
        lo, hi = D.get_iv(st, a[1]['len'])
        outs = []
        if lo <= n <= hi:
            s1 = st.clone()
            D.set_iv(s1, a[1]['len'], n, n)
            outs.append((s1, ok(I.top(s1, tgt, 'arr'))))
        if not (lo == hi == n):
            outs.append((st.clone(), err(('top', dty['args'][1]))))
        return outs
    return None


# ---------------------------------------------------------------- Duration / time

DUR = 'std::time::Duration'


def dur_top(I, st, name='dur'):
    secs = I.top(st, ty_of_name('u64'), name + '.secs')
    nanos = I.top(st, ty_of_name('u32'), name + '.subsec_nanos', lo=0, hi=999_999_999)
    return ('s', DUR, (secs, nanos), None)


@model('std::time::Duration::as_secs')
def m_dur_as_secs(I, st, args, dty, site):
    d = deref(I, st, args[0])
    if d is None or d[0] != 's':
        return None
    return [(st, d[2][0])]


@model('std::time::Duration::subsec_nanos')
def m_dur_subsec(I, st, args, dty, site):
    d = deref(I, st, args[0])
    if d is None or d[0] != 's':
        return None
    return [(st, d[2][1])]


@model('std::time::Duration::as_nanos')
def m_dur_as_nanos(I, st, args, dty, site):
    d = deref(I, st, args[0])
    if d is None or d[0] != 's':
        return None
    u128 = ty_of_name('u128')
    s = ('i', d[2][0][1], 'u128')
    m = I.binop(st, 'Mul', s, const_int(1_000_000_000, 'u128'), u128, None, None)
    r = I.binop(st, 'Add', m, ('i', d[2][1][1], 'u128'), u128, None, None)
    return [(st, r)]


@model('std::time::Duration::from_secs')
def m_dur_from_secs(I, st, args, dty, site):
    if not _intarg(args[0]):
        return None
    return [(st, ('s', DUR, (args[0], const_int(0, 'u32')), None))]


@model('std::time::Duration::from_nanos')
def m_dur_from_nanos(I, st, args, dty, site):
    a = args[0]
    if not _intarg(a):
        return None
    u64 = ty_of_name('u64')
    secs = I.binop(st, 'Div', a, const_int(1_000_000_000, 'u64'), u64, None, None)
    nanos = I.binop(st, 'Rem', a, const_int(1_000_000_000, 'u64'), u64, None, None)
    return [(st, ('s', DUR, (secs, ('i', nanos[1], 'u32')), None))]


@model('<std::time::Duration as std::ops::Add>::add')
def m_dur_add(I, st, args, dty, site):
    a, b = args
    if a[0] != 's' or b[0] != 's':
        return None
    (sl, sh) = D.iv_add(D.get_iv(st, a[2][0][1]), D.get_iv(st, b[2][0][1]))
    o = site_obl(I, site, 'STDPRE')
    I.record(o, sh + 1 <= U64MAX, st, f'Duration + Duration: seconds up to {sh + 1} overflow u64' if sh + 1 > U64MAX else None,
             cause='Duration add overflow')
    return [(st, dur_top(I, st, 'sum'))]


@model('std::time::SystemTime::now')
def m_now(I, st, args, dty, site):
    return [(st, ('top', dty))]


@model('std::time::SystemTime::duration_since')
def m_duration_since(I, st, args, dty, site):
    s1, s2 = st.clone(), st.clone()
    return [(s1, ok(dur_top(I, s1, 'since_epoch'))), (s2, err(('s', 'std::time::SystemTimeError', (), ('std::time::SystemTime::duration_since',))))]


# ---------------------------------------------------------------- formatting (total, opaque)

TOTAL_OPAQUE = (
    'core::fmt::rt::Argument::<\'_>::new_display', 'core::fmt::rt::Argument::<\'_>::new_debug', 'core::fmt::rt::Argument::<\'_>::from_usize',
    'std::fmt::Arguments::<\'a>::new', 'std::fmt::Arguments::<\'a>::from_str', 'std::fmt::Arguments::<\'a>::new_const',
    'std::fmt::Arguments::<\'a>::new_v1', 'std::fmt::Formatter::<\'a>::write_fmt', 'std::fmt::Formatter::<\'a>::write_str',
    'std::fmt::Formatter::<\'a>::debug_struct_field1_finish', 'std::fmt::Formatter::<\'a>::debug_struct_field2_finish',
    'std::fmt::Formatter::<\'a>::debug_struct_field3_finish', 'std::fmt::Formatter::<\'a>::debug_struct_fields_finish',
    'std::fmt::Formatter::<\'a>::debug_tuple_field1_finish', 'std::fmt::Formatter::<\'a>::debug_tuple_field2_finish',
    'std::fmt::Formatter::<\'a>::debug_tuple_field3_finish', 'std::fs::read',
)


@model(*TOTAL_OPAQUE)
def m_total_opaque(I, st, args, dty, site):
    return [(st, I.top(st, dty, 'opaque') if dty is not None else ('top', None))]


@model_if(lambda n: n.startswith('core::hash::') or n.endswith('as std::hash::Hash>::hash'))
def m_hash(I, st, args, dty, site):
    return [(st, UNIT)]


# ---------------------------------------------------------------- iterators
# ('it','seq', elems, pos, byref)       known finite sequence
# ('it','unk', item_ty)                 unknown length, items are top of item_ty
# ('it','enum', inner, idx|None)  ('it','zip', a, b)  ('it','chunks', slice, n)  ('it','chars', StrV, pos|None)
# RangeInclusive / Range values are ('s', path, (start, end, exhausted), None) and iterate in place

RANGE_INC = 'std::ops::RangeInclusive'
RANGE = 'std::ops::Range'


def item_ty_of(dty):
    """Option<Item> -> Item"""
    if dty and dty.get('k') == 'adt' and dty['path'] == OPTION:
        return dty['args'][0]
    return None


def as_iter(I, st, x):
    """coerce an IntoIterator value into an iterator value"""
    if x is None:
        return None
    if x[0] == 'it':
        return x
    if x[0] == 's' and x[1] in (RANGE_INC, RANGE):
        return x
    if x[0] == 'a':
        return ('it', 'seq', x[1], 0, False)
    if x[0] == 'slice':
        if x[1].get('elems') is not None:
            return ('it', 'seq', x[1]['elems'], 0, True)
        return ('it', 'unk', {'k': 'ref', 'mut': False, 'to': x[1].get('elem_ty') or {'k': 'other'}}, x[1]['len'])
    if x[0] == 'r':
        tgt = I.read_resolved(st, ('L',) + x[1])
        if tgt is None:
            return None
        if tgt[0] == 'a':
            return ('it', 'seq', tgt[1], 0, True)
        if tgt[0] == 'obj':
            o = st.objs.get(tgt[1])
            if o is not None and o[0] in ('Vec', 'Set'):
                return ('it', 'unk', {'k': 'ref', 'mut': False, 'to': o[2] or {'k': 'other'}}, o[1])
        return None
    if x[0] == 'obj':
        o = st.objs.get(x[1])
        if o is not None and o[0] in ('Vec', 'Set'):
            return ('it', 'unk', o[2] or {'k': 'other'}, o[1])
    return None


@model('<I as std::iter::IntoIterator>::into_iter', 'std::array::iter::<impl std::iter::IntoIterator for [T; N]>::into_iter',
       '<std::vec::Vec<T, A> as std::iter::IntoIterator>::into_iter', 'core::slice::<impl [T]>::iter',
       'std::slice::<impl [T]>::iter', 'core::slice::<impl [T]>::iter_mut')
def m_into_iter(I, st, args, dty, site):
    it = as_iter(I, st, args[0])
    if it is None:
        tya = site.get('tyargs') or []
        I.note('into_iter of unknown collection')
        return [(st, ('it', 'unk', None, None))]
    return [(st, it)]


def iter_next(I, st, it, item_ty):
    """-> list of (state, new_iter, option_value)"""
    k = it[1] if it[0] == 'it' else 'range'
    if k == 'seq':
        elems, pos, byref = it[2], it[3], it[4]
        if pos >= len(elems):
            return [(st, it, none())]
        e = elems[pos]
        if byref:
            e = ('r', I.alloc(st, e))
        return [(st, ('it', 'seq', elems, pos + 1, byref), some(e))]
    if k == 'unk':
        s1, s2 = st.clone(), st.clone()
        ty = it[2] if it[2] is not None else item_ty
        v = I.top(s2, ty, 'item') if ty is not None else ('top', None)
        from .entries import apply_invariants
        apply_invariants(I, s2, v)
        outs = [(s1, it, none())]
        lenv = it[3] if len(it) > 3 else None
        if lenv is None or D.get_iv(s2, lenv)[1] >= 1:
            outs.append((s2, it, some(v)))
        return outs
    if k == 'range':
        start, end, exh = it[2]
        inclusive = it[1] == RANGE_INC
        if start[0] == 'i' and end[0] == 'i':
            (sl, sh), (el, eh) = D.get_iv(st, start[1]), D.get_iv(st, end[1])
            (xl, xh) = D.get_iv(st, exh[1]) if exh[0] == 'i' else (0, 1)
            if sl == sh and el == eh and xl == xh:
                if xl == 1 or sl > el or (not inclusive and sl >= el):
                    return [(st, it, none())]
                if inclusive and sl == el:
                    nit = ('s', it[1], (start, end, const_int(1, 'bool')), None)
                else:
                    nit = ('s', it[1], (const_int(sl + 1, start[2]), end, exh), None)
                return [(st, nit, some(start))]
            s1, s2 = st.clone(), st.clone()
            hi = eh if inclusive else eh - 1
            outs = [(s1, it, none())]
            if sl <= hi:
                outs.append((s2, it, some(('i', D.fresh_vid(s2, sl, hi), start[2]))))
            return outs
        s1, s2 = st.clone(), st.clone()
        return [(s1, it, none()), (s2, it, some(I.top(s2, item_ty, 'item') if item_ty else ('top', None)))]
    if k == 'enum':
        inner, idx = it[2], it[3]
        outs = []
        for s2, ninner, ov in iter_next(I, st, inner, item_ty['elems'][1] if item_ty and item_ty.get('k') == 'tuple' else None):
            if 1 in ov[2]:
                iv = const_int(idx, 'usize') if idx is not None else I.top(s2, ty_of_name('usize'), 'idx', lo=0, hi=USIZE_MAX)
                outs.append((s2, ('it', 'enum', ninner, idx + 1 if idx is not None and ninner[1:2] == ('seq',) else None),
                             some(('t', (iv, ov[2][1][0])))))
            else:
                outs.append((s2, ('it', 'enum', ninner, idx), none()))
        return outs
    if k == 'zip':
        outs = []
        tys = item_ty['elems'] if item_ty and item_ty.get('k') == 'tuple' else (None, None)
        for s2, na, oa in iter_next(I, st, it[2], tys[0]):
            if 1 not in oa[2]:
                outs.append((s2, ('it', 'zip', na, it[3]), none()))
                continue
            for s3, nb, ob in iter_next(I, s2, it[3], tys[1]):
                if 1 not in ob[2]:
                    outs.append((s3, ('it', 'zip', na, nb), none()))
                else:
                    outs.append((s3, ('it', 'zip', na, nb), some(('t', (oa[2][1][0], ob[2][1][0])))))
        return outs
    if k == 'chunks':
        sl, n = it[2], it[3]
        s1, s2 = st.clone(), st.clone()
        outs = [(s1, it, none())]
        lo, hi = D.get_iv(s2, sl['len'])
        nn = D.get_iv(s2, n[1])
        if hi >= max(nn[0], 1):
            piece = {'len': n[1], 'elems': None, 'elem_ty': sl.get('elem_ty'), 'ident': next(StrV._ids)}
            outs.append((s2, it, some(('slice', piece))))
        return outs
    if k == 'chars':
        sv, pos = it[2], it[3]
        lo, hi = D.get_iv(st, sv.len)
        outs = []
        if pos == 0 and lo >= 1 and sv.first is not None:
            return [(st, ('it', 'chars', sv, 1), some(const_int(ord(sv.first), 'char')))]
        if pos == 0 and hi == 0:
            return [(st, it, none())]
        s1, s2 = st.clone(), st.clone()
        if not (pos == 0 and lo >= 1):
            outs.append((s1, ('it', 'chars', sv, None), none()))
        if hi >= 1:
            c = I.top(s2, {'k': 'char'}, 'ch', lo=0, hi=127 if sv.ascii else 0x10FFFF)
            if pos == 0 and sv.first is not None:
                c = const_int(ord(sv.first), 'char')
            outs.append((s2, ('it', 'chars', sv, None), some(c)))
        return outs
    s1, s2 = st.clone(), st.clone()
    return [(s1, it, none()), (s2, it, some(I.top(s2, item_ty, 'item') if item_ty else ('top', None)))]


@model_if(lambda n: n.endswith(' as std::iter::Iterator>::next') or n.endswith('::next') and 'std::iter::Iterator for' in n)
def m_iter_next(I, st, args, dty, site):
    ref = args[0]
    if ref[0] != 'r':
        return None
    rp = ('L',) + ref[1]
    it = I.read_resolved(st, rp)
    if it is None or not (it[0] == 'it' or (it[0] == 's' and it[1] in (RANGE, RANGE_INC))):
        I.note('next() on unknown iterator')
        s1, s2 = st.clone(), st.clone()
        ity = item_ty_of(dty)
        return [(s1, none()), (s2, some(I.top(s2, ity, 'item') if ity else ('top', None)))]
    outs = []
    for s2, nit, ov in iter_next(I, st, it, item_ty_of(dty)):
        I.write_resolved(s2, rp, nit)
        outs.append((s2, ov))
    return outs


@model('std::ops::RangeInclusive::<Idx>::new')
def m_range_inc_new(I, st, args, dty, site):
    return [(st, ('s', RANGE_INC, (args[0], args[1], const_int(0, 'bool')), None))]


@model('std::ops::RangeInclusive::<Idx>::contains', 'std::ops::Range::<Idx>::contains')
def m_range_contains(I, st, args, dty, site):
    r = deref(I, st, args[0])
    x = deref(I, st, args[1])
    if r is None or r[0] != 's' or not _intarg(x) or not _intarg(r[2][0]) or not _intarg(r[2][1]):
        return [(st, I.top(st, {'k': 'bool'}, 'contains'))]
    inclusive = r[1] == RANGE_INC
    lo, hi = r[2][0], r[2][1]
    outs = []
    s1 = st.clone()
    if D.refine_cmp(s1, 'Ge', x[1], lo[1]) and D.refine_cmp(s1, 'Le' if inclusive else 'Lt', x[1], hi[1]):
        outs.append((s1, const_int(1, 'bool')))
    s2 = st.clone()
    if D.refine_cmp(s2, 'Lt', x[1], lo[1]):
        outs.append((s2, const_int(0, 'bool')))
    s3 = st.clone()
    if D.refine_cmp(s3, 'Gt' if inclusive else 'Ge', x[1], hi[1]):
        outs.append((s3, const_int(0, 'bool')))
    return outs


@model('std::iter::Iterator::enumerate')
def m_enumerate(I, st, args, dty, site):
    it = as_iter(I, st, args[0]) or ('it', 'unk', None, None)
    return [(st, ('it', 'enum', it, 0 if it[0] == 'it' and it[1] == 'seq' else None))]


@model('std::iter::Iterator::rev')
def m_rev(I, st, args, dty, site):
    it = as_iter(I, st, args[0])
    if it is not None and it[0] == 'it' and it[1] == 'seq':
        return [(st, ('it', 'seq', tuple(reversed(it[2][it[3]:])), 0, it[4]))]
    if it is not None and it[0] == 'it' and it[1] == 'unk':
        return [(st, it)]
    return [(st, ('it', 'unk', None, None))]


@model('std::iter::Iterator::zip')
def m_zip(I, st, args, dty, site):
    a = as_iter(I, st, args[0]) or ('it', 'unk', None, None)
    b = as_iter(I, st, args[1]) or ('it', 'unk', None, None)
    return [(st, ('it', 'zip', a, b))]


@model('core::slice::<impl [T]>::chunks_exact')
def m_chunks_exact(I, st, args, dty, site):
    sl, n = args[0], args[1]
    if sl[0] != 'slice' or not _intarg(n):
        return None
    o = site_obl(I, site, 'STDPRE')
    lo, hi = D.get_iv(st, n[1])
    I.record(o, lo >= 1, st, f'chunk size in [{lo},{hi}] may be 0' if lo < 1 else None, cause='chunks_exact(0)')
    return [(st, ('it', 'chunks', sl[1], n))]


@model('std::iter::Iterator::step_by')
def m_step_by(I, st, args, dty, site):
    n = args[1]
    o = site_obl(I, site, 'STDPRE')
    lo, hi = D.get_iv(st, n[1]) if _intarg(n) else (0, INF)
    I.record(o, lo >= 1, st, f'step in [{lo},{hi}] may be 0' if lo < 1 else None, cause='step_by(0)')
    it = as_iter(I, st, args[0])
    ity = None
    if it is not None and it[0] == 's' and _intarg(it[2][0]):
        ity = ty_of_name(it[2][0][2])
    return [(st, ('it', 'unk', ity, None))]


@model('std::iter::Iterator::nth')
def m_nth(I, st, args, dty, site):
    ref, n = args[0], args[1]
    if ref[0] != 'r' or not _intarg(n):
        return None
    rp = ('L',) + ref[1]
    it = I.read_resolved(st, rp)
    ity = item_ty_of(dty)
    lo, hi = D.get_iv(st, n[1])
    if it is not None and it[0] == 'it' and it[1] == 'seq':
        elems, pos, byref = it[2], it[3], it[4]
        outs = []
        last = min(hi, len(elems) - pos - 1) if hi != INF else len(elems) - pos - 1
        if lo <= last:
            s1 = st.clone()
            if D.set_iv(s1, n[1], lo, last):
                vals = [elems[pos + i] for i in range(int(lo), int(last) + 1)]
                v = vals[0] if len(vals) == 1 else I.join_many(s1, vals)
                if byref:
                    v = ('r', I.alloc(s1, v))
                I.write_resolved(s1, rp, ('it', 'unk', ity, None) if lo != hi else ('it', 'seq', elems, pos + int(lo) + 1, byref))
                outs.append((s1, some(v)))
        if hi > len(elems) - pos - 1:
            s2 = st.clone()
            if D.set_iv(s2, n[1], len(elems) - pos, hi):
                I.write_resolved(s2, rp, ('it', 'seq', elems, len(elems), byref))
                outs.append((s2, none()))
        return outs
    if it is not None and it[0] == 'it' and it[1] == 'chars':
        sv = it[2]
        outs = []
        cc = char_count(I, st, sv)
        # Some iff n < char count
        s1 = st.clone()
        if it[3] == 0 and D.refine_cmp(s1, 'Lt', n[1], cc):
            c = I.top(s1, {'k': 'char'}, 'ch', lo=0, hi=127 if sv.ascii else 0x10FFFF)
            if lo == hi == 0 and sv.first is not None:
                c = const_int(ord(sv.first), 'char')
            I.write_resolved(s1, rp, ('it', 'chars', sv, None))
            outs.append((s1, some(c)))
        s2 = st.clone()
        if it[3] != 0 or D.refine_cmp(s2, 'Ge', n[1], cc):
            I.write_resolved(s2, rp, ('it', 'chars', sv, None))
            outs.append((s2, none()))
            if it[3] != 0:
                s3 = st.clone()
                outs.append((s3, some(I.top(s3, {'k': 'char'}, 'ch'))))
        return outs
    s1, s2 = st.clone(), st.clone()
    return [(s1, none()), (s2, some(I.top(s2, ity, 'nth') if ity else ('top', None)))]


def _closure_probe(I, st, clo, argvals, site):
    """analyse a closure that std will call an unknown number of times: once, with the given abstract
    arguments; obligations inside are recorded, results are returned for the caller to use or drop"""
    r = I.call_closure(st, clo, argvals, site)
    return r


@model('std::iter::Iterator::collect', 'std::iter::FromIterator::from_iter')
def m_collect(I, st, args, dty, site):
    it = as_iter(I, st, args[0])
    s = st
    if it is not None and it[0] == 'it' and it[1] in ('flat_map', 'map', 'take_while'):
        pass
    v = I.top(s, dty, 'collected') if dty is not None else ('top', None)
    # a collected String/Vec has a length bounded by nothing we track; elements: keep the item type
    return [(s, v)]


@model('std::iter::Iterator::flat_map', 'std::iter::Iterator::map', 'std::iter::Iterator::take_while', 'std::iter::Iterator::filter')
def m_iter_adapter(I, st, args, dty, site):
    """lazy adapters: the closure runs later, an unknown number of times.  Analyse it once on a top item
    (its obligations are recorded); the adapter itself is an unknown-length iterator."""
    it = as_iter(I, st, args[0])
    clo = args[1]
    s = st.clone()
    item = probe_item(I, s, it, clo)
    by_ref = site['callee'].endswith('take_while') or site['callee'].endswith('filter')
    arg = ('r', I.alloc(s, item)) if by_ref else item
    r = _closure_probe(I, s, clo, [arg], site)
    return [(st, ('it', 'unk', None, None))]


def probe_item(I, st, it, clo):
    """a top item for the closure parameter of an iterator adapter"""
    ty = None
    if clo is not None and clo[0] == 'clo' and clo[1] in I.bodies:
        b = I.bodies[clo[1]]
        if b['argc'] >= 2:
            ty = b['locals'][2]
    if it is not None and it[0] == 'it' and it[1] == 'chars':
        return I.top(st, {'k': 'char'}, 'ch')
    if ty is not None:
        if ty['k'] == 'ref' and not (ty['to']['k'] in ('str', 'slice')):
            return I.top(st, ty['to'], 'item')
        return I.top(st, ty, 'item')
    return ('top', None)


@model('std::iter::Iterator::position', 'std::iter::Iterator::find', 'std::iter::Iterator::all', 'std::iter::Iterator::any')
def m_iter_search(I, st, args, dty, site):
    ref, clo = args[0], args[1]
    it = deref(I, st, ref)
    s = st.clone()
    item = probe_item(I, s, it, clo)
    which = site['callee'].rsplit('::', 1)[1]
    arg = ('r', I.alloc(s, item)) if which == 'find' else item
    _closure_probe(I, s, clo, [arg], site)
    s2 = st.clone()
    if which == 'position':
        s3 = st.clone()
        hi = USIZE_MAX
        if it is not None and it[0] == 'it' and it[1] == 'chars':
            # position < number of chars <= byte length
            hi = max(D.get_iv(s3, it[2].len)[1] - 1, 0)
            v = I.top(s3, ty_of_name('usize'), 'pos', lo=0, hi=hi)
            D.PROV[v[1]] = ('charidx', it[2].ident)
            cc = char_count(I, s3, it[2])
            D.rel_set(s3, v[1], cc, '<')
        else:
            v = I.top(s3, ty_of_name('usize'), 'pos', lo=0, hi=hi)
        return [(s2, none()), (s3, some(v))]
    if which == 'find':
        s3 = st.clone()
        return [(s2, none()), (s3, some(I.top(s3, item_ty_of(dty), 'found') if item_ty_of(dty) else ('top', None)))]
    return [(s2, I.top(s2, {'k': 'bool'}, which))]


@model("<std::str::Chars<'a> as std::iter::Iterator>::count", 'std::iter::Iterator::count')
def m_count(I, st, args, dty, site):
    it = args[0]
    if it[0] == 'it' and it[1] == 'chars' and it[3] == 0:
        return [(st, ('i', char_count(I, st, it[2]), 'usize'))]
    return [(st, I.top(st, ty_of_name('usize'), 'count', lo=0, hi=USIZE_MAX))]


# ---------------------------------------------------------------- strings (str-lite)

if not hasattr(D, 'PROV'):
    D.PROV = {}   # vid -> ('bytes'|'chars'|'charidx', str ident): what the number measures (DESIGN F8)
_CC = {}          # StrV.len vid -> char-count vid


def char_count(I, st, sv):
    """vid of s.chars().count(): <= byte length, == byte length when ASCII"""
    if sv.ascii:
        return sv.len
    v = _CC.get(sv.len)
    if v is None:
        v = D.sym_vid(0, USIZE_MAX, f'chars({D.NAME.get(sv.len, "s")})')
        _CC[sv.len] = v
        D.PROV[v] = ('chars', sv.ident)
    lo, hi = D.get_iv(st, sv.len)
    D.set_iv(st, v, (lo + 3) // 4 if lo != -INF else 0, hi)
    D.rel_set(st, v, sv.len, '<=')
    return v


def strv_of(I, st, v):
    """StrV of a &str / &String / String value (None if unknown)"""
    v0 = v
    v = deref(I, st, v)
    if v is None:
        return None
    if v[0] == 'str':
        return v[1]
    if v[0] == 'obj':
        o = st.objs.get(v[1])
        if o is not None and o[0] == 'String':
            return o[1]
    return None


def str_eq(I, st, x, y, ne=False):
    t = f = True
    if x.lits is not None and y.lits is not None:
        if not (x.lits & y.lits):
            t = False
        if len(x.lits) == 1 and x.lits == y.lits:
            f = False
    (xl, xh), (yl, yh) = D.get_iv(st, x.len), D.get_iv(st, y.len)
    if xh < yl or yh < xl:
        t = False
    outs = []
    if t:
        s1 = st.clone()
        if D.refine_cmp(s1, 'Eq', x.len, y.len):
            outs.append((s1, const_int(0 if ne else 1, 'bool')))
    if f:
        outs.append((st.clone(), const_int(1 if ne else 0, 'bool')))
    return outs


@model('core::str::<impl str>::len', 'std::string::String::len')
def m_str_len(I, st, args, dty, site):
    sv = strv_of(I, st, args[0])
    if sv is None:
        return [(st, I.top(st, ty_of_name('usize'), 'len', lo=0, hi=USIZE_MAX))]
    D.PROV.setdefault(sv.len, ('bytes', sv.ident))
    return [(st, ('i', sv.len, 'usize'))]


@model('core::str::<impl str>::is_empty', 'std::string::String::is_empty')
def m_str_is_empty(I, st, args, dty, site):
    sv = strv_of(I, st, args[0])
    if sv is None:
        return None
    return [(st, I.binop(st, 'Eq', ('i', sv.len, 'usize'), const_int(0, 'usize'), {'k': 'bool'}, None, None))]


@model('core::str::<impl str>::chars')
def m_chars(I, st, args, dty, site):
    sv = strv_of(I, st, args[0])
    if sv is None:
        return [(st, ('it', 'unk', {'k': 'char'}, None))]
    return [(st, ('it', 'chars', sv, 0))]


@model('<std::string::String as std::ops::Deref>::deref', 'std::string::String::as_str', 'core::str::<impl str>::as_bytes_dummy')
def m_string_deref(I, st, args, dty, site):
    sv = strv_of(I, st, args[0])
    if sv is None:
        return [(st, ('str', I.fresh_str(st)))]
    return [(st, ('str', sv))]


@model('core::str::<impl str>::as_bytes')
def m_as_bytes(I, st, args, dty, site):
    sv = strv_of(I, st, args[0])
    if sv is None:
        return None
    return [(st, ('slice', {'len': sv.len, 'elems': None, 'elem_ty': ty_of_name('u8'), 'ident': sv.ident}))]


@model('<T as std::string::ToString>::to_string', '<str as std::string::ToString>::to_string', 'std::string::ToString::to_string')
def m_to_string(I, st, args, dty, site):
    a = deref(I, st, args[0])
    s = st
    oid = next(I._oid)
    if a is not None and a[0] == 'str':
        s.objs[oid] = ('String', a[1])
    elif _intarg(a):
        lo, hi = D.get_iv(s, a[1])
        if a[2] == 'char':
            sv = I.fresh_str(s, 'char.to_string', 1, 4 if hi > 127 else 1)
            sv.ascii = True if hi <= 127 else None
        else:
            m = max(abs(lo), abs(hi)) if lo != -INF and hi != INF else 10 ** 39
            dmax = len(str(int(m))) + (1 if lo < 0 else 0)
            dmin = 1
            if lo >= 0:
                dmin = len(str(int(lo)))
            sv = I.fresh_str(s, 'int.to_string', dmin, dmax)
            sv.ascii = True
            sv.digits = lo >= 0
        s.objs[oid] = ('String', sv)
    else:
        s.objs[oid] = ('String', I.fresh_str(s, 'to_string'))
        # Display of a crate type: analyse its fmt body for obligations
        tya = site.get('tyargs') or []
        if tya and tya[0].get('k') == 'adt':
            cand = f"<{tya[0]['path']} as std::fmt::Display>::fmt"
            if cand in I.bodies:
                s3 = st.clone()
                I.call_body(s3, cand, [args[0], ('top', None)], site)
    return [(s, ('obj', oid, 'std::string::String'))]


@model('std::fmt::format', 'std::fmt::format::format_inner')
def m_format(I, st, args, dty, site):
    oid = next(I._oid)
    st.objs[oid] = ('String', I.fresh_str(st, 'format'))
    return [(st, ('obj', oid, 'std::string::String'))]


@model('<std::string::String as std::clone::Clone>::clone')
def m_string_clone(I, st, args, dty, site):
    sv = strv_of(I, st, args[0])
    oid = next(I._oid)
    st.objs[oid] = ('String', sv if sv is not None else I.fresh_str(st, 'clone'))
    return [(st, ('obj', oid, 'std::string::String'))]


# ---------------------------------------------------------------- Vec / HashSet (length-tracking)

def obj_of(I, st, v):
    v = deref(I, st, v)
    if v is not None and v[0] == 'obj':
        return v, st.objs.get(v[1])
    return None, None


@model('std::vec::Vec::<T>::new', 'std::vec::Vec::<T>::with_capacity', 'std::collections::HashSet::<T>::new')
def m_vec_new(I, st, args, dty, site):
    oid = next(I._oid)
    ety = dty['args'][0] if dty and dty.get('args') else None
    kind = 'Set' if 'HashSet' in site['callee'] else 'Vec'
    if kind == 'Vec':
        st.objs[oid] = ('Vec', D.const_vid(0), ety, None)
    else:
        st.objs[oid] = ('Set', D.const_vid(0), ety)
    return [(st, ('obj', oid, dty['path'] if dty else 'std::vec::Vec'))]


@model('std::vec::Vec::<T, A>::push')
def m_vec_push(I, st, args, dty, site):
    h, o = obj_of(I, st, args[0])
    if o is None or o[0] != 'Vec':
        return None
    n = I.binop(st, 'Add', ('i', o[1], 'usize'), const_int(1, 'usize'), ty_of_name('usize'), None, None)
    D.set_iv(st, n[1], 0, USIZE_MAX)
    ev = args[1] if o[3] is None and D.get_iv(st, o[1]) == (0, 0) else (I.join_val(st, st, st, o[3], args[1]) if o[3] is not None else None)
    st.objs[h[1]] = ('Vec', n[1], o[2], ev)
    return [(st, UNIT)]


@model('std::vec::Vec::<T, A>::len', 'std::collections::HashSet::<T, S, A>::len')
def m_vec_len(I, st, args, dty, site):
    h, o = obj_of(I, st, args[0])
    if o is None:
        return [(st, I.top(st, ty_of_name('usize'), 'len', lo=0, hi=USIZE_MAX))]
    return [(st, ('i', o[1], 'usize'))]


@model('<std::vec::Vec<T, A> as std::ops::Deref>::deref', '<std::vec::Vec<T, A> as std::ops::DerefMut>::deref_mut',
       'std::vec::Vec::<T, A>::as_slice')
def m_vec_deref(I, st, args, dty, site):
    h, o = obj_of(I, st, args[0])
    if o is None or o[0] != 'Vec':
        return None
    return [(st, ('slice', {'len': o[1], 'elems': None, 'elem_ty': o[2], 'ident': ('vec', h[1]), 'ev': o[3], 'vec': h[1]}))]


def _slice_elem(I, st, sl):
    if sl.get('ev') is not None:
        return sl['ev']
    if sl.get('elems'):
        return I.join_many(st, list(sl['elems']))
    return I.top(st, sl['elem_ty'], 'elem') if sl.get('elem_ty') else ('top', None)


@model('core::slice::<impl [T]>::len')
def m_slice_len(I, st, args, dty, site):
    a = args[0]
    if a[0] == 'slice':
        return [(st, ('i', a[1]['len'], 'usize'))]
    return None


@model('core::slice::<impl [T]>::is_empty')
def m_slice_is_empty(I, st, args, dty, site):
    a = args[0]
    if a[0] == 'slice':
        return [(st, I.binop(st, 'Eq', ('i', a[1]['len'], 'usize'), const_int(0, 'usize'), {'k': 'bool'}, None, None))]
    return None


@model('core::slice::<impl [T]>::first', 'core::slice::<impl [T]>::last', 'core::slice::<impl [T]>::last_mut', 'core::slice::<impl [T]>::first_mut')
def m_slice_first_last(I, st, args, dty, site):
    a = args[0]
    if a[0] != 'slice':
        return None
    lo, hi = D.get_iv(st, a[1]['len'])
    outs = []
    if hi >= 1:
        s1 = st.clone()
        if D.set_iv(s1, a[1]['len'], 1, hi):
            e = _slice_elem(I, s1, a[1])
            outs.append((s1, some(('r', I.alloc(s1, e)))))
    if lo <= 0:
        s2 = st.clone()
        if D.set_iv(s2, a[1]['len'], 0, 0):
            outs.append((s2, none()))
    return outs


@model('<std::vec::Vec<T, A> as std::ops::Index<I>>::index', 'core::slice::index::<impl std::ops::Index<I> for [T]>::index',
       '<std::vec::Vec<T, A> as std::ops::IndexMut<I>>::index_mut')
def m_vec_index(I, st, args, dty, site):
    base = args[0]
    if base[0] == 'slice':
        lenv, elem = base[1]['len'], _slice_elem(I, st, base[1])
    else:
        h, o = obj_of(I, st, base)
        if o is None or o[0] != 'Vec':
            return None
        lenv = o[1]
        elem = o[3] if o[3] is not None else (I.top(st, o[2], 'elem') if o[2] else ('top', None))
    idx = args[1]
    ob = site_obl(I, site, 'STDPRE')
    if _intarg(idx):
        t, f = D.cmp_possible(st, 'Lt', idx[1], lenv)
        I.record(ob, not f, st, f'index in {D.get_iv(st, idx[1])}, len in {D.get_iv(st, lenv)}' if f else None, cause='index out of bounds')
        if not D.refine_cmp(st, 'Lt', idx[1], lenv):
            return []
        return [(st, ('r', I.alloc(st, elem)))]
    # range index on a slice: start <= end <= len
    if idx[0] == 's' and idx[1] in (RANGE, RANGE_INC, 'std::ops::RangeFrom', 'std::ops::RangeTo', 'std::ops::RangeFull'):
        okp = True
        if idx[1] == RANGE and _intarg(idx[2][0]) and _intarg(idx[2][1]):
            t1, f1 = D.cmp_possible(st, 'Le', idx[2][0][1], idx[2][1][1])
            t2, f2 = D.cmp_possible(st, 'Le', idx[2][1][1], lenv)
            okp = not f1 and not f2
            I.record(ob, okp, st, f'range {D.get_iv(st, idx[2][0][1])}..{D.get_iv(st, idx[2][1][1])} of len {D.get_iv(st, lenv)}' if not okp else None,
                     cause='slice range out of bounds')
            n = I.binop(st, 'Sub', ('i', idx[2][1][1], 'usize'), ('i', idx[2][0][1], 'usize'), ty_of_name('usize'), None, None)
            if n[0] == 'i':
                D.set_iv(st, n[1], 0, USIZE_MAX)
                return [(st, ('slice', {'len': n[1], 'elems': None, 'elem_ty': base[1].get('elem_ty') if base[0] == 'slice' else None, 'ident': next(StrV._ids)}))]
        else:
            I.record(ob, False, st, 'range index of unknown shape', cause='slice range out of bounds')
        return [(st, ('slice', I.fresh_slice(st, base[1].get('elem_ty') if base[0] == 'slice' else None)))]
    I.record(ob, False, st, 'index of unknown shape', cause='index out of bounds')
    return [(st, I.top(st, dty, 'idx') if dty else ('top', None))]


@model('core::slice::<impl [T]>::split_at')
def m_split_at(I, st, args, dty, site):
    a, mid = args[0], args[1]
    if a[0] != 'slice' or not _intarg(mid):
        return None
    ob = site_obl(I, site, 'STDPRE')
    t, f = D.cmp_possible(st, 'Le', mid[1], a[1]['len'])
    I.record(ob, not f, st, f'mid in {D.get_iv(st, mid[1])}, len in {D.get_iv(st, a[1]["len"])}' if f else None, cause='split_at out of bounds')
    if not D.refine_cmp(st, 'Le', mid[1], a[1]['len']):
        return []
    rest = I.binop(st, 'Sub', ('i', a[1]['len'], 'usize'), ('i', mid[1], 'usize'), ty_of_name('usize'), None, None)
    if rest[0] == 'i':
        D.set_iv(st, rest[1], 0, USIZE_MAX)
    left = {'len': mid[1], 'elems': None, 'elem_ty': a[1].get('elem_ty'), 'ident': next(StrV._ids)}
    right = {'len': rest[1], 'elems': None, 'elem_ty': a[1].get('elem_ty'), 'ident': next(StrV._ids)}
    return [(st, ('t', (('slice', left), ('slice', right))))]


@model('std::collections::HashSet::<T, S, A>::contains')
def m_set_contains(I, st, args, dty, site):
    s1, s2 = st.clone(), st.clone()
    h, o = obj_of(I, st, args[0])
    outs = [(s2, const_int(0, 'bool'))]
    if o is None or D.get_iv(st, o[1])[1] >= 1:
        outs.append((s1, const_int(1, 'bool')))
    return outs


@model('std::collections::HashSet::<T, S, A>::insert')
def m_set_insert(I, st, args, dty, site):
    h, o = obj_of(I, st, args[0])
    if o is None:
        return None
    lo, hi = D.get_iv(st, o[1])
    v = D.fresh_vid(st, max(lo, 1), min(hi + 1, USIZE_MAX))
    st.objs[h[1]] = ('Set', v, o[2])
    return [(st, I.top(st, {'k': 'bool'}, 'inserted'))]


@model('<std::collections::HashSet<T, S, A> as std::iter::Extend<T>>::extend')
def m_set_extend(I, st, args, dty, site):
    h, o = obj_of(I, st, args[0])
    if o is None:
        return None
    lo, hi = D.get_iv(st, o[1])
    v = D.fresh_vid(st, lo, USIZE_MAX)
    st.objs[h[1]] = ('Set', v, o[2])
    return [(st, UNIT)]


@model('<std::collections::HashSet<T, S, A> as std::clone::Clone>::clone', '<std::vec::Vec<T, A> as std::clone::Clone>::clone')
def m_coll_clone(I, st, args, dty, site):
    h, o = obj_of(I, st, args[0])
    if o is None:
        return None
    oid = next(I._oid)
    st.objs[oid] = o
    return [(st, ('obj', oid, h[2]))]


# ---------------------------------------------------------------- more Option / Result combinators

@model_if(lambda n: n.startswith('std::convert::num::<impl std::convert::TryFrom<') and n.endswith('>::try_from'))
def m_num_try_from(I, st, args, dty, site):
    return m_try_into(I, st, args, dty, site)


@model('std::result::Result::<T, E>::ok')
def m_res_ok(I, st, args, dty, site):
    v = args[0]
    if v[0] != 'e':
        return None
    vs = {}
    if 0 in v[2]:
        vs[1] = v[2][0]
    if 1 in v[2]:
        c = cause_of(origin_of(I, st, v[2][1][0])) if v[2][1] else None
        vs[0] = (('org', c),) if c else ()
    return [(st, ('e', OPTION, vs))]


@model('std::result::Result::<T, E>::err')
def m_res_err(I, st, args, dty, site):
    v = args[0]
    if v[0] != 'e':
        return None
    vs = {}
    if 1 in v[2]:
        vs[1] = v[2][1]
    if 0 in v[2]:
        vs[0] = ()
    return [(st, ('e', OPTION, vs))]


@model('std::option::Option::<T>::ok_or')
def m_ok_or(I, st, args, dty, site):
    v = args[0]
    if v[0] != 'e':
        return None
    vs = {}
    if 1 in v[2]:
        vs[0] = v[2][1]
    if 0 in v[2]:
        vs[1] = (args[1],)
    return [(st, ('e', RESULT, vs))]


def _closure_each(I, st, clo, payload, site, wrap):
    r = I.call_closure(st, clo, [payload] if payload is not None else [], site)
    if r is None:
        return None
    return [(s2, wrap(v2)) for s2, v2 in r]


@model('std::option::Option::<T>::and_then', 'std::result::Result::<T, E>::and_then')
def m_and_then(I, st, args, dty, site):
    v, clo = args[0], args[1]
    if v[0] != 'e':
        return None
    okv = 1 if v[1] == OPTION else 0
    outs = []
    if okv in v[2]:
        r = _closure_each(I, st, clo, v[2][okv][0], site, lambda x: x)
        if r is None:
            s2 = st.clone()
            outs.append((s2, I.top(s2, dty, 'and_then')))
        else:
            outs.extend(r)
    if (1 - okv) in v[2]:
        outs.append((st.clone(), ('e', v[1], {1 - okv: v[2][1 - okv]})))
    return outs


@model('std::option::Option::<T>::map', 'std::result::Result::<T, E>::map')
def m_map(I, st, args, dty, site):
    v, clo = args[0], args[1]
    if v[0] != 'e':
        return None
    okv = 1 if v[1] == OPTION else 0
    outs = []
    if okv in v[2]:
        r = _closure_each(I, st, clo, v[2][okv][0], site, lambda x: ('e', v[1], {okv: (x,)}))
        if r is None:
            s2 = st.clone()
            outs.append((s2, I.top(s2, dty, 'map')))
        else:
            outs.extend(r)
    if (1 - okv) in v[2]:
        outs.append((st.clone(), ('e', v[1], {1 - okv: v[2][1 - okv]})))
    return outs


@model('std::option::Option::<T>::unwrap_or_else')
def m_opt_unwrap_or_else(I, st, args, dty, site):
    v, clo = args[0], args[1]
    if v[0] != 'e':
        return None
    outs = []
    if 1 in v[2]:
        outs.append((st.clone(), v[2][1][0]))
    if 0 in v[2]:
        I.ambient.append(none_org(v) or ('None@' + site['fn']))
        try:
            r = I.call_closure(st, clo, [], site)
        finally:
            I.ambient.pop()
        if r is None:
            s2 = st.clone()
            outs.append((s2, I.top(s2, dty, 'uoe')))
        else:
            outs.extend(r)
    return outs


@model('std::option::Option::<T>::filter')
def m_opt_filter(I, st, args, dty, site):
    v, clo = args[0], args[1]
    if v[0] != 'e':
        return None
    outs = [(st.clone(), none())]
    if 1 in v[2]:
        s2 = st.clone()
        I.call_closure(s2, clo, [('r', I.alloc(s2, v[2][1][0]))], site)
        outs.append((st.clone(), some(v[2][1][0])))
    return outs


@model('std::option::Option::<T>::as_ref', 'std::option::Option::<T>::as_mut', 'std::result::Result::<T, E>::as_ref')
def m_as_ref(I, st, args, dty, site):
    v = deref(I, st, args[0])
    if v is None or v[0] != 'e':
        return None
    vs = {}
    for vi, fs in v[2].items():
        vs[vi] = tuple(('r', I.alloc(st, f)) for f in fs)
    return [(st, ('e', v[1], vs))]


@model('std::option::Option::<T>::copied', 'std::option::Option::<T>::cloned')
def m_copied(I, st, args, dty, site):
    v = args[0]
    if v[0] != 'e':
        return None
    vs = {}
    for vi, fs in v[2].items():
        vs[vi] = tuple(deref(I, st, f) for f in fs)
    return [(st, ('e', v[1], vs))]


@model('<std::option::Option<T> as std::cmp::PartialEq>::eq')
def m_opt_eq(I, st, args, dty, site):
    return [(st, I.top(st, {'k': 'bool'}, 'eq'))]


@model_if(lambda n: n.startswith('core::num::<impl ') and (n.endswith('::saturating_add') or n.endswith('::saturating_sub')))
def m_saturating(I, st, args, dty, site):
    a, b = args[0], args[1]
    if not (_intarg(a) and _intarg(b)):
        return None
    op = 'Add' if site['callee'].endswith('add') else 'Sub'
    tn = a[2]
    tr = range_of_name(tn)
    ia, ib = D.get_iv(st, a[1]), D.get_iv(st, b[1])
    r = D.iv_add(ia, ib) if op == 'Add' else D.iv_sub(ia, ib)
    outs = []
    if r[1] >= tr[0] and r[0] <= tr[1]:
        s1 = st.clone()
        tup = I.binop(s1, op + 'WithOverflow', a, b, {'k': 'tuple', 'elems': [ty_of_name(tn), {'k': 'bool'}]}, None, None)
        if not s1.dead:
            outs.append((s1, tup[1][0]))
    def refined(over):
        s2 = st.clone()
        # refine the non-constant operand on the saturating branch: a + b > MAX  /  a + b < MIN
        if ib[0] == ib[1]:
            c = ib[0] if op == 'Add' else -ib[0]
            okr = D.set_iv(s2, a[1], tr[1] - c + 1, INF) if over else D.set_iv(s2, a[1], -INF, tr[0] - c - 1)
            if not okr:
                return None
        return s2
    if r[1] > tr[1]:
        s2 = refined(True)
        if s2 is not None:
            outs.append((s2, const_int(tr[1], tn)))
    if r[0] < tr[0]:
        s3 = refined(False)
        if s3 is not None:
            outs.append((s3, const_int(tr[0], tn)))
    return outs
