"""std effect table for E2: transfer functions for the std functions the crate calls.

Three classes (DESIGN section 2): (a) total, result top -- TOTAL_OPAQUE; (b) total with a transfer
function -- the @model functions; (c) functions with a precondition, which record an obligation
(UNWRAP / PANIC / STDPRE).  A callee with no row is reported as unmodelled by the interpreter.
"""
from . import domain as D
from .domain import INF
from .absint import (OPTION, RESULT, CFLOW, ORDERING, UNIT, StrV, const_int, tyname, range_of_name,
                     ty_of_name)

U64MAX = (1 << 64) - 1
USIZE_MAX = (1 << 63) - 1   # no allocation exceeds isize::MAX bytes

_EXACT = {}
_PRED = []


def model(*names):
    def deco(f):
        for n in names:
            _EXACT[n] = f
        return f
    return deco


def model_if(pred):
    def deco(f):
        _PRED.append((pred, f))
        return f
    return deco


def install(interp):
    interp.models.update(_EXACT)
    interp.model_preds.extend(_PRED)
    interp.ambient = []


def none(org=None):
    return ('e', OPTION, {0: (('org', org),) if org else ()})


def none_org(v):
    """origin tag of a None produced by a checked operation (hidden pseudo-field)"""
    if v is not None and v[0] == 'e' and v[1] == OPTION and 0 in v[2] and v[2][0] and v[2][0][0][0] == 'org':
        return v[2][0][0][1]
    return None


def some(v):
    return ('e', OPTION, {1: (v,)})


def ok(v):
    return ('e', RESULT, {0: (v,)})


def err(v):
    return ('e', RESULT, {1: (v,)})


def boolv(st, t, f):
    """bool value from (can be true, can be false)"""
    return ('i', D.fresh_vid(st, 0 if f else 1, 1 if t else 0), 'bool')


def deref(I, st, v):
    n = 0
    while v is not None and v[0] == 'r' and n < 4:
        v = I.read_resolved(st, ('L',) + v[1])
        n += 1
    return v


def origin_of(I, st, v, depth=0):
    """origin stack of the OutOfRange / error struct inside v (if any)"""
    if v is None or depth > 4:
        return None
    v = deref(I, st, v)
    if v is None:
        return None
    if v[0] == 's':
        if v[3] is not None and ('OutOfRange' in v[1] or 'InvalidFormat' in v[1]):
            return v[3]
        for f in v[2]:
            o = origin_of(I, st, f, depth + 1)
            if o:
                return o
        return v[3]
    if v[0] == 'e':
        for fs in v[2].values():
            for f in fs:
                o = origin_of(I, st, f, depth + 1)
                if o:
                    return o
    if v[0] == 't':
        for f in v[1]:
            o = origin_of(I, st, f, depth + 1)
            if o:
                return o
    return None


def cause_of(origin):
    """innermost crate function (outside errors::) in an origin stack, closures folded into their parent"""
    if not origin:
        return None
    for f in reversed(origin):
        if f.startswith('errors::'):
            continue
        c = f.split('::{closure')[0]
        CAUSE_STACKS.setdefault(c, set()).add(tuple(x.split('::{closure')[0] for x in origin if not x.startswith('errors::')))
        return c
    return None


CAUSE_STACKS = {}      # innermost function -> the call stacks (outermost first) in which it created an error value


def site_obl(I, site, kind, sub=None):
    return I.site(site['fn'], kind, sub or site['callee'], site['bb'], -1, site.get('span'))


# ---------------------------------------------------------------- panics / unwraps

@model_if(lambda n: n in ('std::rt::panic_fmt', 'std::rt::panic_display', 'core::panicking::panic', 'core::panicking::panic_fmt',
                          'std::rt::begin_panic', 'core::panicking::panic_display', 'core::panicking::unreachable_display',
                          'core::panicking::panic_explicit', 'core::panicking::assert_failed', 'core::option::expect_failed',
                          'core::result::unwrap_failed', 'core::option::unwrap_failed', 'core::panicking::panic_nounwind'))
def m_panic(I, st, args, dty, site):
    o = site_obl(I, site, 'PANIC')
    cause = None
    for a in args:
        cause = cause_of(origin_of(I, st, a))
        if cause:
            break
    if cause is None and I.ambient:
        cause = I.ambient[-1]
    if cause is None:
        # raised in the arm of a match that took the failing variant of a Result / Option, in this very function
        fid = site.get('fid') if isinstance(site, dict) else None
        for n in st.notes:
            if isinstance(n, tuple) and n and n[0] == 'failing' and n[1] == fid:
                cause = n[2]
        if cause is None and fid in st.frames:
            # ... or a local of this function holds a Result / Option that can only be the failing variant on this path
            for l, v in st.frames[fid].items():
                if isinstance(l, int) and l >= 0 and v is not None and v[0] == 'e' and v[1] in (RESULT, OPTION):
                    bad = 1 if v[1] == RESULT else 0
                    if set(v[2]) == {bad}:
                        c = None
                        for f in v[2][bad]:
                            c = c or cause_of(origin_of(I, st, f))
                        if c is None:
                            c = none_org(v)
                        cause = cause or c
    I.record(o, False, st, 'explicit panic reachable', cause=cause or 'unattributed')
    for h in I.panic_hooks:
        h(I, st, site, cause or 'unattributed')
    return []


def _unwrap(I, st, args, dty, site, okv, what):
    v = args[0]
    o = site_obl(I, site, 'UNWRAP')
    if v[0] != 'e':
        I.record(o, False, st, f'{what} on unknown value', cause='unknown')
        return [(st, I.top(st, dty, 'unwrap'))]
    bad = [k for k in v[2] if k != okv]
    if bad:
        cause = None
        for k in bad:
            for f in v[2][k]:
                cause = cause_of(origin_of(I, st, f))
        if cause is None:
            cause = none_org(v) or ('None' if v[1] == OPTION else 'Err')
        I.record(o, False, st, f'{what}: failing variant reachable', cause=cause)
        if okv not in v[2]:
            for h in I.panic_hooks:
                h(I, st, site, cause)
    else:
        I.record(o, True, st)
    if okv in v[2]:
        fs = v[2][okv]
        return [(st, fs[0] if fs else UNIT)]
    return []


@model('std::result::Result::<T, E>::unwrap', 'std::result::Result::<T, E>::expect')
def m_res_unwrap(I, st, args, dty, site):
    return _unwrap(I, st, args, dty, site, 0, 'Result::unwrap/expect')


@model('std::option::Option::<T>::unwrap', 'std::option::Option::<T>::expect')
def m_opt_unwrap(I, st, args, dty, site):
    return _unwrap(I, st, args, dty, site, 1, 'Option::unwrap/expect')


@model('std::result::Result::<T, E>::unwrap_err')
def m_res_unwrap_err(I, st, args, dty, site):
    return _unwrap(I, st, args, dty, site, 1, 'Result::unwrap_err')


# ---------------------------------------------------------------- Try / ?

@model('<std::result::Result<T, E> as std::ops::Try>::branch')
def m_try_branch(I, st, args, dty, site):
    v = args[0]
    if v[0] != 'e':
        return None
    vs = {}
    if 0 in v[2]:
        vs[0] = (v[2][0][0],)
    if 1 in v[2]:
        vs[1] = (('e', RESULT, {1: v[2][1]}),)
    return [(st, ('e', CFLOW, vs))]


@model('<std::option::Option<T> as std::ops::Try>::branch')
def m_try_branch_opt(I, st, args, dty, site):
    v = args[0]
    if v[0] != 'e':
        return None
    vs = {}
    if 1 in v[2]:
        vs[0] = (v[2][1][0],)
    if 0 in v[2]:
        vs[1] = (('e', OPTION, {0: ()}),)
    return [(st, ('e', CFLOW, vs))]


@model_if(lambda n: 'FromResidual' in n and n.endswith('::from_residual'))
def m_from_residual(I, st, args, dty, site):
    v = args[0]
    if v[0] != 'e':
        return None
    if v[1] == OPTION:
        return [(st, ('e', OPTION, {0: ()}))]
    payload = v[2].get(1)
    if payload is None:
        return []
    e = payload[0]
    ety = dty['args'][1] if dty and dty.get('k') == 'adt' and len(dty.get('args', [])) > 1 else None
    if ety is not None and ety.get('k') == 'adt' and e is not None and e[0] in ('e', 's') and e[1] == ety['path']:
        return [(st, err(e))]
    if ety is not None and ety.get('k') == 'adt' and ety['path'] == 'std::string::String' and e is not None and e[0] == 'obj':
        return [(st, err(e))]
    # conversion through From: look for a crate impl
    if ety is not None and ety.get('k') == 'adt':
        srcname = None
        if e is not None and e[0] in ('e', 's'):
            srcname = e[1]
        for cand in I.bodies:
            if cand.startswith('<' + ety['path'] + ' as std::convert::From<') and cand.endswith('>>::from'):
                if srcname and srcname in cand:
                    outs = I.call_body(st, cand, [e], site)
                    return [(s2, err(v2)) for s2, v2 in outs]
    return [(st, err(I.top(st, ety, 'err') if ety is not None else ('top', None)))]


# ---------------------------------------------------------------- Option / Result combinators

def _with_ambient(I, st, payload, f):
    c = cause_of(origin_of(I, st, payload)) if payload is not None else None
    I.ambient.append(c)
    try:
        return f()
    finally:
        I.ambient.pop()


@model('std::result::Result::<T, E>::map_err')
def m_map_err(I, st, args, dty, site):
    v, clo = args[0], args[1]
    if v[0] != 'e':
        return None
    outs = []
    if 0 in v[2]:
        outs.append((st.clone(), ('e', RESULT, {0: v[2][0]})))
    if 1 in v[2]:
        e = v[2][1][0]
        r = _with_ambient(I, st, e, lambda: I.call_closure(st, clo, [e], site))
        if r is None:
            s2 = st.clone()
            ety = dty['args'][1] if dty and dty.get('k') == 'adt' else None
            outs.append((s2, err(I.top(s2, ety, 'err') if ety else ('top', None))))
        else:
            for s2, ev in r:
                outs.append((s2, err(ev)))
    return outs


@model('std::result::Result::<T, E>::unwrap_or_else')
def m_res_unwrap_or_else(I, st, args, dty, site):
    v, clo = args[0], args[1]
    if v[0] != 'e':
        return None
    outs = []
    if 0 in v[2]:
        outs.append((st.clone(), v[2][0][0]))
    if 1 in v[2]:
        e = v[2][1][0]
        r = _with_ambient(I, st, e, lambda: I.call_closure(st, clo, [e], site))
        if r is None:
            s2 = st.clone()
            outs.append((s2, I.top(s2, dty, 'uoe')))
        else:
            outs.extend(r)
    return outs


@model('std::option::Option::<T>::ok_or_else')
def m_ok_or_else(I, st, args, dty, site):
    v, clo = args[0], args[1]
    if v[0] != 'e':
        return None
    outs = []
    if 1 in v[2]:
        outs.append((st.clone(), ok(v[2][1][0])))
    if 0 in v[2]:
        I.ambient.append(none_org(v))
        try:
            r = I.call_closure(st, clo, [], site)
        finally:
            I.ambient.pop()
        if r is None:
            s2 = st.clone()
            outs.append((s2, err(('top', None))))
        else:
            for s2, ev in r:
                outs.append((s2, err(ev)))
    return outs


@model('std::option::Option::<T>::unwrap_or', 'std::result::Result::<T, E>::unwrap_or')
def m_unwrap_or(I, st, args, dty, site):
    v, d = args[0], args[1]
    if v[0] != 'e':
        return None
    okv = 1 if v[1] == OPTION else 0
    outs = []
    if okv in v[2]:
        outs.append((st.clone(), v[2][okv][0]))
    if (1 - okv) in v[2]:
        outs.append((st.clone(), d))
    return outs


@model('std::option::Option::<T>::unwrap_or_default')
def m_unwrap_or_default(I, st, args, dty, site):
    v = args[0]
    if v[0] != 'e':
        return None
    outs = []
    if 1 in v[2]:
        outs.append((st.clone(), v[2][1][0]))
    if 0 in v[2]:
        s2 = st.clone()
        outs.append((s2, default_of(I, s2, dty)))
    return outs


def default_of(I, st, ty):
    tn = tyname(ty) if ty else None
    if tn:
        return const_int(0, tn)
    if ty and ty['k'] == 'ref' and ty['to']['k'] == 'str':
        return ('str', I.lit_str(st, ''))
    if ty and ty['k'] == 'adt' and ty['path'] == OPTION:
        return none()
    if ty and ty['k'] == 'adt' and ty['path'] == 'std::string::String':
        return new_string_obj(I, st, I.lit_str(st, ''))          # String::default() is the empty string
    return I.top(st, ty, 'default') if ty else ('top', None)


@model('std::option::Option::<T>::is_some', 'std::option::Option::<T>::is_none', 'std::result::Result::<T, E>::is_ok',
       'std::result::Result::<T, E>::is_err')
def m_is_variant(I, st, args, dty, site):
    v = deref(I, st, args[0])
    if v is None or v[0] != 'e':
        return None
    name = site['callee']
    want = {'is_some': 1, 'is_none': 0, 'is_ok': 0, 'is_err': 1}[name.rsplit('::', 1)[1]]
    outs = []
    # split so that the enum is refined in each branch
    rp = ('L',) + args[0][1] if args[0][0] == 'r' else None
    for vi, fs in v[2].items():
        s2 = st.clone()
        if rp is not None:
            I.write_resolved(s2, rp, ('e', v[1], {vi: fs}))
        outs.append((s2, const_int(1 if vi == want else 0, 'bool')))
    return outs


@model('<std::option::Option<T> as std::default::Default>::default')
def m_opt_default(I, st, args, dty, site):
    return [(st, none())]


@model_if(lambda n: n.endswith(' as std::default::Default>::default') and n[1:].split(' ')[0] in
          ('i8', 'i16', 'i32', 'i64', 'i128', 'isize', 'u8', 'u16', 'u32', 'u64', 'u128', 'usize', 'bool'))
def m_int_default(I, st, args, dty, site):
    return [(st, const_int(0, tyname(dty)))]


@model_if(lambda n: n.startswith('std::clone::impls::<impl std::clone::Clone for ') or n in (
    '<std::option::Option<T> as std::clone::Clone>::clone', '<std::result::Result<T, E> as std::clone::Clone>::clone'))
def m_clone(I, st, args, dty, site):
    v = deref(I, st, args[0]) if 'for &T' not in site['callee'] else I.read_resolved(st, ('L',) + args[0][1]) if args[0][0] == 'r' else args[0]
    if v is None:
        return None
    return [(st, v)]


@model('std::hint::must_use', 'std::convert::identity')
def m_identity(I, st, args, dty, site):
    return [(st, args[0])]


# ---------------------------------------------------------------- integers

def _intarg(a):
    return a is not None and a[0] == 'i'


@model_if(lambda n: n.startswith('core::num::<impl ') and n.endswith('::is_negative'))
def m_is_negative(I, st, args, dty, site):
    a = args[0]
    if not _intarg(a):
        return None
    return [(st, I.binop(st, 'Lt', a, const_int(0, a[2]), {'k': 'bool'}, None, None))]


@model_if(lambda n: n.startswith('core::num::<impl ') and n.endswith('::is_positive'))
def m_is_positive(I, st, args, dty, site):
    a = args[0]
    if not _intarg(a):
        return None
    return [(st, I.binop(st, 'Gt', a, const_int(0, a[2]), {'k': 'bool'}, None, None))]


def _abs_split(I, st, a, tn, tmax=None):
    """|a| by case split on the sign, so that each branch is an exact affine function of a"""
    lo, hi = D.get_iv(st, a[1])
    outs = []
    if hi >= 0:
        s1 = st.clone()
        if D.set_iv(s1, a[1], max(lo, 0), hi):
            outs.append((s1, ('i', a[1], tn)))
    if lo < 0:
        s2 = st.clone()
        if D.set_iv(s2, a[1], lo, min(hi, -1)):
            l2, h2 = D.get_iv(s2, a[1])
            top_ = -l2 if tmax is None else min(-l2, tmax)
            v = D.term_vid(s2, ('Neg', a[1]), -h2, top_, D.aff_scale(D.aff_of(a[1]), -1))
            outs.append((s2, ('i', v, tn)))
    return outs


@model_if(lambda n: n.startswith('core::num::<impl ') and n.endswith('::unsigned_abs'))
def m_unsigned_abs(I, st, args, dty, site):
    a = args[0]
    if not _intarg(a):
        return None
    return _abs_split(I, st, a, tyname(dty))


@model_if(lambda n: n.startswith('core::num::<impl ') and n.endswith('::abs'))
def m_abs(I, st, args, dty, site):
    a = args[0]
    if not _intarg(a):
        return None
    lo, hi = D.get_iv(st, a[1])
    tr = range_of_name(a[2])
    o = site_obl(I, site, 'STDPRE')
    I.record(o, lo > tr[0], st, f'abs of a value that may be {a[2]}::MIN' if lo <= tr[0] else None, cause='abs overflow')
    return _abs_split(I, st, a, a[2], tr[1])


@model_if(lambda n: n.startswith('core::num::<impl ') and n.endswith('::abs_diff'))
def m_abs_diff(I, st, args, dty, site):
    a, b = args[0], args[1]
    if not (_intarg(a) and _intarg(b)):
        return None
    tn = tyname(dty)
    rty = ty_of_name(tn)
    outs = []
    for op, x, y in (('Ge', a, b), ('Lt', a, b)):
        s2 = st.clone()
        if not D.refine_cmp(s2, op, a[1], b[1]):
            continue
        hi_, lo_ = (x, y) if op == 'Ge' else (y, x)
        # the difference of the larger and the smaller operand, computed without overflow in the unsigned result type
        lh, ll = D.get_iv(s2, hi_[1]), D.get_iv(s2, lo_[1])
        v = D.term_vid(s2, ('Sub', hi_[1], lo_[1]), max(lh[0] - ll[1], 0), max(lh[1] - ll[0], 0), D.aff_add(D.aff_of(hi_[1]), D.aff_of(lo_[1]), -1))
        outs.append((s2, ('i', v, tn)))
    return outs


@model_if(lambda n: n.startswith('core::num::<impl ') and n.endswith('::signum'))
def m_signum(I, st, args, dty, site):
    a = args[0]
    if not _intarg(a):
        return None
    outs = []
    z = const_int(0, a[2])
    for op, val in (('Lt', -1), ('Eq', 0), ('Gt', 1)):
        s2 = st.clone()
        if D.refine_cmp(s2, op, a[1], z[1]):
            outs.append((s2, const_int(val, a[2])))
    return outs


@model_if(lambda n: n.startswith('core::num::<impl ') and n.endswith('::rem_euclid'))
def m_rem_euclid(I, st, args, dty, site):
    a, b = args[0], args[1]
    if not (_intarg(a) and _intarg(b)):
        return None
    bl, bh = D.get_iv(st, b[1])
    o = site_obl(I, site, 'STDPRE')
    al, ah = D.get_iv(st, a[1])
    tr = range_of_name(a[2])
    okp = not (bl <= 0 <= bh) and not (al <= tr[0] and bl <= -1 <= bh)
    I.record(o, okp, st, f'rem_euclid divisor in [{bl},{bh}]', cause='rem_euclid precondition')
    if bl > 0:
        if al >= 0 and ah < bl:
            return [(st, a)]
        if b[1] in D.CONSTVAL:
            q, r = D.divmod_euclid(st, a[1], D.CONSTVAL[b[1]])
            return [(st, ('i', r, a[2]))]
        v = D.term_vid(st, ('rem_euclid', a[1], b[1]), 0, bh - 1, None)
        return [(st, ('i', v, a[2]))]
    return [(st, I.top(st, dty, 'rem_euclid'))]


@model_if(lambda n: n.startswith('core::num::<impl ') and n.endswith('::div_euclid'))
def m_div_euclid(I, st, args, dty, site):
    a, b = args[0], args[1]
    if not (_intarg(a) and _intarg(b)):
        return None
    bl, bh = D.get_iv(st, b[1])
    al, ah = D.get_iv(st, a[1])
    tr = range_of_name(a[2])
    o = site_obl(I, site, 'STDPRE')
    okp = not (bl <= 0 <= bh) and not (al <= tr[0] and bl <= -1 <= bh)
    I.record(o, okp, st, f'div_euclid divisor in [{bl},{bh}]', cause='div_euclid precondition')
    if bl > 0 and b[1] in D.CONSTVAL:
        q, r = D.divmod_euclid(st, a[1], D.CONSTVAL[b[1]])
        return [(st, ('i', q, a[2]))]
    return [(st, I.top(st, dty, 'div_euclid'))]


@model_if(lambda n: n.startswith('core::num::<impl ') and (n.endswith('::checked_add') or n.endswith('::checked_sub') or n.endswith('::checked_mul')))
def m_checked(I, st, args, dty, site):
    a, b = args[0], args[1]
    if not (_intarg(a) and _intarg(b)):
        return None
    op = {'add': 'Add', 'sub': 'Sub', 'mul': 'Mul'}[site['callee'].rsplit('_', 1)[1]]
    tn = a[2]
    tr = range_of_name(tn)
    ia, ib = D.get_iv(st, a[1]), D.get_iv(st, b[1])
    r = {'Add': D.iv_add, 'Sub': D.iv_sub, 'Mul': D.iv_mul}[op](ia, ib)
    outs = []
    if r[1] >= tr[0] and r[0] <= tr[1]:
        s2 = st.clone()
        # value of the exact operation, restricted to the type on the Some arm
        tup = I.binop(s2, op + 'WithOverflow', a, b, {'k': 'tuple', 'elems': [ty_of_name(tn), {'k': 'bool'}]}, None, None)
        outs.append((s2, some(tup[1][0])))
    if r[0] < tr[0] or r[1] > tr[1]:
        outs.append((st.clone(), none('int::checked_' + op.lower())))
    return outs


@model_if(lambda n: n.startswith('core::num::<impl ') and n.endswith('::pow'))
def m_pow(I, st, args, dty, site):
    a, e = args[0], args[1]
    if not (_intarg(a) and _intarg(e)):
        return None
    tn = a[2]
    tr = range_of_name(tn)
    (al, ah), (el, eh) = D.get_iv(st, a[1]), D.get_iv(st, e[1])
    o = site_obl(I, site, 'STDPRE')
    if al < 0 or eh == INF or eh > 200:
        I.record(o, False, st, f'pow base in [{al},{ah}] exponent in [{el},{eh}]', cause='pow overflow')
        return [(st, I.top(st, dty, 'pow'))]
    lo, hi = al ** el, ah ** eh
    if al == 0 and el == 0:
        lo = 0
    okp = hi <= tr[1]
    I.record(o, okp, st, f'pow result up to {hi} exceeds {tn}::MAX' if not okp else None, cause='pow overflow')
    if al == ah and el == eh and okp:
        return [(st, const_int(al ** el, tn))]
    return [(st, ('i', D.fresh_vid(st, max(lo, tr[0]), min(hi, tr[1])), tn))]


@model_if(lambda n: n.startswith('core::num::<impl ') and n.endswith('::from_be_bytes'))
def m_from_be_bytes(I, st, args, dty, site):
    return [(st, I.top(st, dty, 'be'))]


@model_if(lambda n: (n.startswith('core::num::<impl u8>::is_ascii') or n.startswith('std::char::methods::<impl char>::is_ascii')
                     or n.startswith('core::char::methods::<impl char>::is_ascii')))
def m_is_ascii_x(I, st, args, dty, site):
    a = deref(I, st, args[0])
    if not _intarg(a):
        return [(st, I.top(st, {'k': 'bool'}, 'isascii'))]
    kind = site['callee'].rsplit('::', 1)[1]
    lo, hi = D.get_iv(st, a[1])
    ranges = {'is_ascii_digit': [(48, 57)], 'is_ascii_alphabetic': [(65, 90), (97, 122)],
              'is_ascii_whitespace': [(9, 10), (12, 13), (32, 32)], 'is_ascii': [(0, 127)]}.get(kind)
    if ranges is None:
        return [(st, I.top(st, {'k': 'bool'}, 'isascii'))]
    can_t = any(not (hi < l or lo > h) for l, h in ranges)
    can_f = not any(l <= lo and hi <= h for l, h in ranges)
    outs = []
    if can_t:
        for (l, h) in ranges:
            if hi < l or lo > h:
                continue
            s2 = st.clone()
            if D.set_iv(s2, a[1], l, h):
                outs.append((s2, const_int(1, 'bool')))
    if can_f:
        outs.append((st.clone(), const_int(0, 'bool')))
    return outs


@model('std::cmp::min', 'std::cmp::max')
def m_minmax(I, st, args, dty, site):
    a, b = args
    if _intarg(a) and _intarg(b):
        ia, ib = D.get_iv(st, a[1]), D.get_iv(st, b[1])
        if site['callee'].endswith('min'):
            r = (min(ia[0], ib[0]), min(ia[1], ib[1]))
        else:
            r = (max(ia[0], ib[0]), max(ia[1], ib[1]))
        return [(st, ('i', D.fresh_vid(st, r[0], r[1]), a[2]))]
    # references to values of a crate type with its own Ord: decide with that cmp (std: min(a, b) = a if a <= b else b,
    # max(a, b) = b if a <= b else a), so that the chosen value is ordered against the other one on each path
    ta = deref(I, st, a) if a[0] == 'r' else None
    if ta is not None and ta[0] == 's':
        cand = f'<{ta[1]} as std::cmp::Ord>::cmp'
        if cand in I.bodies:
            outs = []
            is_min = site['callee'].endswith('min')
            for s2, o in I.call_body(st, cand, [a, b], site):
                if o[0] != 'e':
                    continue
                for vi in o[2]:       # 0 Less, 1 Equal, 2 Greater
                    s3 = s2.clone()
                    a_le_b = vi in (0, 1)
                    pick = (a if a_le_b else b) if is_min else (b if a_le_b else a)
                    s3.trace = s3.trace + (('minmax', 'min' if is_min else 'max', 0 if pick is a else 1, vi),)
                    outs.append((s3, pick))
            if outs:
                return outs
    # result is one of the two arguments
    s1, s2 = st.clone(), st.clone()
    return [(s1, a), (s2, b)]


def _ordering(I, st, a, b):
    lt, ge = D.cmp_possible(st, 'Lt', a[1], b[1])
    eq, ne = D.cmp_possible(st, 'Eq', a[1], b[1])
    gt, le = D.cmp_possible(st, 'Gt', a[1], b[1])
    outs = []
    for flag, op, vi in ((lt, 'Lt', 0), (eq, 'Eq', 1), (gt, 'Gt', 2)):
        if flag:
            s2 = st.clone()
            if D.refine_cmp(s2, op, a[1], b[1]):
                outs.append((s2, ('e', ORDERING, {vi: ()})))
    return outs


@model_if(lambda n: n.startswith('std::cmp::impls::<impl std::cmp::Ord for ') and n.endswith('>::cmp'))
def m_int_cmp(I, st, args, dty, site):
    a, b = deref(I, st, args[0]), deref(I, st, args[1])
    if not (_intarg(a) and _intarg(b)):
        return None
    return _ordering(I, st, a, b)


@model_if(lambda n: n.startswith('std::cmp::impls::<impl std::cmp::PartialOrd for ') and n.endswith('>::partial_cmp'))
def m_int_partial_cmp(I, st, args, dty, site):
    a, b = deref(I, st, args[0]), deref(I, st, args[1])
    if not (_intarg(a) and _intarg(b)):
        return None
    return [(s, some(v)) for s, v in _ordering(I, st, a, b)]


def _lex_ordering(I, st, xs, ys):
    """lexicographic comparison of two tuples of integers: [(state, 0 Less | 1 Equal | 2 Greater)], each state refined by what decided it"""
    if len(xs) != len(ys) or not all(_intarg(x) and _intarg(y) for x, y in zip(xs, ys)):
        return None
    outs = []
    pending = [st]
    for x, y in zip(xs, ys):
        nxt = []
        for s in pending:
            for s2, o in _ordering(I, s, x, y):
                vi = next(iter(o[2]))
                if vi == 1:
                    nxt.append(s2)
                else:
                    outs.append((s2, vi))
        pending = nxt
    outs.extend((s, 1) for s in pending)
    return outs


def _tuple_args(I, st, args):
    a, b = deref(I, st, args[0]), deref(I, st, args[1])
    if a is None or b is None or a[0] != 't' or b[0] != 't':
        return None, None
    return list(a[1]), list(b[1])


@model_if(lambda n: n.startswith('core::tuple::<impl std::cmp::PartialOrd for (') and n.rsplit('::', 1)[1] in ('lt', 'le', 'gt', 'ge', 'partial_cmp'))
def m_tuple_partial_ord(I, st, args, dty, site):
    xs, ys = _tuple_args(I, st, args)
    r = _lex_ordering(I, st, xs, ys) if xs is not None else None
    if r is None:
        return None
    which = site['callee'].rsplit('::', 1)[1]
    if which == 'partial_cmp':
        return [(s, some(('e', ORDERING, {vi: ()}))) for s, vi in r]
    truth = {'lt': {0}, 'le': {0, 1}, 'gt': {2}, 'ge': {1, 2}}[which]
    return [(s, const_int(1 if vi in truth else 0, 'bool')) for s, vi in r]


@model_if(lambda n: n.startswith('core::tuple::<impl std::cmp::Ord for (') and n.endswith('::cmp'))
def m_tuple_cmp(I, st, args, dty, site):
    xs, ys = _tuple_args(I, st, args)
    r = _lex_ordering(I, st, xs, ys) if xs is not None else None
    if r is None:
        return None
    return [(s, ('e', ORDERING, {vi: ()})) for s, vi in r]


@model_if(lambda n: n.startswith('core::tuple::<impl std::cmp::PartialEq for (') and n.rsplit('::', 1)[1] in ('eq', 'ne'))
def m_tuple_eq(I, st, args, dty, site):
    xs, ys = _tuple_args(I, st, args)
    r = _lex_ordering(I, st, xs, ys) if xs is not None else None
    if r is None:
        return None
    ne = site['callee'].endswith('::ne')
    return [(s, const_int(1 if ((vi != 1) == ne) else 0, 'bool')) for s, vi in r]


@model('std::cmp::PartialOrd::lt', 'std::cmp::PartialOrd::le', 'std::cmp::PartialOrd::gt', 'std::cmp::PartialOrd::ge')
def m_partial_ord_default(I, st, args, dty, site):
    tya = site.get('tyargs') or []
    if tya and tya[0].get('k') == 'adt':
        cand = f"<{tya[0]['path']} as std::cmp::PartialOrd>::partial_cmp"
        if cand in I.bodies:
            outs = []
            which = site['callee'].rsplit('::', 1)[1]
            truth = {'lt': {0}, 'le': {0, 1}, 'gt': {2}, 'ge': {1, 2}}[which]
            for s2, v in I.call_body(st, cand, args, site):
                if v[0] == 'e' and 1 in v[2] and v[2][1][0][0] == 'e':
                    for vi in v[2][1][0][2]:
                        outs.append((s2.clone(), const_int(1 if vi in truth else 0, 'bool')))
                else:
                    outs.append((s2, I.top(s2, {'k': 'bool'}, 'cmp')))
            return outs
    return None


@model_if(lambda n: n.startswith('std::cmp::impls::<impl std::cmp::PartialOrd<&B> for &A>::') and n.rsplit('::', 1)[1] in ('lt', 'le', 'gt', 'ge'))
def m_ref_ord(I, st, args, dty, site):
    a, b = deref(I, st, args[0]), deref(I, st, args[1])
    # references compare like what they point to (possibly through several levels of reference)
    for _ in range(3):
        if a is not None and a[0] == 'r':
            a = deref(I, st, a)
        if b is not None and b[0] == 'r':
            b = deref(I, st, b)
    which = site['callee'].rsplit('::', 1)[1]
    if _intarg(a) and _intarg(b):
        return [(st, I.binop(st, {'lt': 'Lt', 'le': 'Le', 'gt': 'Gt', 'ge': 'Ge'}[which], a, b, {'k': 'bool'}, None, None))]
    truth = {'lt': {0}, 'le': {0, 1}, 'gt': {2}, 'ge': {1, 2}}[which]
    if a is not None and b is not None and a[0] == 't' and b[0] == 't':
        r = _lex_ordering(I, st, list(a[1]), list(b[1]))
        if r is not None:
            return [(s, const_int(1 if vi in truth else 0, 'bool')) for s, vi in r]
    if a is not None and a[0] in ('s', 'e'):
        # a crate type: through its own partial_cmp
        cand = f"<{a[1]} as std::cmp::PartialOrd>::partial_cmp"
        if cand in I.bodies:
            ra, rb = ('r', I.alloc(st, a)), ('r', I.alloc(st, b))
            outs = []
            for s2, v in I.call_body(st, cand, [ra, rb], site):
                if v[0] == 'e' and 1 in v[2] and v[2][1][0][0] == 'e':
                    for vi in v[2][1][0][2]:
                        outs.append((s2.clone(), const_int(1 if vi in truth else 0, 'bool')))
                else:
                    outs.append((s2, I.top(s2, {'k': 'bool'}, 'cmp')))
            return outs
    return None


@model_if(lambda n: n.startswith('std::cmp::impls::<impl std::cmp::PartialEq<&B> for &A>::'))
def m_ref_eq(I, st, args, dty, site):
    a, b = deref(I, st, args[0]), deref(I, st, args[1])
    ne = site['callee'].endswith('::ne')
    if _intarg(a) and _intarg(b):
        return [(st, I.binop(st, 'Ne' if ne else 'Eq', a, b, {'k': 'bool'}, None, None))]
    if a is not None and b is not None and a[0] == 'str' and b[0] == 'str':
        return str_eq(I, st, a[1], b[1], ne)
    if a is not None and b is not None and a[0] == 'e' and b[0] == 'e' and a[1] == b[1]:
        if len(a[2]) == 1 and len(b[2]) == 1 and not any(a[2].values()) and not any(b[2].values()):
            same = set(a[2]) == set(b[2])
            return [(st, const_int(1 if same != ne else 0, 'bool'))]
    return [(st, I.top(st, {'k': 'bool'}, 'eq'))]


# ---------------------------------------------------------------- conversions

def _conv_int(I, st, a, dty):
    v, okc = I.cast_int(st, a, dty)
    return v


@model('<T as std::convert::Into<U>>::into', '<T as std::convert::From<T>>::from')
def m_into(I, st, args, dty, site):
    a = args[0]
    if _intarg(a) and tyname(dty):
        v, okc = I.cast_int(st, a, dty)
        if okc is False:
            return None
        return [(st, v)]
    tya = site.get('tyargs') or []
    if len(tya) >= 2 and tya[1].get('k') == 'adt':
        src = tya[0]
        for cand in I.bodies:
            if cand.startswith('<' + tya[1]['path'] + ' as std::convert::From<') and cand.endswith('>>::from'):
                want = src.get('path') or tyname(src) or ''
                if want and want in cand[len(tya[1]['path']):]:
                    return I.call_body(st, cand, [a], site)
    if a is not None and dty is not None and a[0] in ('s', 'e') and dty.get('k') == 'adt' and a[1] == dty['path']:
        return [(st, a)]
    return None


@model_if(lambda n: n.startswith('std::convert::num::<impl std::convert::From<') and n.endswith('>::from'))
def m_num_from(I, st, args, dty, site):
    a = args[0]
    if not _intarg(a):
        return None
    if a[2] == 'bool' and a[1] not in D.CONSTVAL and D.get_iv(st, a[1]) == (0, 1):
        # a truth value used as a number (`i128::from(flag)`): decide the flag here, so that what made it true or false is known on
        # each path -- exactly as if the code had branched on it
        t = D.TERM.get(a[1])
        outs = []
        for truth in (0, 1):
            s2 = st.clone()
            if not D.set_iv(s2, a[1], truth, truth):
                continue
            if t is not None and t[0] in D.NEG and isinstance(t[1], int) and isinstance(t[2], int):
                if not D.refine_cmp(s2, t[0] if truth else D.NEG[t[0]], t[1], t[2]):
                    continue
            outs.append((s2, const_int(truth, tyname(dty))))
        if outs:
            return outs
    v, okc = I.cast_int(st, a, dty)
    return [(st, v)]


@model('<T as std::convert::TryInto<U>>::try_into', '<T as std::convert::TryFrom<U>>::try_from')
def m_try_into(I, st, args, dty, site):
    a = args[0]
    if dty is None or dty.get('k') != 'adt' or dty['path'] != RESULT:
        return None
    tgt = dty['args'][0]
    tn = tyname(tgt)
    if _intarg(a) and tn:
        tr = range_of_name(tn)
        lo, hi = D.get_iv(st, a[1])
        outs = []
        if hi >= tr[0] and lo <= tr[1]:
            s1 = st.clone()
            if D.set_iv(s1, a[1], tr[0], tr[1]):
                outs.append((s1, ok(('i', a[1], tn))))
        tfe = ('s', 'std::num::TryFromIntError', (), ('int::try_from',))
        if lo < tr[0]:
            s2 = st.clone()
            if D.set_iv(s2, a[1], lo, tr[0] - 1):
                outs.append((s2, err(tfe)))
        if hi > tr[1]:
            s3 = st.clone()
            if D.set_iv(s3, a[1], tr[1] + 1, hi):
                outs.append((s3, err(tfe)))
        return outs
    # slice -> array
    if a is not None and a[0] == 'slice' and tgt.get('k') == 'array' and tgt.get('len') is not None:
        n = tgt['len']
        lo, hi = D.get_iv(st, a[1]['len'])
        outs = []
        if lo <= n <= hi:
            s1 = st.clone()
            D.set_iv(s1, a[1]['len'], n, n)
            outs.append((s1, ok(I.top(s1, tgt, 'arr'))))
        if not (lo == hi == n):
            outs.append((st.clone(), err(('top', dty['args'][1]))))
        return outs
    return None


# ---------------------------------------------------------------- Duration / time

DUR = 'std::time::Duration'


def dur_top(I, st, name='dur'):
    secs = I.top(st, ty_of_name('u64'), name + '.secs')
    nanos = I.top(st, ty_of_name('u32'), name + '.subsec_nanos', lo=0, hi=999_999_999)
    return ('s', DUR, (secs, nanos), None)


@model('std::time::Duration::as_secs')
def m_dur_as_secs(I, st, args, dty, site):
    d = deref(I, st, args[0])
    if d is None or d[0] != 's':
        return None
    return [(st, d[2][0])]


@model('std::time::Duration::subsec_nanos')
def m_dur_subsec(I, st, args, dty, site):
    d = deref(I, st, args[0])
    if d is None or d[0] != 's':
        return None
    return [(st, d[2][1])]


@model('std::time::Duration::as_nanos')
def m_dur_as_nanos(I, st, args, dty, site):
    d = deref(I, st, args[0])
    if d is None or d[0] != 's':
        return None
    u128 = ty_of_name('u128')
    s = ('i', d[2][0][1], 'u128')
    m = I.binop(st, 'Mul', s, const_int(1_000_000_000, 'u128'), u128, None, None)
    r = I.binop(st, 'Add', m, ('i', d[2][1][1], 'u128'), u128, None, None)
    return [(st, r)]


@model('std::time::Duration::from_secs')
def m_dur_from_secs(I, st, args, dty, site):
    if not _intarg(args[0]):
        return None
    return [(st, ('s', DUR, (args[0], const_int(0, 'u32')), None))]


@model('std::time::Duration::from_nanos')
def m_dur_from_nanos(I, st, args, dty, site):
    a = args[0]
    if not _intarg(a):
        return None
    u64 = ty_of_name('u64')
    secs = I.binop(st, 'Div', a, const_int(1_000_000_000, 'u64'), u64, None, None)
    nanos = I.binop(st, 'Rem', a, const_int(1_000_000_000, 'u64'), u64, None, None)
    return [(st, ('s', DUR, (secs, ('i', nanos[1], 'u32')), None))]


@model('<std::time::Duration as std::ops::Add>::add')
def m_dur_add(I, st, args, dty, site):
    a, b = args
    if a[0] != 's' or b[0] != 's':
        return None
    (sl, sh) = D.iv_add(D.get_iv(st, a[2][0][1]), D.get_iv(st, b[2][0][1]))
    o = site_obl(I, site, 'STDPRE')
    I.record(o, sh + 1 <= U64MAX, st, f'Duration + Duration: seconds up to {sh + 1} overflow u64' if sh + 1 > U64MAX else None,
             cause='Duration add overflow')
    # exact sum: nanoseconds carry into the seconds
    u64 = ty_of_name('u64')
    n = I.binop(st, 'Add', ('i', a[2][1][1], 'u64'), ('i', b[2][1][1], 'u64'), u64, None, None)
    s0 = I.binop(st, 'Add', ('i', a[2][0][1], 'u64'), ('i', b[2][0][1], 'u64'), u64, None, None)
    if n[0] == 'i' and s0[0] == 'i' and sh + 1 <= U64MAX:
        q = I.binop(st, 'Div', n, const_int(1_000_000_000, 'u64'), u64, None, None)
        r = I.binop(st, 'Rem', n, const_int(1_000_000_000, 'u64'), u64, None, None)
        secs = I.binop(st, 'Add', s0, q, u64, None, None)
        if q[0] == 'i' and r[0] == 'i' and secs[0] == 'i':
            return [(st, ('s', DUR, (secs, ('i', r[1], 'u32')), None))]
    return [(st, dur_top(I, st, 'sum'))]


@model('std::time::SystemTime::now')
def m_now(I, st, args, dty, site):
    return [(st, ('top', dty))]


@model('std::time::SystemTime::duration_since')
def m_duration_since(I, st, args, dty, site):
    s1, s2 = st.clone(), st.clone()
    d = dur_top(I, s1, 'since_epoch')
    # A-CLOCK: the system clock is before the last representable year (5_879_611): seconds since 1970 < 1.855e14
    D.set_iv(s1, d[2][0][1], 0, 185_480_451_590_399)
    return [(s1, ok(d)), (s2, err(('s', 'std::time::SystemTimeError', (), ('std::time::SystemTime::duration_since',))))]


# ---------------------------------------------------------------- formatting (total, opaque)

TOTAL_OPAQUE = (
    'core::fmt::rt::Argument::<\'_>::new_debug',
    'std::fmt::Arguments::<\'a>::from_str', 'std::fmt::Arguments::<\'a>::new_const',
    'std::fmt::Arguments::<\'a>::new_v1', 'std::fmt::Formatter::<\'a>::write_fmt', 'std::fmt::Formatter::<\'a>::write_str',
    'std::fmt::Formatter::<\'a>::debug_struct_field1_finish', 'std::fmt::Formatter::<\'a>::debug_struct_field2_finish',
    'std::fmt::Formatter::<\'a>::debug_struct_field3_finish', 'std::fmt::Formatter::<\'a>::debug_struct_fields_finish',
    'std::fmt::Formatter::<\'a>::debug_tuple_field1_finish', 'std::fmt::Formatter::<\'a>::debug_tuple_field2_finish',
    'std::fmt::Formatter::<\'a>::debug_tuple_field3_finish', 'std::fs::read', 'serde::de::Error::custom',
)


@model(*TOTAL_OPAQUE)
def m_total_opaque(I, st, args, dty, site):
    return [(st, I.top(st, dty, 'opaque') if dty is not None else ('top', None))]


@model_if(lambda n: n.startswith('core::hash::') or n.endswith('as std::hash::Hash>::hash'))
def m_hash(I, st, args, dty, site):
    return [(st, UNIT)]


# ---------------------------------------------------------------- iterators
# ('it','seq', elems, pos, byref)       known finite sequence
# ('it','unk', item_ty)                 unknown length, items are top of item_ty
# ('it','enum', inner, idx|None)  ('it','zip', a, b)  ('it','chunks', slice, n)  ('it','chars', StrV, pos|None)
# RangeInclusive / Range values are ('s', path, (start, end, exhausted), None) and iterate in place

RANGE_INC = 'std::ops::RangeInclusive'
RANGE = 'std::ops::Range'


def item_ty_of(dty):
    """Option<Item> -> Item"""
    if dty and dty.get('k') == 'adt' and dty['path'] == OPTION:
        return dty['args'][0]
    return None


def as_iter(I, st, x):
    """coerce an IntoIterator value into an iterator value"""
    if x is None:
        return None
    if x[0] == 'it':
        return x
    if x[0] == 's' and x[1] in (RANGE_INC, RANGE):
        return x
    if x[0] == 'a':
        return ('it', 'seq', x[1], 0, False)
    if x[0] == 'slice':
        if x[1].get('vec') is not None:
            return ('it', 'vec', x[1]['vec'], True)
        if x[1].get('elems') is not None:
            return ('it', 'seq', x[1]['elems'], 0, True)
        # a slice iterator knows how many elements it has handed out (position <= length)
        return ('it', 'unk', {'k': 'ref', 'mut': False, 'to': x[1].get('elem_ty') or {'k': 'other'}}, x[1]['len'], const_int(0, 'usize'))
    if x[0] == 'r':
        tgt = I.read_resolved(st, ('L',) + x[1])
        if tgt is None:
            return None
        if tgt[0] == 'a':
            return ('it', 'seq', tgt[1], 0, True)
        if tgt[0] == 'obj':
            o = st.objs.get(tgt[1])
            if o is not None and o[0] == 'Vec':
                return ('it', 'vec', tgt[1], True)
            if o is not None and o[0] == 'Set':
                return ('it', 'unk', {'k': 'ref', 'mut': False, 'to': o[2] or {'k': 'other'}}, o[1])
        return None
    if x[0] == 'obj':
        o = st.objs.get(x[1])
        if o is not None and o[0] == 'Vec':
            return ('it', 'vec', x[1], False)
        if o is not None and o[0] == 'Set':
            return ('it', 'unk', o[2] or {'k': 'other'}, o[1])
    return None


@model('<I as std::iter::IntoIterator>::into_iter', 'std::array::iter::<impl std::iter::IntoIterator for [T; N]>::into_iter',
       '<std::vec::Vec<T, A> as std::iter::IntoIterator>::into_iter', 'core::slice::<impl [T]>::iter',
       'std::slice::<impl [T]>::iter', 'core::slice::<impl [T]>::iter_mut')
def m_into_iter(I, st, args, dty, site):
    it = as_iter(I, st, args[0])
    if it is None:
        tya = site.get('tyargs') or []
        I.note('into_iter of unknown collection')
        return [(st, ('it', 'unk', None, None))]
    return [(st, it)]


def iter_next(I, st, it, item_ty):
    """-> list of (state, new_iter, option_value)"""
    k = it[1] if it[0] == 'it' else 'range'
    if k == 'seq':
        elems, pos, byref = it[2], it[3], it[4]
        if pos >= len(elems):
            return [(st, it, none())]
        e = elems[pos]
        if byref:
            e = ('r', I.alloc(st, e))
        return [(st, ('it', 'seq', elems, pos + 1, byref), some(e))]
    if k == 'anyof':
        elems, byref = it[2], it[3]
        s1, s2 = st.clone(), st.clone()
        outs = [(s1, it, none())]
        if elems:
            e = I.join_many(s2, list(elems))
            if byref:
                e = ('r', I.alloc(s2, e))
            outs.append((s2, it, some(e)))
        return outs
    if k == 'unk':
        s1, s2 = st.clone(), st.clone()
        ty = it[2] if it[2] is not None else item_ty
        v = I.top(s2, ty, 'item') if ty is not None else ('top', None)
        from .entries import apply_invariants
        apply_invariants(I, s2, v)
        lenv = it[3] if len(it) > 3 else None
        pos = it[4] if len(it) > 4 else None
        if pos is not None and lenv is not None and pos[0] == 'i':
            outs = []
            # invariant of the iterator itself: it starts at 0 and advances only while position < length
            D.rel_set(s1, pos[1], lenv, '<=')
            D.rel_set(s2, pos[1], lenv, '<=')
            if D.refine_cmp(s1, 'Ge', pos[1], lenv):
                outs.append((s1, it, none()))
            if D.refine_cmp(s2, 'Lt', pos[1], lenv):
                npos = I.binop(s2, 'Add', pos, const_int(1, 'usize'), ty_of_name('usize'), None, None)
                outs.append((s2, ('it', 'unk', it[2], lenv, npos if npos[0] == 'i' else None), some(v)))
            return outs
        outs = [(s1, it, none())]
        if lenv is None or D.get_iv(s2, lenv)[1] >= 1:
            outs.append((s2, it, some(v)))
        return outs
    if k == 'range':
        if len(it[2]) == 3:
            start, end, exh = it[2]
        else:
            start, end = it[2][0], it[2][1]
            exh = const_int(0, 'bool')
        inclusive = it[1] == RANGE_INC
        if start[0] == 'i' and end[0] == 'i':
            (sl, sh), (el, eh) = D.get_iv(st, start[1]), D.get_iv(st, end[1])
            (xl, xh) = D.get_iv(st, exh[1]) if exh[0] == 'i' else (0, 1)
            if sl == sh and el == eh and xl == xh:
                if xl == 1 or sl > el or (not inclusive and sl >= el):
                    return [(st, it, none())]
                if inclusive and sl == el:
                    nit = ('s', it[1], (start, end, const_int(1, 'bool')), None)
                elif len(it[2]) == 3:
                    nit = ('s', it[1], (const_int(sl + 1, start[2]), end, exh), None)
                else:
                    nit = ('s', it[1], (const_int(sl + 1, start[2]), end), None)
                return [(st, nit, some(start))]
            s1, s2 = st.clone(), st.clone()
            hi = eh if inclusive else eh - 1
            outs = [(s1, it, none())]
            if sl <= hi:
                outs.append((s2, it, some(('i', D.fresh_vid(s2, sl, hi), start[2]))))
            return outs
        s1, s2 = st.clone(), st.clone()
        return [(s1, it, none()), (s2, it, some(I.top(s2, item_ty, 'item') if item_ty else ('top', None)))]
    if k == 'enum':
        inner, idx = it[2], it[3]
        outs = []
        for s2, ninner, ov in iter_next(I, st, inner, item_ty['elems'][1] if item_ty and item_ty.get('k') == 'tuple' else None):
            if 1 in ov[2]:
                iv = const_int(idx, 'usize') if idx is not None else I.top(s2, ty_of_name('usize'), 'idx', lo=0, hi=USIZE_MAX)
                outs.append((s2, ('it', 'enum', ninner, idx + 1 if idx is not None and ninner[1:2] == ('seq',) else None),
                             some(('t', (iv, ov[2][1][0])))))
            else:
                outs.append((s2, ('it', 'enum', ninner, idx), none()))
        return outs
    if k == 'zip':
        outs = []
        tys = item_ty['elems'] if item_ty and item_ty.get('k') == 'tuple' else (None, None)
        for s2, na, oa in iter_next(I, st, it[2], tys[0]):
            if 1 not in oa[2]:
                outs.append((s2, ('it', 'zip', na, it[3]), none()))
                continue
            for s3, nb, ob in iter_next(I, s2, it[3], tys[1]):
                if 1 not in ob[2]:
                    outs.append((s3, ('it', 'zip', na, nb), none()))
                else:
                    outs.append((s3, ('it', 'zip', na, nb), some(('t', (oa[2][1][0], ob[2][1][0])))))
        return outs
    if k == 'chunks':
        sl, n = it[2], it[3]
        s1, s2 = st.clone(), st.clone()
        outs = [(s1, it, none())]
        lo, hi = D.get_iv(s2, sl['len'])
        nn = D.get_iv(s2, n[1])
        if hi >= max(nn[0], 1):
            piece = {'len': n[1], 'elems': None, 'elem_ty': sl.get('elem_ty'), 'ident': next(StrV._ids)}
            outs.append((s2, it, some(('slice', piece))))
        return outs
    if k == 'vec':
        oid, byref = it[2], it[3]
        vec_sync(I, st, oid)
        o = st.objs.get(oid)
        s1, s2 = st.clone(), st.clone()
        outs = [(s1, it, none())]
        if o is None or D.get_iv(s2, o[1])[1] >= 1:
            if o is not None:
                D.set_iv(s2, o[1], max(D.get_iv(s2, o[1])[0], 1), D.get_iv(s2, o[1])[1])
                e = conc_elem(I, s2, o[3], o[2])
            else:
                e = ('top', None)
            if byref:
                e = ('r', I.alloc(s2, e))
            outs.append((s2, it, some(e)))
        return outs
    if k == 'strs':
        sv = it[2]
        s1, s2 = st.clone(), st.clone()
        outs = [(s1, it, none())]
        hi = D.get_iv(s2, sv.len)[1] if sv is not None else USIZE_MAX
        nv = D.fresh_vid(s2, 0, hi if hi != INF else USIZE_MAX)
        if sv is not None:
            D.rel_set(s2, nv, sv.len, '<=')
        piece = StrV(nv, ascii_=True if (sv is not None and sfacts(s2, sv)['ascii']) else None)
        outs.append((s2, it, some(('str', piece))))
        return outs
    if k == 'chars':
        sv, pos = it[2], it[3]
        lo, hi = D.get_iv(st, sv.len)
        outs = []
        if pos == 0 and lo >= 1 and sv.first is not None:
            return [(st, ('it', 'chars', sv, 1), some(const_int(ord(sv.first), 'char')))]
        if pos == 0 and hi == 0:
            return [(st, it, none())]
        s1, s2 = st.clone(), st.clone()
        if not (pos == 0 and lo >= 1):
            outs.append((s1, ('it', 'chars', sv, pos), none()))
        need = (pos + 1) if isinstance(pos, int) else 1
        if hi >= need and D.set_iv(s2, sv.len, max(lo, need), hi):
            if pos == 0:
                # the first char of a given string value is one value: reuse its vid so that a refinement
                # (a match on it) is seen by every later `chars().next()` on the same string
                f = s2.objs.get(('sf', sv.ident)) or {}
                fv = f.get('first_vid')
                if fv is None:
                    c = I.top(s2, {'k': 'char'}, 'first_char', lo=0, hi=127 if sv.ascii else 0x10FFFF)
                    set_sfact(s2, sv, first_vid=c[1])
                    set_sfact(s1, sv, first_vid=c[1])
                else:
                    s2.iv.setdefault(fv, D.get_iv(s2, fv))
                    c = ('i', fv, 'char')
            else:
                c = I.top(s2, {'k': 'char'}, 'ch', lo=0, hi=127 if sv.ascii else 0x10FFFF)
            if pos == 0 and sv.first is not None:
                c = const_int(ord(sv.first), 'char')
            outs.append((s2, ('it', 'chars', sv, pos + 1 if isinstance(pos, int) else None), some(c)))
        return outs
    s1, s2 = st.clone(), st.clone()
    return [(s1, it, none()), (s2, it, some(I.top(s2, item_ty, 'item') if item_ty else ('top', None)))]


@model_if(lambda n: n.endswith(' as std::iter::Iterator>::next') or n.endswith('::next') and 'std::iter::Iterator for' in n)
def m_iter_next(I, st, args, dty, site):
    ref = args[0]
    if ref[0] != 'r':
        return None
    rp = ('L',) + ref[1]
    it = I.read_resolved(st, rp)
    if it is None or not (it[0] == 'it' or (it[0] == 's' and it[1] in (RANGE, RANGE_INC))):
        I.note('next() on unknown iterator')
        s1, s2 = st.clone(), st.clone()
        ity = item_ty_of(dty)
        return [(s1, none()), (s2, some(I.top(s2, ity, 'item') if ity else ('top', None)))]
    outs = []
    for s2, nit, ov in iter_next(I, st, it, item_ty_of(dty)):
        I.write_resolved(s2, rp, nit)
        outs.append((s2, ov))
    return outs


@model('std::ops::RangeInclusive::<Idx>::new')
def m_range_inc_new(I, st, args, dty, site):
    return [(st, ('s', RANGE_INC, (args[0], args[1], const_int(0, 'bool')), None))]


@model('std::ops::RangeInclusive::<Idx>::contains', 'std::ops::Range::<Idx>::contains')
def m_range_contains(I, st, args, dty, site):
    r = deref(I, st, args[0])
    x = deref(I, st, args[1])
    if r is None or r[0] != 's' or not _intarg(x) or not _intarg(r[2][0]) or not _intarg(r[2][1]):
        return [(st, I.top(st, {'k': 'bool'}, 'contains'))]
    inclusive = r[1] == RANGE_INC
    lo, hi = r[2][0], r[2][1]
    outs = []
    s1 = st.clone()
    if D.refine_cmp(s1, 'Ge', x[1], lo[1]) and D.refine_cmp(s1, 'Le' if inclusive else 'Lt', x[1], hi[1]):
        outs.append((s1, const_int(1, 'bool')))
    s2 = st.clone()
    if D.refine_cmp(s2, 'Lt', x[1], lo[1]):
        outs.append((s2, const_int(0, 'bool')))
    s3 = st.clone()
    if D.refine_cmp(s3, 'Gt' if inclusive else 'Ge', x[1], hi[1]):
        outs.append((s3, const_int(0, 'bool')))
    return outs


@model('std::iter::Iterator::enumerate')
def m_enumerate(I, st, args, dty, site):
    it = as_iter(I, st, args[0]) or ('it', 'unk', None, None)
    return [(st, ('it', 'enum', it, 0 if it[0] == 'it' and it[1] == 'seq' else None))]


@model('std::iter::Iterator::skip', 'std::iter::Iterator::take', 'std::iter::Iterator::skip_while', 'std::iter::Iterator::step_by_dummy')
def m_iter_skip_take(I, st, args, dty, site):
    """adapters that only drop items: a known sequence stays known (constant count), anything else yields at most what the base yields"""
    it = as_iter(I, st, args[0])
    which = site['callee'].rsplit('::', 1)[1]
    n = args[1] if len(args) > 1 else None
    if it is not None and it[0] == 'it' and it[1] == 'seq' and which in ('skip', 'take') and _intarg(n):
        lo, hi = D.get_iv(st, n[1])
        if lo == hi:
            k = int(lo)
            rest = it[2][it[3]:]
            return [(st, ('it', 'seq', tuple(rest[k:] if which == 'skip' else rest[:k]), 0, it[4]))]
    if which == 'skip_while' and len(args) > 1:
        s = st.clone()
        item = probe_item(I, s, it, args[1])
        _closure_probe(I, s, args[1], [('r', I.alloc(s, item))], site)
    bound = None
    if it is not None and it[0] == 'it' and it[1] == 'unk' and len(it) > 3 and it[3] is not None:
        bound = it[3]
    elif it is not None and it[0] == 'it' and it[1] == 'unk' and len(it) > 5 and it[5] is not None and it[5][0] == 'atmost':
        bound = it[5][1]
    elif it is not None and it[0] == 'it' and it[1] == 'chars':
        bound = it[2].len
    ity = it[2] if it is not None and it[0] == 'it' and it[1] == 'unk' and len(it) > 2 else ({'k': 'char'} if it is not None and it[0] == 'it' and it[1] == 'chars' else None)
    if which == 'take' and _intarg(n) and bound is None:
        return [(st, ('it', 'unk', ity, None, None, ('atmost', n[1])))]
    return [(st, ('it', 'unk', ity, None, None, ('atmost', bound)) if bound is not None else ('it', 'unk', ity, None))]


@model_if(lambda n: n.startswith('<') and ' as std::ops::' in n and n.rsplit('::', 1)[1] in ('add', 'sub', 'mul', 'div', 'rem')
          and n.split(' as std::ops::')[1].split('<')[0] in ('Add', 'Sub', 'Mul', 'Div', 'Rem'))
def m_ops_on_refs(I, st, args, dty, site):
    """`a * &b`, `&a + &b`, ... on integers: the operator of the values (std forwards the reference impls), overflow checked as in the crate's own code"""
    a, b = args[0], args[1]
    for _ in range(2):
        if a is not None and a[0] == 'r':
            a = deref(I, st, a)
        if b is not None and b[0] == 'r':
            b = deref(I, st, b)
    if not (_intarg(a) and _intarg(b)) or dty is None or not tyname(dty):
        return None
    op = {'add': 'Add', 'sub': 'Sub', 'mul': 'Mul', 'div': 'Div', 'rem': 'Rem'}[site['callee'].rsplit('::', 1)[1]]
    if op in ('Div', 'Rem'):
        bl, bh = D.get_iv(st, b[1])
        o = site_obl(I, site, 'ARITH', 'div0')
        I.record(o, not (bl <= 0 <= bh), st, f'divisor in [{bl}, {bh}]')
        if bl <= 0 <= bh:
            if bl == 0 and bh > 0:
                D.set_iv(st, b[1], 1, bh)
            elif bh == 0 and bl < 0:
                D.set_iv(st, b[1], bl, -1)
    r = I.binop(st, op, a, b, dty, None, None)
    if r[0] != 'i':
        return [(st, r)]
    lo, hi = D.get_iv(st, r[1])
    tr = range_of_name(tyname(dty))
    if op in ('Add', 'Sub', 'Mul'):
        o = site_obl(I, site, 'ARITH', 'overflow:' + op)
        I.record(o, tr[0] <= lo and hi <= tr[1], st, f'result in [{lo}, {hi}] but type range is [{tr[0]}, {tr[1]}]')
        D.set_iv(st, r[1], max(lo, tr[0]), min(hi, tr[1]))
    return [(st, r)]


@model('std::iter::Iterator::sum', 'std::iter::Iterator::product')
def m_iter_sum(I, st, args, dty, site):
    it = as_iter(I, st, args[0])
    if it is not None and it[0] == 'it' and it[1] == 'seq' and dty is not None and tyname(dty) and all(_intarg(e) for e in it[2][it[3]:]):
        # the sum of a known short sequence, term by term in the result type (overflow is an obligation of that addition)
        which = site['callee'].rsplit('::', 1)[1]
        acc = const_int(0 if which == 'sum' else 1, tyname(dty))
        for e in it[2][it[3]:]:
            acc = I.binop(st, 'Add' if which == 'sum' else 'Mul', acc, ('i', e[1], tyname(dty)), dty, None, None)
            if acc[0] != 'i':
                return [(st, I.top(st, dty, which))]
        lo, hi = D.get_iv(st, acc[1])
        tr = range_of_name(tyname(dty))
        o = site_obl(I, site, 'ARITH', 'overflow:' + which)
        I.record(o, tr[0] <= lo and hi <= tr[1], st, f'{which} in [{lo}, {hi}] but type range is [{tr[0]}, {tr[1]}]')
        return [(st, acc)]
    return [(st, I.top(st, dty, 'sum') if dty is not None else ('top', None))]


@model('std::iter::once')
def m_iter_once(I, st, args, dty, site):
    return [(st, ('it', 'seq', (args[0],), 0, False))]


@model('std::iter::Iterator::chain')
def m_iter_chain(I, st, args, dty, site):
    a, b = as_iter(I, st, args[0]), as_iter(I, st, args[1])
    if (a is not None and a[0] == 'it' and a[1] == 'unk' and len(a) > 5 and a[5] is not None and a[5][0] == 'bidx' and b is not None and b[0] == 'it' and b[1] == 'seq'
            and len(b[2]) - b[3] == 1 and b[2][b[3]][0] == 'i' and b[2][b[3]][1] == a[5][1].len):
        # the char boundaries of the string followed by its length: all positions at which the string can be cut
        return [(st, ('it', 'unk', ty_of_name('usize'), None, None, ('bidx_end', a[5][1])))]
    if a is not None and b is not None and a[0] == b[0] == 'it' and a[1] == b[1] == 'seq' and a[4] == b[4]:
        return [(st, ('it', 'seq', tuple(a[2][a[3]:]) + tuple(b[2][b[3]:]), 0, a[4]))]
    return [(st, ('it', 'unk', None, None))]


@model('std::iter::Iterator::rev')
def m_rev(I, st, args, dty, site):
    it = as_iter(I, st, args[0])
    if it is not None and it[0] == 'it' and it[1] == 'seq':
        return [(st, ('it', 'seq', tuple(reversed(it[2][it[3]:])), 0, it[4]))]
    if it is not None and it[0] == 'it' and it[1] == 'unk':
        return [(st, it)]
    return [(st, ('it', 'unk', None, None))]


@model('std::iter::Iterator::zip')
def m_zip(I, st, args, dty, site):
    a = as_iter(I, st, args[0]) or ('it', 'unk', None, None)
    b = as_iter(I, st, args[1]) or ('it', 'unk', None, None)
    return [(st, ('it', 'zip', a, b))]


@model('core::slice::<impl [T]>::chunks_exact')
def m_chunks_exact(I, st, args, dty, site):
    sl, n = args[0], args[1]
    if sl[0] != 'slice' or not _intarg(n):
        return None
    o = site_obl(I, site, 'STDPRE')
    lo, hi = D.get_iv(st, n[1])
    I.record(o, lo >= 1, st, f'chunk size in [{lo},{hi}] may be 0' if lo < 1 else None, cause='chunks_exact(0)')
    return [(st, ('it', 'chunks', sl[1], n))]


@model('std::iter::Iterator::step_by')
def m_step_by(I, st, args, dty, site):
    n = args[1]
    o = site_obl(I, site, 'STDPRE')
    lo, hi = D.get_iv(st, n[1]) if _intarg(n) else (0, INF)
    I.record(o, lo >= 1, st, f'step in [{lo},{hi}] may be 0' if lo < 1 else None, cause='step_by(0)')
    it = as_iter(I, st, args[0])
    ity = None
    if it is not None and it[0] == 's' and _intarg(it[2][0]):
        ity = ty_of_name(it[2][0][2])
    return [(st, ('it', 'unk', ity, None))]


@model('std::iter::Iterator::nth')
def m_nth(I, st, args, dty, site):
    ref, n = args[0], args[1]
    if ref[0] != 'r' or not _intarg(n):
        return None
    rp = ('L',) + ref[1]
    it = I.read_resolved(st, rp)
    ity = item_ty_of(dty)
    lo, hi = D.get_iv(st, n[1])
    if it is not None and it[0] == 'it' and it[1] == 'seq':
        elems, pos, byref = it[2], it[3], it[4]
        outs = []
        last = min(hi, len(elems) - pos - 1) if hi != INF else len(elems) - pos - 1
        if lo <= last:
            s1 = st.clone()
            if D.set_iv(s1, n[1], lo, last):
                vals = [elems[pos + i] for i in range(int(lo), int(last) + 1)]
                v = vals[0] if len(vals) == 1 else I.join_many(s1, vals)
                if byref:
                    v = ('r', I.alloc(s1, v))
                I.write_resolved(s1, rp, ('it', 'unk', ity, None) if lo != hi else ('it', 'seq', elems, pos + int(lo) + 1, byref))
                outs.append((s1, some(v)))
        if hi > len(elems) - pos - 1:
            s2 = st.clone()
            if D.set_iv(s2, n[1], len(elems) - pos, hi):
                I.write_resolved(s2, rp, ('it', 'seq', elems, len(elems), byref))
                outs.append((s2, none()))
        return outs
    if it is not None and it[0] == 'it' and it[1] == 'unk' and len(it) > 5 and it[5] is not None and it[5][0] == 'bidx_end':
        # the n-th cut position: exactly n chars lie before it (None when the string has fewer than n chars)
        sv = it[5][1]
        outs = [(st.clone(), none())]
        s1 = st.clone()
        lh = D.get_iv(s1, sv.len)[1]
        v = I.top(s1, ty_of_name('usize'), 'cut', lo=lo, hi=min(4 * hi, lh) if hi != INF else lh)
        if D.refine_cmp(s1, 'Le', v[1], sv.len):
            D.PROV[v[1]] = ('boundary', sv.ident)       # a byte offset at which a char of that string starts (or its end)
            if not hasattr(I, 'char_offset'):
                I.char_offset = {}
            I.char_offset[v[1]] = (sv.ident, (lo, hi))
            I.write_resolved(s1, rp, ('it', 'unk', ty_of_name('usize'), None))
            outs.append((s1, some(v)))
        return outs
    if it is not None and it[0] == 'it' and it[1] == 'chars':
        sv = it[2]
        outs = []
        cc = char_count(I, st, sv)
        # Some iff n < char count
        s1 = st.clone()
        if it[3] == 0 and D.refine_cmp(s1, 'Lt', n[1], cc):
            c = I.top(s1, {'k': 'char'}, 'ch', lo=0, hi=127 if sv.ascii else 0x10FFFF)
            if lo == hi == 0 and sv.first is not None:
                c = const_int(ord(sv.first), 'char')
            I.write_resolved(s1, rp, ('it', 'chars', sv, None))
            outs.append((s1, some(c)))
        s2 = st.clone()
        if it[3] != 0 or D.refine_cmp(s2, 'Ge', n[1], cc):
            I.write_resolved(s2, rp, ('it', 'chars', sv, None))
            outs.append((s2, none()))
            if it[3] != 0:
                s3 = st.clone()
                outs.append((s3, some(I.top(s3, {'k': 'char'}, 'ch'))))
        return outs
    s1, s2 = st.clone(), st.clone()
    return [(s1, none()), (s2, some(I.top(s2, ity, 'nth') if ity else ('top', None)))]


def _closure_probe(I, st, clo, argvals, site):
    """analyse a closure that std will call an unknown number of times: once, with the given abstract
    arguments; obligations inside are recorded, results are returned for the caller to use or drop"""
    r = I.call_closure(st, clo, argvals, site)
    return r


@model('std::iter::Iterator::collect', 'std::iter::FromIterator::from_iter')
def m_collect(I, st, args, dty, site):
    it = as_iter(I, st, args[0])
    s = st
    if it is not None and it[0] == 'it' and it[1] in ('flat_map', 'map', 'take_while'):
        pass
    v = I.top(s, dty, 'collected') if dty is not None else ('top', None)
    # a collected String/Vec has a length bounded by nothing we track; elements: keep the item type
    return [(s, v)]


@model('std::iter::Iterator::flat_map', 'std::iter::Iterator::map', 'std::iter::Iterator::take_while', 'std::iter::Iterator::filter')
def m_iter_adapter(I, st, args, dty, site):
    """lazy adapters: the closure runs later, an unknown number of times.  Analyse it once on a top item
    (its obligations are recorded); the adapter itself is an unknown-length iterator."""
    it = as_iter(I, st, args[0])
    clo = args[1]
    if (it is not None and it[0] == 'it' and it[1] == 'unk' and len(it) > 5 and it[5] is not None and it[5][0] == 'cidx' and site['callee'].endswith('::map')
            and clo is not None and clo[0] in ('clo', 'fn')):
        # char_indices().map(|(i, _)| i): the byte offsets of the char boundaries of the string, ascending
        s_ = st.clone()
        ix = I.top(s_, ty_of_name('usize'), 'index')
        ch = I.top(s_, {'k': 'char'}, 'ch')
        r_ = I.call_closure(s_, clo, [('t', (ix, ch))], site)
        if r_ is not None and len(r_) == 1 and r_[0][1][0] == 'i' and r_[0][1][1] == ix[1]:
            return [(st, ('it', 'unk', ty_of_name('usize'), it[3], None, ('bidx', it[5][1])))]
    if it is not None and it[0] == 's' and it[1] in (RANGE, RANGE_INC) and all(_intarg(x) for x in it[2][:2]):
        # a range with constant bounds and a handful of values is a known sequence
        (l1, h1), (l2, h2) = D.get_iv(st, it[2][0][1]), D.get_iv(st, it[2][1][1])
        exhausted = len(it[2]) > 2 and it[2][2][0] == 'i' and D.get_iv(st, it[2][2][1]) != (0, 0)
        if l1 == h1 and l2 == h2 and not exhausted and 0 <= (l2 - l1) <= 12:
            last = int(l2) if it[1] == RANGE_INC else int(l2) - 1
            it = ('it', 'seq', tuple(const_int(k, it[2][0][2]) for k in range(int(l1), last + 1)), 0, False)
    if it is not None and it[0] == 'it' and it[1] == 'seq' and site['callee'].endswith('::take_while') and len(it[2]) - it[3] <= 12 and clo is not None and clo[0] in ('clo', 'fn'):
        # the prefix of a known short sequence that satisfies the predicate (one outcome per decision)
        outs, work, exact = [], [(st.clone(), 0)], True
        elems = it[2][it[3]:]
        while work and exact:
            s, i = work.pop()
            if i == len(elems):
                outs.append((s, ('it', 'seq', tuple(elems), 0, it[4])))
                continue
            e = ('r', I.alloc(s, elems[i])) if it[4] else elems[i]
            rs = I.call_closure(s, clo, [('r', I.alloc(s, e))], site)
            if rs is None:
                exact = False
                break
            for s2, b in rs:
                if b[0] != 'i':
                    exact = False
                    break
                lo, hi = D.get_iv(s2, b[1])
                for val in (0, 1):
                    if lo <= val <= hi:
                        s3 = s2.clone()
                        if not D.set_iv(s3, b[1], val, val):
                            continue
                        t_ = D.TERM.get(b[1])
                        if t_ is not None and t_[0] in D.NEG and isinstance(t_[1], int) and isinstance(t_[2], int):
                            if not D.refine_cmp(s3, t_[0] if val else D.NEG[t_[0]], t_[1], t_[2]):
                                continue
                        if val:
                            work.append((s3, i + 1))
                        else:
                            outs.append((s3, ('it', 'seq', tuple(elems[:i]), 0, it[4])))
        if exact and outs:
            return outs
    if it is not None and it[0] == 'it' and it[1] == 'seq' and site['callee'].endswith('::map') and len(it[2]) - it[3] <= 12 and clo is not None and clo[0] in ('clo', 'fn'):
        # map over a known short sequence with a closure that has exactly one outcome per element and changes nothing: the mapped sequence
        # (a closure with a few outcomes per element, e.g. `v.unwrap_or(0) * k`, gives one mapped sequence per combination, at most 64)
        work = [(st.clone(), [])]
        for e in it[2][it[3]:]:
            nxt = []
            for s, mapped in work:
                arg = ('r', I.alloc(s, e)) if it[4] else e
                r = I.call_closure(s, clo, [arg], site)
                if r is None:
                    nxt = None
                    break
                for s2, v in r:
                    if not s2.dead:
                        nxt.append((s2, mapped + [v]))
            if nxt is None or not nxt or len(nxt) > 64:
                work = None
                break
            work = nxt
        if work:
            return [(s, ('it', 'seq', tuple(mapped), 0, False)) for s, mapped in work]
    s = st.clone()
    if it is not None and it[0] == 'it' and it[1] == 'vec':
        vec_sync(I, s, it[2])
        o = s.objs.get(it[2])
        if o is not None and o[0] == 'Vec' and (o[3] is None and D.get_iv(s, o[1])[0] == 0 and D.TERM.get(o[1], ('',))[0] != 'join' and o[1] in D.CONSTVAL
                                               or D.get_iv(s, o[1])[1] == 0):
            return [(st, ('it', 'unk', None, None))]     # provably empty collection: the closure never runs
        if o is not None and o[0] == 'Vec' and not D.set_iv(s, o[1], 1, INF):
            return [(st, ('it', 'unk', None, None))]
    item = probe_item(I, s, it, clo)
    by_ref = site['callee'].endswith('take_while') or site['callee'].endswith('filter')
    if it is not None and it[0] == 'it' and it[1] == 'vec' and it[3]:
        by_ref = True       # items of a by-reference iteration are references
    arg = ('r', I.alloc(s, item)) if by_ref else item
    r = _closure_probe(I, s, clo, [arg], site)
    if by_ref and it is not None and it[0] == 'it' and it[1] == 'chars' and it[3] == 0:
        kind = 'take_while' if site['callee'].endswith('take_while') else 'filter'
        return [(st, ('it', 'sub', it, (kind, clo[1] if clo is not None and clo[0] in ('clo', 'fn') else None)))]      # yields a subsequence (take_while: a prefix) of the chars of it[2]
    if it is not None and it[0] == 'it' and it[1] == 'unk' and len(it) > 3 and it[3] is not None and not (len(it) > 5 and it[5] is not None and it[5][0] == 'bytes') \
            and site['callee'].rsplit('::', 1)[1] in ('take_while', 'filter'):
        return [(st, ('it', 'unk', None, None, None, ('atmost', it[3])))]       # yields at most as many items as the sequence has
    if by_ref and it is not None and it[0] == 'it' and it[1] == 'unk' and len(it) > 5 and it[5] is not None and it[5][0] == 'bytes':
        kind = 'take_while' if site['callee'].endswith('take_while') else 'filter'
        return [(st, ('it', 'sub', ('it', 'bytes', it[5][1], 0), (kind, clo[1] if clo is not None and clo[0] in ('clo', 'fn') else None)))]      # the same over the bytes of the string
    return [(st, ('it', 'unk', None, None))]


def probe_item(I, st, it, clo):
    """a top item for the closure parameter of an iterator adapter"""
    ty = None
    if clo is not None and clo[0] == 'clo' and clo[1] in I.bodies:
        b = I.bodies[clo[1]]
        if b['argc'] >= 2:
            ty = b['locals'][2]
    if it is not None and it[0] == 'it' and it[1] == 'chars':
        return I.top(st, {'k': 'char'}, 'ch')
    if it is not None and it[0] == 'it' and it[1] == 'vec':
        vec_sync(I, st, it[2])
        o = st.objs.get(it[2])
        if o is not None and o[0] == 'Vec':
            return conc_elem(I, st, o[3], o[2])
    if ty is not None:
        if ty['k'] == 'ref' and not (ty['to']['k'] in ('str', 'slice')):
            return I.top(st, ty['to'], 'item')
        return I.top(st, ty, 'item')
    return ('top', None)


@model('std::iter::Iterator::position', 'std::iter::Iterator::find', 'std::iter::Iterator::all', 'std::iter::Iterator::any')
def m_iter_search(I, st, args, dty, site):
    ref, clo = args[0], args[1]
    it = deref(I, st, ref)
    which0 = site['callee'].rsplit('::', 1)[1]
    if it is not None and it[0] == 's' and it[1] in (RANGE, RANGE_INC) and all(_intarg(x) for x in it[2][:2]):
        (l1, h1), (l2, h2) = D.get_iv(st, it[2][0][1]), D.get_iv(st, it[2][1][1])
        exhausted = len(it[2]) > 2 and it[2][2][0] == 'i' and D.get_iv(st, it[2][2][1]) != (0, 0)
        if l1 == h1 and l2 == h2 and not exhausted and 0 <= (l2 - l1) <= 12:
            last = int(l2) if it[1] == RANGE_INC else int(l2) - 1
            it = ('it', 'seq', tuple(const_int(k, it[2][0][2]) for k in range(int(l1), last + 1)), 0, False)
    if it is not None and it[0] == 'it' and it[1] == 'seq' and len(it[2]) - it[3] <= 12 and which0 in ('all', 'any', 'find', 'position'):
        # a known short sequence: the closure is evaluated element by element, in order, until it decides
        elems, byref = it[2][it[3]:], it[4]
        outs, work, exact = [], [(st.clone(), 0)], True
        while work and exact:
            s, i = work.pop()
            if i == len(elems):
                outs.append((s, const_int(1 if which0 == 'all' else 0, 'bool') if which0 in ('all', 'any') else none()))
                continue
            e = ('r', I.alloc(s, elems[i])) if byref else elems[i]
            arg = ('r', I.alloc(s, e)) if which0 == 'find' else e
            for s2, b in I.call_closure(s, clo, [arg], site) or []:
                if b[0] != 'i':
                    exact = False
                    break
                lo, hi = D.get_iv(s2, b[1])
                for val in (0, 1):
                    if lo <= val <= hi:
                        s3 = s2.clone()
                        if not D.set_iv(s3, b[1], val, val):
                            continue
                        t_ = D.TERM.get(b[1])
                        if t_ is not None and t_[0] in D.NEG and isinstance(t_[1], int) and isinstance(t_[2], int):
                            if not D.refine_cmp(s3, t_[0] if val else D.NEG[t_[0]], t_[1], t_[2]):
                                continue
                        stop = (which0 == 'all' and val == 0) or (which0 != 'all' and val == 1)
                        if not stop:
                            work.append((s3, i + 1))
                        elif which0 in ('all', 'any'):
                            outs.append((s3, const_int(0 if which0 == 'all' else 1, 'bool')))
                        elif which0 == 'find':
                            outs.append((s3, some(e)))
                        else:
                            outs.append((s3, some(const_int(i, 'usize'))))
        if exact and outs:
            return outs
    s = st.clone()
    item = probe_item(I, s, it, clo)
    which = site['callee'].rsplit('::', 1)[1]
    arg = ('r', I.alloc(s, item)) if which == 'find' else item
    _closure_probe(I, s, clo, [arg], site)
    s2 = st.clone()
    if which == 'position':
        s3 = st.clone()
        hi = USIZE_MAX
        if it is not None and it[0] == 'it' and it[1] == 'chars':
            # position < number of chars <= byte length
            hi = max(D.get_iv(s3, it[2].len)[1] - 1, 0)
            v = I.top(s3, ty_of_name('usize'), 'pos', lo=0, hi=hi)
            D.PROV[v[1]] = ('charidx', it[2].ident)
            cc = char_count(I, s3, it[2])
            D.rel_set(s3, v[1], cc, '<')
        elif it is not None and it[0] == 'it' and it[1] == 'unk' and len(it) > 3 and it[3] is not None:
            # an iterator over a sequence of known length: a found position is below that length
            hi = max(D.get_iv(s3, it[3])[1] - 1, 0)
            v = I.top(s3, ty_of_name('usize'), 'pos', lo=0, hi=hi)
            if not D.refine_cmp(s3, 'Lt', v[1], it[3]):
                return [(s2, none())]
        else:
            v = I.top(s3, ty_of_name('usize'), 'pos', lo=0, hi=hi)
        return [(s2, none()), (s3, some(v))]
    if which == 'find':
        s3 = st.clone()
        return [(s2, none()), (s3, some(I.top(s3, item_ty_of(dty), 'found') if item_ty_of(dty) else ('top', None)))]
    return [(s2, I.top(s2, {'k': 'bool'}, which))]


@model("<std::str::Chars<'a> as std::iter::Iterator>::count", 'std::iter::Iterator::count')
def m_count(I, st, args, dty, site):
    it = args[0]
    if it[0] == 'it' and it[1] == 'chars' and it[3] == 0:
        return [(st, ('i', char_count(I, st, it[2]), 'usize'))]
    if it[0] == 'it' and it[1] == 'sub':
        cc = it[2][2].len if it[2][1] == 'bytes' else char_count(I, st, it[2][2])
        v = I.top(st, ty_of_name('usize'), 'count', lo=0, hi=D.get_iv(st, cc)[1])
        D.rel_set(st, v[1], cc, '<=')
        if len(it) > 3 and it[3] is not None:
            # provenance: the number of leading (take_while) / all (filter) chars of that string which satisfy the closure
            if not hasattr(I, 'prefix_count'):
                I.prefix_count = {}
            I.prefix_count[v[1]] = (it[2][2].ident, it[3][1], it[3][0])
        return [(st, v)]
    if it[0] == 'it' and it[1] == 'unk' and len(it) > 5 and it[5] is not None and it[5][0] == 'atmost':
        v = I.top(st, ty_of_name('usize'), 'count', lo=0, hi=D.get_iv(st, it[5][1])[1])
        D.rel_set(st, v[1], it[5][1], '<=')
        return [(st, v)]
    if it[0] == 'it' and it[1] == 'unk' and len(it) > 3 and it[3] is not None:
        v = I.top(st, ty_of_name('usize'), 'count', lo=0, hi=D.get_iv(st, it[3])[1])
        D.rel_set(st, v[1], it[3], '<=')
        return [(st, v)]
    return [(st, I.top(st, ty_of_name('usize'), 'count', lo=0, hi=USIZE_MAX))]


# ---------------------------------------------------------------- strings (str-lite)

if not hasattr(D, 'PROV'):
    D.PROV = {}   # vid -> ('bytes'|'chars'|'charidx', str ident): what the number measures (DESIGN F8)
_CC = {}          # StrV.len vid -> char-count vid


def char_count(I, st, sv):
    """vid of s.chars().count(): <= byte length, == byte length when ASCII"""
    if sv.ascii:
        return sv.len
    v = _CC.get(sv.len)
    if v is None:
        v = D.sym_vid(0, USIZE_MAX, f'chars({D.NAME.get(sv.len, "s")})')
        _CC[sv.len] = v
        D.PROV[v] = ('chars', sv.ident)
    lo, hi = D.get_iv(st, sv.len)
    D.set_iv(st, v, (lo + 3) // 4 if lo != -INF else 0, hi)
    D.rel_set(st, v, sv.len, '<=')
    return v


def strv_of(I, st, v):
    """StrV of a &str / &String / String value (None if unknown)"""
    v0 = v
    v = deref(I, st, v)
    if v is None:
        return None
    if v[0] == 'str':
        return v[1]
    if v[0] == 'obj':
        o = st.objs.get(v[1])
        if o is not None and o[0] == 'String':
            return o[1]
    return None


def str_eq(I, st, x, y, ne=False):
    t = f = True
    if x.lits is not None and y.lits is not None:
        if not (x.lits & y.lits):
            t = False
        if len(x.lits) == 1 and x.lits == y.lits:
            f = False
    (xl, xh), (yl, yh) = D.get_iv(st, x.len), D.get_iv(st, y.len)
    if xh < yl or yh < xl:
        t = False
    outs = []
    if t:
        s1 = st.clone()
        if D.refine_cmp(s1, 'Eq', x.len, y.len):
            outs.append((s1, const_int(0 if ne else 1, 'bool')))
    if f:
        outs.append((st.clone(), const_int(1 if ne else 0, 'bool')))
    return outs


@model('core::str::<impl str>::len', 'std::string::String::len')
def m_str_len(I, st, args, dty, site):
    sv = strv_of(I, st, args[0])
    if sv is None:
        return [(st, I.top(st, ty_of_name('usize'), 'len', lo=0, hi=USIZE_MAX))]
    D.PROV.setdefault(sv.len, ('bytes', sv.ident))
    return [(st, ('i', sv.len, 'usize'))]


@model('core::str::<impl str>::is_empty', 'std::string::String::is_empty')
def m_str_is_empty(I, st, args, dty, site):
    sv = strv_of(I, st, args[0])
    if sv is None:
        return None
    return [(st, I.binop(st, 'Eq', ('i', sv.len, 'usize'), const_int(0, 'usize'), {'k': 'bool'}, None, None))]


@model('core::str::<impl str>::chars')
def m_chars(I, st, args, dty, site):
    sv = strv_of(I, st, args[0])
    if sv is None:
        return [(st, ('it', 'unk', {'k': 'char'}, None))]
    return [(st, ('it', 'chars', sv, 0))]


@model('<std::string::String as std::ops::Deref>::deref', 'std::string::String::as_str', 'core::str::<impl str>::as_bytes_dummy')
def m_string_deref(I, st, args, dty, site):
    sv = strv_of(I, st, args[0])
    if sv is None:
        return [(st, ('str', I.fresh_str(st)))]
    return [(st, ('str', sv))]


@model('core::str::<impl str>::as_bytes')
def m_as_bytes(I, st, args, dty, site):
    sv = strv_of(I, st, args[0])
    if sv is None:
        return None
    sl = {'len': sv.len, 'elems': None, 'elem_ty': ty_of_name('u8'), 'ident': sv.ident}
    if sfacts(st, sv)['ascii']:
        sl['ascii'] = True
    return [(st, ('slice', sl))]


@model('<T as std::string::ToString>::to_string', '<str as std::string::ToString>::to_string', 'std::string::ToString::to_string')
def m_to_string(I, st, args, dty, site):
    a = deref(I, st, args[0])
    s = st
    oid = next(I._oid)
    if a is not None and a[0] == 'str':
        s.objs[oid] = ('String', a[1])
    elif _intarg(a):
        lo, hi = D.get_iv(s, a[1])
        if a[2] == 'char':
            sv = I.fresh_str(s, 'char.to_string', 1, 4 if hi > 127 else 1)
            sv.ascii = True if hi <= 127 else None
        else:
            m = max(abs(lo), abs(hi)) if lo != -INF and hi != INF else 10 ** 39
            dmax = len(str(int(m))) + (1 if lo < 0 else 0)
            dmin = 1
            if lo >= 0:
                dmin = len(str(int(lo)))
            sv = I.fresh_str(s, 'int.to_string', dmin, dmax)
            sv.ascii = True
            sv.digits = lo >= 0
            sv.tail_digits = True     # everything after the first char is a decimal digit
            I.int_text[sv.ident] = a[1]     # provenance: this text is the decimal form of that value
            if not hasattr(I, 'int_text_len'):
                I.int_text_len = {}
            I.int_text_len.setdefault(a[1], []).append(sv.len)        # ... and these are the lengths of the texts made from that value
        s.objs[oid] = ('String', sv)
    else:
        s.objs[oid] = ('String', I.fresh_str(s, 'to_string'))
        # Display of a crate type: analyse its fmt body for obligations
        tya = site.get('tyargs') or []
        if tya and tya[0].get('k') == 'adt':
            cand = f"<{tya[0]['path']} as std::fmt::Display>::fmt"
            if cand in I.bodies:
                s3 = st.clone()
                I.call_body(s3, cand, [args[0], ('top', None)], site)
    return [(s, ('obj', oid, 'std::string::String'))]


# ---------------------------------------------------------------- format!: symbolic text ("segments")
# A formatted String is described by a list of pieces:  ('lit', frozenset of texts) | ('zp', vid, width, ty) zero-padded
# decimal of an unsigned value | ('num', vid, ty) plain decimal | ('opq',) unknown text.  I.seg maps StrV.ident -> pieces.
FMTARG = 'core::fmt::rt::Argument'
FMTARGS = 'std::fmt::Arguments'


@model_if(lambda n: n.endswith("fmt::rt::Argument::<'_>::new_display") or n.endswith("fmt::rt::Argument::<'_>::from_usize"))
def m_fmt_arg(I, st, args, dty, site):
    a = deref(I, st, args[0])
    if a is not None and a[0] == 'obj':
        sv = strv_of(I, st, args[0])
        a = ('str', sv) if sv is not None else None
    return [(st, ('s', FMTARG, (a if a is not None else ('top', None),), None))]


@model("std::fmt::Arguments::<'a>::new")
def m_fmt_arguments(I, st, args, dty, site):
    t = deref(I, st, args[0])
    a = deref(I, st, args[1]) if len(args) > 1 else None
    return [(st, ('s', FMTARGS, (t if t is not None else ('top', None), a if a is not None else ('top', None)), None))]


def decode_template(bs):
    """core::fmt::Arguments template bytes -> [('lit', text) | ('ph', {flags, width, width_arg, precision, arg})] or None"""
    out = []
    i = 0
    n = len(bs)
    while True:
        if i >= n:
            return None
        b = bs[i]; i += 1
        if b == 0:
            return out if i == n else None
        if b < 0x80:
            out.append(('lit', bytes(bs[i:i + b]).decode('utf-8', 'replace'))); i += b
        elif b == 0x80:
            ln = bs[i] | (bs[i + 1] << 8); i += 2
            out.append(('lit', bytes(bs[i:i + ln]).decode('utf-8', 'replace'))); i += ln
        elif b >= 0xC0:
            ph = {'flags': None, 'width': None, 'width_arg': None, 'precision': None, 'arg': None}
            if b & 1:
                ph['flags'] = int.from_bytes(bytes(bs[i:i + 4]), 'little'); i += 4
            if b & 2:
                w = bs[i] | (bs[i + 1] << 8); i += 2
                if b & 16:
                    ph['width_arg'] = w
                else:
                    ph['width'] = w
            if b & 4:
                ph['precision'] = bs[i] | (bs[i + 1] << 8); i += 2
                if b & 32:
                    return None
            if b & 8:
                ph['arg'] = bs[i] | (bs[i + 1] << 8); i += 2
            out.append(('ph', ph))
        else:
            return None


def seg_of_strv(I, st, sv):
    sg = I.seg.get(sv.ident)
    if sg is not None:
        return list(sg)
    if sv.lits is not None:
        return [('lit', frozenset(sv.lits))]
    return [('opq',)]


def seg_len(st, pieces):
    lo = hi = 0
    for p in pieces:
        if p[0] == 'lit':
            ls = [len(x.encode()) for x in p[1]]
            lo += min(ls); hi += max(ls)
        elif p[0] in ('zp', 'num'):
            l, h = D.get_iv(st, p[1])
            if l < 0 or h == INF:
                return None
            w = p[2] if p[0] == 'zp' and isinstance(p[2], int) else 1
            lo += max(w, len(str(int(l)))); hi += max(w, len(str(int(h))))
        else:
            return None
    return lo, hi


def seg_string(I, st, pieces):
    """a fresh StrV described by `pieces`"""
    # merge adjacent literals
    out = []
    for p in pieces:
        if p[0] == 'lit' and out and out[-1][0] == 'lit' and len(out[-1][1]) * len(p[1]) <= 64:
            out[-1] = ('lit', frozenset(a + b for a in out[-1][1] for b in p[1]))
        elif p[0] == 'lit' and p[1] == frozenset(['']):
            continue
        else:
            out.append(p)
    if not out:
        out = [('lit', frozenset(['']))]
    if len(out) == 1 and out[0][0] == 'lit':
        lits = out[0][1]
        ls = [len(x.encode()) for x in lits]
        sv = StrV(D.fresh_vid(st, min(ls), max(ls)) if min(ls) != max(ls) else D.const_vid(ls[0]), lits=lits,
                  ascii_=all(ord(c) < 128 for x in lits for c in x))
        firsts = {x[:1] for x in lits}
        if len(firsts) == 1 and '' not in firsts:
            sv.first = next(iter(firsts))
    else:
        rng = seg_len(st, out)
        sv = I.fresh_str(st, 'format', rng[0], rng[1]) if rng else I.fresh_str(st, 'format')
        if all(p[0] in ('zp', 'num') or (p[0] == 'lit' and all(ord(c) < 128 for x in p[1] for c in x)) for p in out):
            sv.ascii = True
        if all(p[0] in ('zp', 'num') for p in out) and rng:
            sv.digits = True
    I.seg[sv.ident] = tuple(out)
    return sv


@model('std::fmt::format', 'std::fmt::format::format_inner')
def m_format(I, st, args, dty, site):
    oid = next(I._oid)
    sv = None
    a = args[0] if args else None
    if a is not None and a[0] == 's' and a[1] == FMTARGS and a[2][0][0] == 'a' and a[2][1][0] == 'a':
        bs = []
        for b in a[2][0][1]:
            iv = D.get_iv(st, b[1]) if b[0] == 'i' else (0, 255)
            if iv[0] != iv[1]:
                bs = None
                break
            bs.append(int(iv[0]))
        tmpl = decode_template(bs) if bs is not None else None
        fargs = a[2][1][1]
        if tmpl is not None:
            pieces = []
            nxt = 0
            for kind, x in tmpl:
                if kind == 'lit':
                    pieces.append(('lit', frozenset([x])))
                    continue
                idx = x['arg'] if x['arg'] is not None else nxt
                if x['arg'] is None:
                    nxt += 1
                if idx >= len(fargs) or fargs[idx][0] != 's' or fargs[idx][1] != FMTARG:
                    pieces.append(('opq',)); continue
                v = fargs[idx][2][0]
                width = x['width']
                if x['width_arg'] is not None:
                    wa = fargs[x['width_arg']] if x['width_arg'] < len(fargs) else None
                    wv = wa[2][0] if wa is not None and wa[0] == 's' and wa[1] == FMTARG else None
                    wiv = D.get_iv(st, wv[1]) if wv is not None and wv[0] == 'i' else None
                    width = int(wiv[0]) if wiv is not None and wiv[0] == wiv[1] else 'unknown'
                flags = x['flags']
                plain = (flags is None or flags == (0x20 | (3 << 29))) and width is None and x['precision'] is None
                zero = flags is not None and flags & (1 << 24) and (flags & ~((1 << 24) | (1 << 27))) == (0x20 | (3 << 29)) and x['precision'] is None
                if v[0] == 'str' and plain:
                    pieces.extend(seg_of_strv(I, st, v[1]))
                elif v[0] == 'i' and v[2] == 'char' and plain and D.get_iv(st, v[1])[0] == D.get_iv(st, v[1])[1]:
                    pieces.append(('lit', frozenset([chr(int(D.get_iv(st, v[1])[0]))])))       # a character that is one known character on this path
                elif v[0] == 'i' and v[2] != 'char' and plain and D.get_iv(st, v[1])[0] >= 0:
                    pieces.append(('num', v[1], v[2]))
                elif v[0] == 'i' and v[2] != 'char' and zero and isinstance(width, int) and D.get_iv(st, v[1])[0] >= 0:
                    pieces.append(('zp', v[1], width, v[2]))
                else:
                    pieces.append(('opq',))
            sv = seg_string(I, st, pieces)
    st.objs[oid] = ('String', sv if sv is not None else I.fresh_str(st, 'format'))
    return [(st, ('obj', oid, 'std::string::String'))]


@model('<std::string::String as std::clone::Clone>::clone')
def m_string_clone(I, st, args, dty, site):
    sv = strv_of(I, st, args[0])
    oid = next(I._oid)
    st.objs[oid] = ('String', sv if sv is not None else I.fresh_str(st, 'clone'))
    return [(st, ('obj', oid, 'std::string::String'))]


# ---------------------------------------------------------------- Vec / HashSet (length + element summary)
# Vec object: ('Vec', len vid, elem type, element summary or None).  String elements are summarised by value as
# ('str', StrV); `&mut` references handed out by last_mut / index_mut / iter_mut point to a fresh cell that is
# folded back into the summary (weak update) the next time the Vec is observed.

STRING = 'std::string::String'


def abs_elem(I, st, v):
    if v is not None and v[0] == 'obj':
        o = st.objs.get(v[1])
        if o is not None and o[0] == 'String':
            return ('str', o[1])
    return v


def conc_elem(I, st, ev, ety):
    """a fresh concrete element drawn from the summary"""
    if ev is None:
        v = I.top(st, ety, 'elem') if ety else ('top', None)
        from .entries import apply_invariants
        apply_invariants(I, st, v)      # type invariants hold for every value of the type (all construction sites are checked)
        return v
    if ev[0] == 'str':
        sv = ev[1]
        lo, hi = D.get_iv(st, sv.len)
        nv = D.fresh_vid(st, lo, hi)
        n = StrV(nv, lits=sv.lits, first=sv.first, ascii_=sv.ascii, digits=sv.digits)
        if ety is not None and ety.get('k') == 'adt' and ety.get('path') == STRING:
            return new_string_obj(I, st, n)
        return ('str', n)
    if ev[0] == 'i':
        lo, hi = D.get_iv(st, ev[1])
        return ('i', D.fresh_vid(st, lo, hi), ev[2])
    return ev


def vec_sync(I, st, oid):
    links = st.objs.get(('vl', oid))
    o = st.objs.get(oid)
    if not links or o is None or o[0] != 'Vec':
        return
    ev = o[3]
    for cell in links:
        val = I.read_resolved(st, ('L',) + cell)
        a = abs_elem(I, st, val)
        ev = a if ev is None else I.join_val(st, st, st, ev, a)
    st.objs[oid] = ('Vec', o[1], o[2], ev)
    st.objs[('vl', oid)] = ()


def obj_of(I, st, v):
    v = deref(I, st, v)
    if v is not None and v[0] == 'obj':
        vec_sync(I, st, v[1])
        return v, st.objs.get(v[1])
    return None, None


def elem_ref(I, st, h, o, mutable):
    e = conc_elem(I, st, o[3], o[2])
    cell = I.alloc(st, e)
    if mutable:
        st.objs[('vl', h[1])] = tuple(st.objs.get(('vl', h[1])) or ()) + (cell,)
    return ('r', cell)


@model('std::vec::Vec::<T>::new', 'std::vec::Vec::<T>::with_capacity', 'std::collections::HashSet::<T>::new')
def m_vec_new(I, st, args, dty, site):
    # allocation-site naming: two paths of one invocation reaching the same `Vec::new()` name the same object, so
    # that the paths can be joined; a second allocation at the site on one path (loop) gets a fresh name
    key = (site.get('fid'), site.get('bb'))
    oid = I.site_oids.get(key)
    if oid is None or oid in st.objs or key[0] is None:
        oid = next(I._oid)
        I.site_oids.setdefault(key, oid)
    ety = dty['args'][0] if dty and dty.get('args') else None
    kind = 'Set' if 'HashSet' in site['callee'] else 'Vec'
    if kind == 'Vec':
        st.objs[oid] = ('Vec', D.const_vid(0), ety, None)
    else:
        st.objs[oid] = ('Set', D.const_vid(0), ety)
    return [(st, ('obj', oid, dty['path'] if dty else 'std::vec::Vec'))]


@model('std::vec::Vec::<T, A>::push')
def m_vec_push(I, st, args, dty, site):
    h, o = obj_of(I, st, args[0])
    if o is None or o[0] != 'Vec':
        return None
    lo, hi = D.get_iv(st, o[1])
    if hi < USIZE_MAX:
        n = I.binop(st, 'Add', ('i', o[1], 'usize'), const_int(1, 'usize'), ty_of_name('usize'), None, None)
    else:
        # a collection never holds more than isize::MAX elements (A-ALLOC): the new length is old + 1, capped
        n = ('i', D.fresh_vid(st, lo + 1 if lo < USIZE_MAX else USIZE_MAX, USIZE_MAX), 'usize')
    a = abs_elem(I, st, args[1])
    empty = D.get_iv(st, o[1]) == (0, 0)
    if o[3] is None:
        ev = a if empty else None
    else:
        ev = I.join_val(st, st, st, o[3], a)
    st.objs[h[1]] = ('Vec', n[1], o[2], ev)
    return [(st, UNIT)]


@model('std::vec::Vec::<T, A>::len', 'std::collections::HashSet::<T, S, A>::len')
def m_vec_len(I, st, args, dty, site):
    h, o = obj_of(I, st, args[0])
    if o is None:
        return [(st, I.top(st, ty_of_name('usize'), 'len', lo=0, hi=USIZE_MAX))]
    return [(st, ('i', o[1], 'usize'))]


@model('<std::vec::Vec<T, A> as std::ops::Deref>::deref', '<std::vec::Vec<T, A> as std::ops::DerefMut>::deref_mut',
       'std::vec::Vec::<T, A>::as_slice')
def m_vec_deref(I, st, args, dty, site):
    h, o = obj_of(I, st, args[0])
    if o is None or o[0] != 'Vec':
        return None
    return [(st, ('slice', {'len': o[1], 'elems': None, 'elem_ty': o[2], 'ident': ('vec', h[1]), 'vec': h[1],
                            'mut': site['callee'].endswith('deref_mut')}))]


def _slice_elem_ref(I, st, sl, mutable=False):
    """reference to one (unknown) element of a slice"""
    if sl.get('vec') is not None:
        o = st.objs.get(sl['vec'])
        if o is not None and o[0] == 'Vec':
            vec_sync(I, st, sl['vec'])
            o = st.objs.get(sl['vec'])
            return elem_ref(I, st, ('obj', sl['vec']), o, mutable or sl.get('mut', False))
    if sl.get('elems'):
        return ('r', I.alloc(st, I.join_many(st, list(sl['elems']))))
    e = I.top(st, sl['elem_ty'], 'elem') if sl.get('elem_ty') else ('top', None)
    return ('r', I.alloc(st, e))


def _slice_elem(I, st, sl):
    r = _slice_elem_ref(I, st, sl)
    return I.read_resolved(st, ('L',) + r[1])


@model('core::slice::<impl [T]>::len')
def m_slice_len(I, st, args, dty, site):
    a = args[0]
    if a[0] == 'slice':
        return [(st, ('i', a[1]['len'], 'usize'))]
    return None


@model('core::slice::<impl [T]>::is_empty')
def m_slice_is_empty(I, st, args, dty, site):
    a = args[0]
    if a[0] == 'slice':
        return [(st, I.binop(st, 'Eq', ('i', a[1]['len'], 'usize'), const_int(0, 'usize'), {'k': 'bool'}, None, None))]
    return None


@model('core::slice::<impl [T]>::first', 'core::slice::<impl [T]>::last', 'core::slice::<impl [T]>::last_mut', 'core::slice::<impl [T]>::first_mut')
def m_slice_first_last(I, st, args, dty, site):
    a = args[0]
    if a[0] != 'slice':
        return None
    lo, hi = D.get_iv(st, a[1]['len'])
    outs = []
    if hi >= 1:
        s1 = st.clone()
        if D.set_iv(s1, a[1]['len'], 1, hi):
            outs.append((s1, some(_slice_elem_ref(I, s1, a[1], mutable=site['callee'].endswith('_mut')))))
    if lo <= 0:
        s2 = st.clone()
        if D.set_iv(s2, a[1]['len'], 0, 0):
            outs.append((s2, none()))
    return outs


@model('<std::vec::Vec<T, A> as std::ops::Index<I>>::index', 'core::slice::index::<impl std::ops::Index<I> for [T]>::index',
       '<std::vec::Vec<T, A> as std::ops::IndexMut<I>>::index_mut')
def m_vec_index(I, st, args, dty, site):
    base = args[0]
    if base[0] == 'slice':
        lenv, elem = base[1]['len'], None
    else:
        h, o = obj_of(I, st, base)
        if o is None or o[0] != 'Vec':
            return None
        lenv = o[1]
        elem = None
    idx = args[1]
    ob = site_obl(I, site, 'STDPRE')
    if _intarg(idx):
        t, f = D.cmp_possible(st, 'Lt', idx[1], lenv, deep=True)
        I.record(ob, not f, st, f'index in {D.get_iv(st, idx[1])}, len in {D.get_iv(st, lenv)}' if f else None, cause='index out of bounds')
        if not D.refine_cmp(st, 'Lt', idx[1], lenv):
            return []
        if base[0] == 'slice':
            return [(st, _slice_elem_ref(I, st, base[1], mutable=site['callee'].endswith('index_mut')))]
        return [(st, elem_ref(I, st, h, o, site['callee'].endswith('index_mut')))]
    # range index on a slice: start <= end <= len
    if idx[0] == 's' and idx[1] == 'std::ops::RangeFull':
        I.record(ob, True, st)
        if base[0] == 'slice':
            return [(st, base)]
        return [(st, ('slice', {'len': lenv, 'elems': None, 'elem_ty': o[2], 'ident': ('vec', h[1]), 'vec': h[1]}))]
    if idx[0] == 's' and idx[1] in (RANGE, RANGE_INC, 'std::ops::RangeFrom', 'std::ops::RangeTo', 'std::ops::RangeFull'):
        okp = True
        if idx[1] == RANGE and _intarg(idx[2][0]) and _intarg(idx[2][1]):
            t1, f1 = D.cmp_possible(st, 'Le', idx[2][0][1], idx[2][1][1])
            t2, f2 = D.cmp_possible(st, 'Le', idx[2][1][1], lenv)
            okp = not f1 and not f2
            I.record(ob, okp, st, f'range {D.get_iv(st, idx[2][0][1])}..{D.get_iv(st, idx[2][1][1])} of len {D.get_iv(st, lenv)}' if not okp else None,
                     cause='slice range out of bounds')
            n = I.binop(st, 'Sub', ('i', idx[2][1][1], 'usize'), ('i', idx[2][0][1], 'usize'), ty_of_name('usize'), None, None)
            if n[0] == 'i':
                D.set_iv(st, n[1], 0, USIZE_MAX)
                return [(st, ('slice', {'len': n[1], 'elems': None, 'elem_ty': base[1].get('elem_ty') if base[0] == 'slice' else None, 'ident': next(StrV._ids)}))]
        else:
            I.record(ob, False, st, 'range index of unknown shape', cause='slice range out of bounds')
        return [(st, ('slice', I.fresh_slice(st, base[1].get('elem_ty') if base[0] == 'slice' else None)))]
    I.record(ob, False, st, 'index of unknown shape', cause='index out of bounds')
    return [(st, I.top(st, dty, 'idx') if dty else ('top', None))]


@model('core::slice::<impl [T]>::split_at')
def m_split_at(I, st, args, dty, site):
    a, mid = args[0], args[1]
    if a[0] != 'slice' or not _intarg(mid):
        return None
    ob = site_obl(I, site, 'STDPRE')
    t, f = D.cmp_possible(st, 'Le', mid[1], a[1]['len'], deep=True)
    I.record(ob, not f, st, f'mid in {D.get_iv(st, mid[1])}, len in {D.get_iv(st, a[1]["len"])}' if f else None, cause='split_at out of bounds')
    if not D.refine_cmp(st, 'Le', mid[1], a[1]['len']):
        return []
    rest = I.binop(st, 'Sub', ('i', a[1]['len'], 'usize'), ('i', mid[1], 'usize'), ty_of_name('usize'), None, None)
    if rest[0] == 'i':
        D.set_iv(st, rest[1], 0, USIZE_MAX)
    left = {'len': mid[1], 'elems': None, 'elem_ty': a[1].get('elem_ty'), 'ident': next(StrV._ids)}
    right = {'len': rest[1], 'elems': None, 'elem_ty': a[1].get('elem_ty'), 'ident': next(StrV._ids)}
    return [(st, ('t', (('slice', left), ('slice', right))))]


@model('std::collections::HashSet::<T, S, A>::contains')
def m_set_contains(I, st, args, dty, site):
    s1, s2 = st.clone(), st.clone()
    h, o = obj_of(I, st, args[0])
    outs = [(s2, const_int(0, 'bool'))]
    if o is None or D.get_iv(st, o[1])[1] >= 1:
        outs.append((s1, const_int(1, 'bool')))
    return outs


@model('std::collections::HashSet::<T, S, A>::insert')
def m_set_insert(I, st, args, dty, site):
    h, o = obj_of(I, st, args[0])
    if o is None:
        return None
    lo, hi = D.get_iv(st, o[1])
    v = D.fresh_vid(st, max(lo, 1), min(hi + 1, USIZE_MAX))
    st.objs[h[1]] = ('Set', v, o[2])
    return [(st, I.top(st, {'k': 'bool'}, 'inserted'))]


@model('<std::collections::HashSet<T, S, A> as std::iter::Extend<T>>::extend')
def m_set_extend(I, st, args, dty, site):
    h, o = obj_of(I, st, args[0])
    if o is None:
        return None
    lo, hi = D.get_iv(st, o[1])
    v = D.fresh_vid(st, lo, USIZE_MAX)
    st.objs[h[1]] = ('Set', v, o[2])
    return [(st, UNIT)]


@model('<std::collections::HashSet<T, S, A> as std::clone::Clone>::clone', '<std::vec::Vec<T, A> as std::clone::Clone>::clone')
def m_coll_clone(I, st, args, dty, site):
    h, o = obj_of(I, st, args[0])
    if o is None:
        return None
    oid = next(I._oid)
    st.objs[oid] = o
    return [(st, ('obj', oid, h[2]))]


# ---------------------------------------------------------------- more Option / Result combinators

@model_if(lambda n: n.startswith('std::convert::num::<impl std::convert::TryFrom<') and n.endswith('>::try_from'))
def m_num_try_from(I, st, args, dty, site):
    return m_try_into(I, st, args, dty, site)


@model('std::result::Result::<T, E>::ok')
def m_res_ok(I, st, args, dty, site):
    v = args[0]
    if v[0] != 'e':
        return None
    vs = {}
    if 0 in v[2]:
        vs[1] = v[2][0]
    if 1 in v[2]:
        c = cause_of(origin_of(I, st, v[2][1][0])) if v[2][1] else None
        vs[0] = (('org', c),) if c else ()
    return [(st, ('e', OPTION, vs))]


@model('std::result::Result::<T, E>::err')
def m_res_err(I, st, args, dty, site):
    v = args[0]
    if v[0] != 'e':
        return None
    vs = {}
    if 1 in v[2]:
        vs[1] = v[2][1]
    if 0 in v[2]:
        vs[0] = ()
    return [(st, ('e', OPTION, vs))]


@model('std::option::Option::<T>::ok_or')
def m_ok_or(I, st, args, dty, site):
    v = args[0]
    if v[0] != 'e':
        return None
    vs = {}
    if 1 in v[2]:
        vs[0] = v[2][1]
    if 0 in v[2]:
        vs[1] = (args[1],)
    return [(st, ('e', RESULT, vs))]


def _closure_each(I, st, clo, payload, site, wrap):
    r = I.call_closure(st, clo, [payload] if payload is not None else [], site)
    if r is None:
        return None
    return [(s2, wrap(v2)) for s2, v2 in r]


@model('std::option::Option::<T>::and_then', 'std::result::Result::<T, E>::and_then')
def m_and_then(I, st, args, dty, site):
    v, clo = args[0], args[1]
    if v[0] != 'e':
        return None
    okv = 1 if v[1] == OPTION else 0
    outs = []
    if okv in v[2]:
        r = _closure_each(I, st, clo, v[2][okv][0], site, lambda x: x)
        if r is None:
            s2 = st.clone()
            outs.append((s2, I.top(s2, dty, 'and_then')))
        else:
            outs.extend(r)
    if (1 - okv) in v[2]:
        outs.append((st.clone(), ('e', v[1], {1 - okv: v[2][1 - okv]})))
    return outs


@model('std::option::Option::<T>::map', 'std::result::Result::<T, E>::map')
def m_map(I, st, args, dty, site):
    v, clo = args[0], args[1]
    if v[0] != 'e':
        return None
    okv = 1 if v[1] == OPTION else 0
    outs = []
    if okv in v[2]:
        r = _closure_each(I, st, clo, v[2][okv][0], site, lambda x: ('e', v[1], {okv: (x,)}))
        if r is None:
            s2 = st.clone()
            outs.append((s2, I.top(s2, dty, 'map')))
        else:
            outs.extend(r)
    if (1 - okv) in v[2]:
        outs.append((st.clone(), ('e', v[1], {1 - okv: v[2][1 - okv]})))
    return outs


@model('std::option::Option::<T>::unwrap_or_else')
def m_opt_unwrap_or_else(I, st, args, dty, site):
    v, clo = args[0], args[1]
    if v[0] != 'e':
        return None
    outs = []
    if 1 in v[2]:
        outs.append((st.clone(), v[2][1][0]))
    if 0 in v[2]:
        I.ambient.append(none_org(v) or ('None@' + site['fn']))
        try:
            r = I.call_closure(st, clo, [], site)
        finally:
            I.ambient.pop()
        if r is None:
            s2 = st.clone()
            outs.append((s2, I.top(s2, dty, 'uoe')))
        else:
            outs.extend(r)
    return outs


@model('std::option::Option::<T>::filter')
def m_opt_filter(I, st, args, dty, site):
    v, clo = args[0], args[1]
    if v[0] != 'e':
        return None
    outs = []
    if 0 in v[2]:
        outs.append((st.clone(), none()))
    if 1 in v[2]:
        # Some(x) stays exactly when the predicate holds for x: the paths of the predicate decide
        s2 = st.clone()
        rs = I.call_closure(s2, clo, [('r', I.alloc(s2, v[2][1][0]))], site)
        if rs is None:
            return [(st.clone(), none()), (st.clone(), some(v[2][1][0]))]
        for s3, b in rs:
            if b[0] != 'i':
                outs.append((s3.clone(), none()))
                outs.append((s3, some(v[2][1][0])))
                continue
            lo, hi = D.get_iv(s3, b[1])
            for val in (0, 1):
                if lo <= val <= hi:
                    s4 = s3.clone()
                    if not D.set_iv(s4, b[1], val, val):
                        continue
                    t_ = D.TERM.get(b[1])
                    if t_ is not None and t_[0] in D.NEG and isinstance(t_[1], int) and isinstance(t_[2], int):
                        if not D.refine_cmp(s4, t_[0] if val else D.NEG[t_[0]], t_[1], t_[2]):
                            continue
                    outs.append((s4, some(v[2][1][0]) if val else none()))
    return outs


@model('std::option::Option::<T>::as_ref', 'std::option::Option::<T>::as_mut', 'std::result::Result::<T, E>::as_ref')
def m_as_ref(I, st, args, dty, site):
    v = deref(I, st, args[0])
    if v is None or v[0] != 'e':
        return None
    vs = {}
    for vi, fs in v[2].items():
        vs[vi] = tuple(('r', I.alloc(st, f)) for f in fs)
    return [(st, ('e', v[1], vs))]


@model('std::option::Option::<T>::copied', 'std::option::Option::<T>::cloned')
def m_copied(I, st, args, dty, site):
    v = args[0]
    if v[0] != 'e':
        return None
    vs = {}
    for vi, fs in v[2].items():
        vs[vi] = tuple(deref(I, st, f) for f in fs)
    return [(st, ('e', v[1], vs))]


def _opt_variants(I, st, v, dty_hint=None):
    """[(state, payload | None)] for an Option value (a value the analysis knows nothing about is split into None / Some(top))"""
    if v is not None and v[0] == 'e' and v[1] == OPTION:
        outs = []
        if 0 in v[2]:
            outs.append((st.clone(), None))
        if 1 in v[2]:
            outs.append((st.clone(), v[2][1][0]))
        return outs
    return None


@model_if(lambda n: n.startswith('std::option::Option::<') and n.endswith('>::cloned') or n.startswith('std::option::Option::<') and n.endswith('>::copied'))
def m_copied_any(I, st, args, dty, site):
    return m_copied(I, st, args, dty, site)


@model_if(lambda n: n.startswith('std::option::Option::<') and n.endswith('>::zip'))
def m_opt_zip(I, st, args, dty, site):
    a, b = _opt_variants(I, st, args[0]), _opt_variants(I, st, args[1])
    if a is None or b is None:
        return None
    outs = []
    for _s, x in a:
        for _s2, y in b:
            s3 = st.clone()
            outs.append((s3, some(('t', (x, y))) if (x is not None and y is not None) else none()))
    return outs


@model_if(lambda n: n.startswith('std::option::Option::<') and n.endswith('>::flatten'))
def m_opt_flatten(I, st, args, dty, site):
    a = _opt_variants(I, st, args[0])
    if a is None:
        return None
    outs = []
    for s2, x in a:
        if x is None:
            outs.append((s2, none()))
        else:
            inner = _opt_variants(I, s2, x)
            if inner is None:
                return None
            for s3, y in inner:
                outs.append((s3, none() if y is None else some(y)))
    return outs


@model_if(lambda n: n.startswith('std::option::Option::<') and n.endswith('>::transpose'))
def m_opt_transpose(I, st, args, dty, site):
    a = _opt_variants(I, st, args[0])
    if a is None:
        return None
    outs = []
    for s2, x in a:
        if x is None:
            outs.append((s2, ok(none())))
        elif x[0] == 'e' and x[1] == RESULT:
            if 0 in x[2]:
                outs.append((s2.clone(), ok(some(x[2][0][0]))))
            if 1 in x[2]:
                outs.append((s2.clone(), err(x[2][1][0])))
        else:
            return None
    return outs


@model_if(lambda n: n.startswith('std::option::Option::<') and n.rsplit('::', 1)[1] in ('or', 'and', 'xor'))
def m_opt_or_and(I, st, args, dty, site):
    a, b = _opt_variants(I, st, args[0]), args[1]
    if a is None:
        return None
    which = site['callee'].rsplit('::', 1)[1]
    if which == 'xor':
        return None
    outs = []
    for s2, x in a:
        if which == 'or':
            outs.append((s2, some(x) if x is not None else b))
        else:
            outs.append((s2, none() if x is None else b))
    return outs


@model_if(lambda n: n.startswith('std::option::Option::<') and n.endswith('>::or_else'))
def m_opt_or_else(I, st, args, dty, site):
    a = _opt_variants(I, st, args[0])
    if a is None:
        return None
    outs = []
    for s2, x in a:
        if x is not None:
            outs.append((s2, some(x)))
        else:
            r = I.call_closure(s2, args[1], [], site)
            if r is None:
                return None
            outs.extend(r)
    return outs


@model('std::prelude::v1::Some', 'std::option::Option::Some', 'core::option::Option::Some')
def m_some_fn(I, st, args, dty, site):
    return [(st, some(args[0]))]


@model('std::prelude::v1::Ok', 'std::result::Result::Ok', 'core::result::Result::Ok')
def m_ok_fn(I, st, args, dty, site):
    return [(st, ok(args[0]))]


@model('std::prelude::v1::Err', 'std::result::Result::Err', 'core::result::Result::Err')
def m_err_fn(I, st, args, dty, site):
    return [(st, err(args[0]))]


@model('std::cmp::PartialEq::ne', 'std::cmp::PartialEq::eq')
def m_partial_eq_default(I, st, args, dty, site):
    """the trait method called generically: integers, chars and field-less enum values compare by value; a crate type through its own eq"""
    a, b = deref(I, st, args[0]), deref(I, st, args[1])
    for _ in range(2):
        if a is not None and a[0] == 'r':
            a = deref(I, st, a)
        if b is not None and b[0] == 'r':
            b = deref(I, st, b)
    ne = site['callee'].endswith('::ne')
    if _intarg(a) and _intarg(b):
        return [(st, I.binop(st, 'Ne' if ne else 'Eq', a, b, {'k': 'bool'}, None, None))]
    if a is not None and b is not None and a[0] == 'e' and b[0] == 'e' and a[1] == b[1] and all(not fs for fs in a[2].values()) and all(not fs for fs in b[2].values()):
        outs = []
        for va in a[2]:
            for vb in b[2]:
                outs.append((st.clone(), const_int(1 if ((va == vb) != ne) else 0, 'bool')))
        return outs
    if a is not None and a[0] == 'e' and a[1] == OPTION:
        return m_opt_eq(I, st, args, dty, site)
    if a is not None and a[0] in ('s', 'e'):
        cand = f'<{a[1]} as std::cmp::PartialEq>::eq'
        if cand in I.bodies:
            outs = []
            for s2, v in I.call_body(st, cand, [args[0], args[1]], site):
                if ne and v[0] == 'i':
                    v = I.binop(s2, 'Eq', v, const_int(0, 'bool'), {'k': 'bool'}, None, None)
                outs.append((s2, v))
            return outs
    return [(st, I.top(st, {'k': 'bool'}, 'eq'))]


@model('core::str::<impl str>::split_once', 'core::str::<impl str>::rsplit_once')
def m_split_once(I, st, args, dty, site):
    sv = strv_of(I, st, args[0])
    if sv is None:
        return None
    s1, s2 = st.clone(), st.clone()
    hi = D.get_iv(s2, sv.len)[1]
    a = I.fresh_str(s2, 'before', 0, hi)
    b = I.fresh_str(s2, 'after', 0, hi)
    for x in (a, b):
        if sfacts(st, sv)['ascii']:
            x.ascii = True
        D.rel_set(s2, x.len, sv.len, '<=')
    return [(s1, none()), (s2, some(('t', (('str', a), ('str', b)))))]


@model('<std::option::Option<T> as std::cmp::PartialEq>::eq', '<std::option::Option<T> as std::cmp::PartialEq>::ne')
def m_opt_eq(I, st, args, dty, site):
    a, b = deref(I, st, args[0]), deref(I, st, args[1])
    ne = site['callee'].endswith('::ne')
    va, vb = _opt_variants(I, st, a), _opt_variants(I, st, b)
    if va is None or vb is None:
        return [(st, I.top(st, {'k': 'bool'}, 'eq'))]
    outs = []
    for _s1, x in va:
        for _s2, y in vb:
            s3 = st.clone()
            # the variants of both operands on this path (an operand with both variants possible is narrowed to the chosen one)
            for v, pick in ((a, x), (b, y)):
                pass
            if (x is None) != (y is None):
                outs.append((s3, const_int(1 if ne else 0, 'bool')))
            elif x is None:
                outs.append((s3, const_int(0 if ne else 1, 'bool')))
            else:
                px, py = x, y
                for _ in range(2):
                    if px is not None and px[0] == 'r':
                        px = deref(I, s3, px)
                    if py is not None and py[0] == 'r':
                        py = deref(I, s3, py)
                if _intarg(px) and _intarg(py):
                    for op, val in (('Eq', 1), ('Ne', 0)):
                        s4 = s3.clone()
                        if D.refine_cmp(s4, op, px[1], py[1]):
                            outs.append((s4, const_int(val if not ne else 1 - val, 'bool')))
                else:
                    outs.append((s3, I.top(s3, {'k': 'bool'}, 'eq')))
    return outs


@model_if(lambda n: n.startswith('core::num::<impl ') and (n.endswith('::saturating_add') or n.endswith('::saturating_sub')))
def m_saturating(I, st, args, dty, site):
    a, b = args[0], args[1]
    if not (_intarg(a) and _intarg(b)):
        return None
    op = 'Add' if site['callee'].endswith('add') else 'Sub'
    tn = a[2]
    tr = range_of_name(tn)
    ia, ib = D.get_iv(st, a[1]), D.get_iv(st, b[1])
    r = D.iv_add(ia, ib) if op == 'Add' else D.iv_sub(ia, ib)
    outs = []
    if r[1] >= tr[0] and r[0] <= tr[1]:
        s1 = st.clone()
        tup = I.binop(s1, op + 'WithOverflow', a, b, {'k': 'tuple', 'elems': [ty_of_name(tn), {'k': 'bool'}]}, None, None)
        if not s1.dead:
            outs.append((s1, tup[1][0]))
    def refined(over):
        s2 = st.clone()
        # refine the non-constant operand on the saturating branch: a + b > MAX  /  a + b < MIN
        if ib[0] == ib[1]:
            c = ib[0] if op == 'Add' else -ib[0]
            okr = D.set_iv(s2, a[1], tr[1] - c + 1, INF) if over else D.set_iv(s2, a[1], -INF, tr[0] - c - 1)
            if not okr:
                return None
        return s2
    if r[1] > tr[1]:
        s2 = refined(True)
        if s2 is not None:
            outs.append((s2, const_int(tr[1], tn)))
    if r[0] < tr[0]:
        s3 = refined(False)
        if s3 is not None:
            outs.append((s3, const_int(tr[0], tn)))
    return outs


# ---------------------------------------------------------------- strings, part 2: facts by identity + F8 text-index safety

def sfacts(st, sv):
    f = st.objs.get(('sf', sv.ident)) or {}
    return {'ascii': bool(sv.ascii) or bool(f.get('ascii')), 'prefixes': (f.get('prefixes') or frozenset()) | (sv.lits if sv.lits and len(sv.lits) == 1 else frozenset()),
            'first': sv.first if sv.first is not None else f.get('first')}


def set_sfact(st, sv, **kw):
    f = dict(st.objs.get(('sf', sv.ident)) or {})
    for k, v in kw.items():
        if k == 'prefix':
            f['prefixes'] = (f.get('prefixes') or frozenset()) | {v}
        else:
            f[k] = v
    st.objs[('sf', sv.ident)] = f


def sub_str(I, st, sv, len_vid, keep_first=False, name='sub', start=None):
    f = sfacts(st, sv)
    digits = sv.digits
    if not digits and getattr(sv, 'tail_digits', False) and start is not None and start[0] == 'i' and D.get_iv(st, start[1])[0] >= 1:
        digits = True
    n = StrV(len_vid, ascii_=True if f['ascii'] else None, first=f['first'] if keep_first else None, digits=digits)
    return n


def new_string_obj(I, st, sv):
    oid = next(I._oid)
    st.objs[oid] = ('String', sv)
    return ('obj', oid, 'std::string::String')


def pattern_of(I, st, p):
    """('char', c) | ('str', python str) | ('strs', set) | None for a Pattern argument"""
    v = deref(I, st, p)
    if v is None:
        return None
    if v[0] == 'i' and v[2] == 'char':
        lo, hi = D.get_iv(st, v[1])
        return ('char', chr(int(lo))) if lo == hi else ('anychar', None)
    if v[0] == 'str':
        if v[1].lits is not None and len(v[1].lits) == 1:
            return ('str', next(iter(v[1].lits)))
        if v[1].lits is not None:
            return ('strs', v[1].lits)
        return ('anystr', v[1])
    if v[0] == 'obj':
        sv = strv_of(I, st, v)
        if sv is not None:
            return ('anystr', sv)
    if v[0] == 'clo':
        return ('clo', v)
    return None


@model('core::str::<impl str>::starts_with', 'core::str::<impl str>::ends_with', 'core::str::<impl str>::contains')
def m_starts_with(I, st, args, dty, site):
    sv = strv_of(I, st, args[0])
    pat = pattern_of(I, st, args[1])
    which = site['callee'].rsplit('::', 1)[1]
    if pat is not None and pat[0] == 'clo' and sv is not None:
        s0 = st.clone()
        I.call_closure(s0, pat[1], [I.top(s0, {'k': 'char'}, 'ch')], site)
    if sv is None:
        return [(st, I.top(st, {'k': 'bool'}, which))]
    lo, hi = D.get_iv(st, sv.len)
    outs = []
    can_t = can_f = True
    need = 0
    if pat is not None and pat[0] == 'char':
        need = len(pat[1].encode())
    elif pat is not None and pat[0] == 'str':
        need = len(pat[1].encode())
        if need == 0:
            can_f = False
    elif pat is not None and pat[0] == 'anychar':
        need = 1
    if hi < need:
        can_t = False
    f = sfacts(st, sv)
    if which == 'starts_with' and pat is not None and pat[0] in ('char', 'str') and f['first'] is not None and need > 0:
        pc = pat[1][0]
        if f['first'] != pc:
            can_t = False
        elif pat[0] == 'char' and lo >= 1:
            can_f = False
    if sv.lits is not None and pat is not None and pat[0] in ('char', 'str'):
        test = {'starts_with': str.startswith, 'ends_with': str.endswith, 'contains': str.__contains__}[which]
        rs = {test(l, pat[1]) for l in sv.lits}
        can_t = can_t and (True in rs)
        can_f = can_f and (False in rs)
    if can_t:
        s1 = st.clone()
        if D.set_iv(s1, sv.len, max(lo, need), hi):
            if which == 'starts_with' and pat is not None and pat[0] in ('char', 'str') and need > 0:
                set_sfact(s1, sv, prefix=pat[1], first=pat[1][0])
            outs.append((s1, const_int(1, 'bool')))
    if can_f:
        outs.append((st.clone(), const_int(0, 'bool')))
    return outs


@model('core::str::<impl str>::is_ascii')
def m_str_is_ascii(I, st, args, dty, site):
    sv = strv_of(I, st, args[0])
    if sv is None:
        return [(st, I.top(st, {'k': 'bool'}, 'is_ascii'))]
    if sfacts(st, sv)['ascii']:
        return [(st, const_int(1, 'bool'))]
    s1, s2 = st.clone(), st.clone()
    set_sfact(s1, sv, ascii=True)
    return [(s1, const_int(1, 'bool')), (s2, const_int(0, 'bool'))]


def _range_bounds(I, st, r, lenv):
    """(start, end) int values of a range struct over a sequence of length lenv"""
    if r is None or r[0] != 's':
        return None
    p = r[1]
    z = const_int(0, 'usize')
    ln = ('i', lenv, 'usize')
    if p == 'std::ops::Range':
        return r[2][0], r[2][1]
    if p == 'std::ops::RangeFrom':
        return r[2][0], ln
    if p == 'std::ops::RangeTo':
        return z, r[2][0]
    if p == 'std::ops::RangeFull':
        return z, ln
    if p == 'std::ops::RangeInclusive':
        e = I.binop(st, 'Add', r[2][1], const_int(1, 'usize'), ty_of_name('usize'), None, None)
        return r[2][0], e
    if p == 'std::ops::RangeToInclusive':
        e = I.binop(st, 'Add', r[2][0], const_int(1, 'usize'), ty_of_name('usize'), None, None)
        return z, e
    return None


def is_boundary(st, sv, v):
    """F8: is the byte index value v provably a char boundary of sv?"""
    f = sfacts(st, sv)
    if f['ascii']:
        return True
    if v[0] != 'i':
        return False
    lo, hi = D.get_iv(st, v[1])
    if lo == hi == 0 or v[1] == sv.len:
        return True
    if D.rel_get(st, v[1], sv.len) <= frozenset('='):
        return True
    if lo == hi and any(len(p.encode()) == lo for p in f['prefixes']):
        return True
    pr = D.PROV.get(v[1])
    if pr is not None and pr[0] in ('bytes', 'boundary') and pr[1] == sv.ident:
        return True
    return False


def _str_range(I, st, sv, r, site, checked):
    """common part of Index / get on str: returns (ok_state_or_None, substring value, failure possible)"""
    b = _range_bounds(I, st, r, sv.len)
    if b is None or b[0][0] != 'i' or b[1][0] != 'i':
        return None
    a, e = b
    t1, f1 = D.cmp_possible(st, 'Le', a[1], e[1], deep=True)
    t2, f2 = D.cmp_possible(st, 'Le', e[1], sv.len, deep=True)
    inb = not f1 and not f2
    bound = is_boundary(st, sv, a) and is_boundary(st, sv, e)
    s1 = st.clone()
    feas = D.refine_cmp(s1, 'Le', a[1], e[1]) and D.refine_cmp(s1, 'Le', e[1], sv.len)
    sub = None
    if feas:
        n = I.binop(s1, 'Sub', ('i', e[1], 'usize'), ('i', a[1], 'usize'), ty_of_name('usize'), None, None)
        if n[0] == 'i':
            D.set_iv(s1, n[1], 0, USIZE_MAX)
            alo, ahi = D.get_iv(s1, a[1])
            sub = ('str', sub_str(I, s1, sv, n[1], keep_first=(alo == ahi == 0), start=a))
            I.slice_of[sub[1].ident] = (sv.ident, a[1], e[1])     # provenance: which byte range of which string
            I.slice_end_is_len[sub[1].ident] = (e[1] == sv.len)
    return (s1 if feas else None), sub, inb and bound, (a, e)


@model('core::str::traits::<impl std::ops::Index<I> for str>::index', '<std::string::String as std::ops::Index<I>>::index',
       'core::str::traits::<impl std::ops::IndexMut<I> for str>::index_mut')
def m_str_index(I, st, args, dty, site):
    sv = strv_of(I, st, args[0])
    o = site_obl(I, site, 'STDPRE')
    if sv is None:
        I.record(o, False, st, 'range index on a string the analysis cannot see', cause='str range index')
        return [(st, ('str', I.fresh_str(st, 'idx')))]
    r = _str_range(I, st, sv, args[1], site, False)
    if r is None:
        I.record(o, False, st, 'range index of unknown shape on a string', cause='str range index')
        return [(st, ('str', I.fresh_str(st, 'idx')))]
    s1, sub, safe, (a, e) = r
    I.record(o, safe, st, None if safe else
             f'byte range {D.get_iv(st, a[1])}..{D.get_iv(st, e[1])} of a string of byte length {D.get_iv(st, sv.len)}: not provably in bounds on char boundaries '
             f'(ascii known: {sfacts(st, sv)["ascii"]})', cause='str range index')
    if s1 is None or sub is None:
        return []
    return [(s1, sub)]


@model('core::str::<impl str>::split_at')
def m_str_split_at(I, st, args, dty, site):
    sv = strv_of(I, st, args[0])
    mid = args[1]
    ob = site_obl(I, site, 'STDPRE')
    if sv is None or not _intarg(mid):
        I.record(ob, False, st, 'str::split_at on an unknown string or index', cause='str::split_at')
        return [(st, ('t', (('str', I.fresh_str(st, 'head')), ('str', I.fresh_str(st, 'tail')))))]
    inb = not (D.rel_get_deep(st, mid[1], sv.len) - frozenset('<='))
    okb = inb and is_boundary(st, sv, mid)
    I.record(ob, okb, st, None if okb else f'split_at({D.get_iv(st, mid[1])}) of a string of length {D.get_iv(st, sv.len)}: not provably in bounds on a char boundary',
             cause='str::split_at')
    s1 = st.clone()
    if not D.refine_cmp(s1, 'Le', mid[1], sv.len):
        return []
    head = sub_str(I, s1, sv, mid[1], keep_first=True)
    co = getattr(I, 'char_offset', {}).get(mid[1])
    if co is not None and co[0] == sv.ident and co[1][0] == co[1][1]:
        head.nchars = (int(co[1][0]), int(co[1][0]))        # exactly that many chars lie before the cut
    rest_len = I.binop(s1, 'Sub', ('i', sv.len, 'usize'), mid, ty_of_name('usize'), None, None)
    tail = sub_str(I, s1, sv, rest_len[1] if rest_len[0] == 'i' else D.fresh_vid(s1, 0, D.get_iv(s1, sv.len)[1]), start=mid)
    return [(s1, ('t', (('str', head), ('str', tail))))]


@model('core::str::<impl str>::get')
def m_str_get(I, st, args, dty, site):
    sv = strv_of(I, st, args[0])
    if sv is None:
        s1, s2 = st.clone(), st.clone()
        return [(s1, none()), (s2, some(('str', I.fresh_str(s2, 'get'))))]
    r = _str_range(I, st, sv, args[1], site, True)
    if r is None:
        s1, s2 = st.clone(), st.clone()
        return [(s1, none()), (s2, some(('str', I.fresh_str(s2, 'get'))))]
    s1, sub, safe, _ = r
    outs = []
    if s1 is not None and sub is not None:
        outs.append((s1, some(sub)))
    if not safe:
        outs.append((st.clone(), none()))
    return outs


@model('std::string::String::replace_range')
def m_replace_range(I, st, args, dty, site):
    h, o_ = obj_of(I, st, args[0])
    ob = site_obl(I, site, 'STDPRE')
    sv = o_[1] if o_ is not None and o_[0] == 'String' else None
    if sv is None:
        I.record(ob, False, st, 'replace_range on an unknown string', cause='String::replace_range')
        return [(st, UNIT)]
    r = _str_range(I, st, sv, args[1], site, False)
    safe = r is not None and r[2]
    I.record(ob, safe, st, None if safe else 'replace_range: range not provably in bounds on char boundaries', cause='String::replace_range')
    st.objs[h[1]] = ('String', I.fresh_str(st, 'replaced'))
    return [(st, UNIT)]


@model('std::string::String::push')
def m_string_push(I, st, args, dty, site):
    h, o_ = obj_of(I, st, args[0])
    if o_ is None or o_[0] != 'String':
        return None
    sv = o_[1]
    lo, hi = D.get_iv(st, sv.len)
    c = args[1]
    cl, ch = D.get_iv(st, c[1]) if c[0] == 'i' else (0, 0x10FFFF)
    if sv.lits is not None and len(sv.lits) == 1 and cl == ch and I.seg.get(sv.ident) is None:
        # a known text plus a known character is a known text
        st.objs[h[1]] = ('String', I.lit_str(st, next(iter(sv.lits)) + chr(int(cl))))
        return [(st, UNIT)]
    w = 1 if ch < 128 else 4
    nv = D.fresh_vid(st, lo + 1, min(hi + w, USIZE_MAX))
    f = sfacts(st, sv)
    n = StrV(nv, ascii_=True if (f['ascii'] and ch < 128) else None, first=f['first'] if lo >= 1 else (chr(int(cl)) if cl == ch and hi == 0 else None))
    st.objs[h[1]] = ('String', n)
    return [(st, UNIT)]


@model('std::string::String::push_str')
def m_string_push_str(I, st, args, dty, site):
    h, o_ = obj_of(I, st, args[0])
    if o_ is None or o_[0] != 'String':
        return None
    sv = o_[1]
    ov = strv_of(I, st, args[1])
    if (ov is not None and sv.lits is not None and len(sv.lits) == 1 and ov.lits is not None and len(ov.lits) == 1
            and I.seg.get(sv.ident) is None and I.seg.get(ov.ident) is None):
        st.objs[h[1]] = ('String', I.lit_str(st, next(iter(sv.lits)) + next(iter(ov.lits))))
        return [(st, UNIT)]
    lo, hi = D.get_iv(st, sv.len)
    l2, h2 = D.get_iv(st, ov.len) if ov is not None else (0, USIZE_MAX)
    nv = D.fresh_vid(st, lo + l2, min(hi + h2, USIZE_MAX))
    st.objs[h[1]] = ('String', StrV(nv, ascii_=True if (sfacts(st, sv)['ascii'] and ov is not None and sfacts(st, ov)['ascii']) else None))
    return [(st, UNIT)]


@model('std::string::String::new', '<std::string::String as std::default::Default>::default')
def m_string_new(I, st, args, dty, site):
    return [(st, new_string_obj(I, st, I.lit_str(st, '')))]


@model('std::str::<impl str>::replace', 'std::str::<impl str>::to_lowercase', 'std::str::<impl str>::to_uppercase',
       'std::str::<impl str>::to_ascii_lowercase', 'std::str::<impl str>::repeat')
def m_str_to_new_string(I, st, args, dty, site):
    sv = strv_of(I, st, args[0])
    if site['callee'].endswith('::repeat') and sv is not None and sv.lits is not None and len(sv.lits) == 1 and len(args) > 1 and _intarg(args[1]):
        lo_, hi_ = D.get_iv(st, args[1][1])
        if lo_ == hi_ and 0 <= lo_ <= 64:
            return [(st, new_string_obj(I, st, I.lit_str(st, next(iter(sv.lits)) * int(lo_))))]
    n = I.fresh_str(st, site['callee'].rsplit('::', 1)[1])
    if sv is not None and site['callee'].endswith('replace') and len(args) >= 3:
        to = strv_of(I, st, args[2])
        frm = pattern_of(I, st, args[1])
        if sfacts(st, sv)['ascii'] and to is not None and sfacts(st, to)['ascii']:
            n.ascii = True
        # replacing one char by a string of at most the same byte length cannot grow the string
        if frm is not None and frm[0] == 'char' and to is not None and to.lits and all(len(t.encode()) <= len(frm[1].encode()) for t in to.lits):
            lo, hi = D.get_iv(st, sv.len)
            D.set_iv(st, n.len, 0, hi)
    return [(st, new_string_obj(I, st, n))]


@model('core::str::<impl str>::parse')
def m_str_parse(I, st, args, dty, site):
    sv = strv_of(I, st, args[0])
    if dty is None or dty.get('k') != 'adt' or dty['path'] != RESULT:
        return None
    tgt = dty['args'][0]
    tn = tyname(tgt)
    s1, s2 = st.clone(), st.clone()
    outs = []
    if tn:
        tr = range_of_name(tn)
        lo, hi = tr
        if sv is not None:
            ll, lh = D.get_iv(s1, sv.len)
            if sv.nchars is not None:
                lh = min(lh, sv.nchars[1])      # a string that parses as an integer is ASCII: bytes == chars
            if lh != INF and lh <= 38:
                m = 10 ** int(lh) - 1
                lo, hi = max(lo, -m), min(hi, m)
            if not D.set_iv(s1, sv.len, max(ll, 1), D.get_iv(s1, sv.len)[1]):
                s1 = None
        if s1 is not None:
            v = I.top(s1, tgt, 'parsed', lo=max(lo, 0) if (sv is not None and sv.digits) else lo, hi=hi)
            if sv is not None:
                I.parsed_from[v[1]] = sv.ident      # provenance: the number denoted by this string
            outs.append((s1, ok(v)))
        sure = False
        if sv is not None and sv.digits:
            ll, lh = D.get_iv(st, sv.len)
            sure = ll >= 1 and lh != INF and 10 ** int(lh) - 1 <= tr[1]   # non-empty run of digits that fits the type
        if not sure:
            outs.append((s2, err(('s', 'std::num::ParseIntError', (), ('str::parse',)))))
        return outs
    if tgt.get('k') == 'adt' and tgt['path'] == 'std::string::String':
        return [(st, ok(new_string_obj(I, st, sv if sv is not None else I.fresh_str(st, 'parsed'))))]
    # FromStr of a crate type
    if tgt.get('k') == 'adt':
        cand = f"<{tgt['path']} as std::str::FromStr>::from_str"
        if cand in I.bodies:
            con = I.contracts.get(cand)
            if con is not None:
                r = con(I, st, [args[0]], dty, site)
                if r is not None:
                    return r
            return I.call_body(st, cand, [args[0]], site)
    return [(s1, ok(I.top(s1, tgt, 'parsed'))), (s2, err(I.top(s2, dty['args'][1], 'perr')))]


@model('core::str::<impl str>::strip_prefix', 'core::str::<impl str>::strip_suffix')
def m_strip(I, st, args, dty, site):
    sv = strv_of(I, st, args[0])
    pat = pattern_of(I, st, args[1])
    if sv is None:
        s1, s2 = st.clone(), st.clone()
        return [(s1, none()), (s2, some(('str', I.fresh_str(s2, 'strip'))))]
    lo, hi = D.get_iv(st, sv.len)
    need = None
    if pat is not None and pat[0] in ('char', 'str'):
        need = (len(pat[1].encode()), len(pat[1].encode()))
    elif pat is not None and pat[0] == 'anystr':
        need = D.get_iv(st, pat[1].len)
    if site['callee'].endswith('strip_suffix') and pat is not None and pat[0] == 'anystr' and pat[1].rest_of is not None and pat[1].rest_of[0] == sv.ident:
        n = pat[1].rest_of[1]
        nv = D.fresh_vid(st, n, 4 * n)
        head = sub_str(I, st, sv, nv, keep_first=True)
        head.nchars = (n, n)
        return [(st, some(('str', head)))]      # the tail of a string is always a suffix of it
    outs = [(st.clone(), none())]
    if need is None or hi >= need[0]:
        s2 = st.clone()
        nl = (max(lo - (need[1] if need else hi), 0), hi - (need[0] if need else 0))
        nv = D.fresh_vid(s2, int(nl[0]), int(nl[1]) if nl[1] != INF else USIZE_MAX)
        D.rel_set(s2, nv, sv.len, '<=')
        outs.append((s2, some(('str', sub_str(I, s2, sv, nv, keep_first=site['callee'].endswith('suffix'))))))
    return outs


@model("std::str::Chars::<'a>::as_str")
def m_chars_as_str(I, st, args, dty, site):
    it = deref(I, st, args[0])
    if it is None or it[0] != 'it' or it[1] != 'chars':
        return [(st, ('str', I.fresh_str(st, 'rest')))]
    sv = it[2]
    if it[3] == 0:
        return [(st, ('str', sv))]
    lo, hi = D.get_iv(st, sv.len)
    n = it[3]
    nv = D.fresh_vid(st, max(lo - 4 * n, 0) if isinstance(n, int) and lo != -INF else 0, (hi - n) if isinstance(n, int) else hi)
    D.rel_set(st, nv, sv.len, '<=')
    rest = sub_str(I, st, sv, nv)
    if isinstance(n, int):
        rest.rest_of = (sv.ident, n)
    return [(st, ('str', rest))]


@model('core::str::traits::<impl std::cmp::PartialEq for str>::eq', '<std::string::String as std::cmp::PartialEq>::eq',
       '<std::string::String as std::cmp::PartialEq<str>>::eq', "<std::string::String as std::cmp::PartialEq<&'a str>>::eq",
       'core::str::traits::<impl std::cmp::PartialEq for str>::ne')
def m_str_eq(I, st, args, dty, site):
    x, y = strv_of(I, st, args[0]), strv_of(I, st, args[1])
    if x is None or y is None:
        return [(st, I.top(st, {'k': 'bool'}, 'streq'))]
    return str_eq(I, st, x, y, site['callee'].endswith('::ne'))


@model('core::str::<impl str>::split', 'core::str::<impl str>::split_whitespace', 'core::str::<impl str>::lines',
       'core::str::<impl str>::char_indices', 'core::str::<impl str>::bytes', 'core::str::<impl str>::splitn')
def m_str_split(I, st, args, dty, site):
    sv = strv_of(I, st, args[0])
    which = site['callee'].rsplit('::', 1)[1]
    if which == 'bytes':
        return [(st, ('it', 'unk', ty_of_name('u8'), sv.len if sv is not None else None) + ((None, ('bytes', sv)) if sv is not None else ()))]
    if which == 'char_indices':
        return [(st, ('it', 'unk', {'k': 'tuple', 'elems': [ty_of_name('usize'), {'k': 'char'}]}, sv.len if sv is not None else None)
                 + ((None, ('cidx', sv)) if sv is not None else ()))]
    return [(st, ('it', 'strs', sv))]


@model('core::str::<impl str>::trim_matches', 'core::str::<impl str>::trim', 'core::str::<impl str>::trim_start', 'core::str::<impl str>::trim_end',
       'core::str::<impl str>::trim_start_matches', 'core::str::<impl str>::trim_end_matches')
def m_trim(I, st, args, dty, site):
    sv = strv_of(I, st, args[0])
    if len(args) > 1:
        pat = pattern_of(I, st, args[1])
        if pat is not None and pat[0] == 'clo':
            s0 = st.clone()
            I.call_closure(s0, pat[1], [I.top(s0, {'k': 'char'}, 'ch')], site)
    if sv is None:
        return [(st, ('str', I.fresh_str(st, 'trim')))]
    lo, hi = D.get_iv(st, sv.len)
    nv = D.fresh_vid(st, 0, hi)
    D.rel_set(st, nv, sv.len, '<=')
    return [(st, ('str', sub_str(I, st, sv, nv)))]


@model('std::str::from_utf8', 'core::str::from_utf8')
def m_from_utf8(I, st, args, dty, site):
    a = args[0]
    s1, s2 = st.clone(), st.clone()
    if a[0] == 'slice':
        sv = StrV(a[1]['len'])
        if a[1].get('ascii'):
            sv.ascii = True
        if a[1].get('digits'):
            sv.digits = True
    else:
        sv = I.fresh_str(s1, 'utf8')
    e = ('s', 'std::str::Utf8Error', (), ('str::from_utf8',))
    if a[0] == 'slice' and a[1].get('ascii'):
        return [(s1, ok(('str', sv)))]
    return [(s1, ok(('str', sv))), (s2, err(e))]


@model('<std::string::String as std::convert::From<char>>::from')
def m_string_from_char(I, st, args, dty, site):
    c = args[0]
    if _intarg(c):
        lo, hi = D.get_iv(st, c[1])
        if lo == hi:
            return [(st, new_string_obj(I, st, I.lit_str(st, chr(int(lo)))))]
        sv = I.fresh_str(st, 'char', 1, 4 if hi > 127 else 1)
        sv.ascii = True if hi <= 127 else None
        return [(st, new_string_obj(I, st, sv))]
    return [(st, new_string_obj(I, st, I.fresh_str(st, 'char', 1, 4)))]


@model_if(lambda n: n.startswith('core::bool::<impl bool>::then'))
def m_bool_then(I, st, args, dty, site):
    b, x = args[0], args[1]
    if not _intarg(b):
        return None
    lazy = site['callee'].endswith('::then')
    outs = []
    lo, hi = D.get_iv(st, b[1])
    for val in (0, 1):
        if not (lo <= val <= hi):
            continue
        s2 = st.clone()
        if not D.set_iv(s2, b[1], val, val):
            continue
        t_ = D.TERM.get(b[1])
        if t_ is not None and t_[0] in D.NEG and isinstance(t_[1], int) and isinstance(t_[2], int):
            if not D.refine_cmp(s2, t_[0] if val else D.NEG[t_[0]], t_[1], t_[2]):
                continue
        if not val:
            outs.append((s2, none()))
        elif lazy:
            r = I.call_closure(s2, x, [], site)
            if r is None:
                outs.append((s2, some(I.top(s2, item_ty_of(dty), 'then') if item_ty_of(dty) else ('top', None))))
            else:
                outs.extend((s3, some(v)) for s3, v in r)
        else:
            outs.append((s2, some(x)))
    return outs


@model('<std::string::String as std::convert::From<&str>>::from', '<str as std::borrow::ToOwned>::to_owned', 'std::borrow::ToOwned::to_owned',
       '<std::string::String as std::convert::From<&mut str>>::from')
def m_string_from(I, st, args, dty, site):
    sv = strv_of(I, st, args[0])
    return [(st, new_string_obj(I, st, sv if sv is not None else I.fresh_str(st, 'from')))]


@model('std::iter::Iterator::take_while_count_dummy')
def _unused(I, st, args, dty, site):
    return None


@model('std::cmp::Ord::min', 'std::cmp::Ord::max')
def m_ord_minmax(I, st, args, dty, site):
    a, b = args
    if not (_intarg(a) and _intarg(b)):
        return m_minmax(I, st, args, dty, site)
    is_min = site['callee'].endswith('min')
    outs = []
    # result is one of the operands: split on the comparison so that the result keeps its identity
    s1 = st.clone()
    if D.refine_cmp(s1, 'Le' if is_min else 'Ge', a[1], b[1]):
        outs.append((s1, a))
    s2 = st.clone()
    if D.refine_cmp(s2, 'Gt' if is_min else 'Lt', a[1], b[1]):
        outs.append((s2, b))
    # enumerate small results (they are typically widths / lengths that later code depends on exactly)
    final = []
    for s, v in outs:
        lo, hi = D.get_iv(s, v[1])
        if lo != -INF and hi != INF and 0 < hi - lo <= 16:
            for k in range(int(lo), int(hi) + 1):
                sk = s.clone()
                if D.set_iv(sk, v[1], k, k):
                    final.append((sk, v))
        else:
            final.append((s, v))
    return final


@model('std::option::Option::<T>::map_or', 'std::result::Result::<T, E>::map_or')
def m_map_or(I, st, args, dty, site):
    v, dflt, clo = args[0], args[1], args[2]
    if v[0] != 'e':
        return None
    okv = 1 if v[1] == OPTION else 0
    outs = []
    if okv in v[2]:
        r = I.call_closure(st, clo, [v[2][okv][0]], site)
        if r is None:
            s2 = st.clone()
            outs.append((s2, I.top(s2, dty, 'map_or')))
        else:
            outs.extend(r)
    if (1 - okv) in v[2]:
        outs.append((st.clone(), dflt))
    return outs


@model('std::option::Option::<T>::map_or_else')
def m_map_or_else(I, st, args, dty, site):
    v, dclo, clo = args[0], args[1], args[2]
    if v[0] != 'e':
        return None
    outs = []
    if 1 in v[2]:
        r = I.call_closure(st, clo, [v[2][1][0]], site)
        outs.extend(r if r is not None else [(st.clone(), ('top', None))])
    if 0 in v[2]:
        r = I.call_closure(st, dclo, [], site)
        outs.extend(r if r is not None else [(st.clone(), ('top', None))])
    return outs


@model_if(lambda n: n.startswith('std::array::equality::') or n.startswith('core::array::equality::') or n.startswith('core::slice::cmp::<impl std::cmp::PartialEq'))
def m_array_eq(I, st, args, dty, site):
    return [(st, I.top(st, {'k': 'bool'}, 'arr_eq'))]


@model('std::convert::From::from')
def m_from_generic(I, st, args, dty, site):
    a = args[0]
    src = a[1] if a is not None and a[0] in ('s', 'e') else None
    if dty is not None and dty.get('k') == 'adt':
        for cand in I.bodies:
            if cand.startswith('<' + dty['path'] + ' as std::convert::From<') and cand.endswith('>>::from'):
                if src and src in cand:
                    return I.call_body(st, cand, [a], site)
        return [(st, I.top(st, dty, 'from'))]
    if src:
        cands = [c for c in I.bodies if ' as std::convert::From<' + src + '>>::from' in c]
        if len(cands) == 1:
            return I.call_body(st, cands[0], [a], site)
    return None


@model('core::slice::<impl [T]>::get', 'core::slice::<impl [T]>::get_mut')
def m_slice_get(I, st, args, dty, site):
    a, idx = args[0], args[1]
    if a[0] != 'slice':
        return None
    if _intarg(idx):
        outs = []
        s1 = st.clone()
        if D.refine_cmp(s1, 'Lt', idx[1], a[1]['len']):
            outs.append((s1, some(_slice_elem_ref(I, s1, a[1], mutable=site['callee'].endswith('_mut')))))
        s2 = st.clone()
        if D.refine_cmp(s2, 'Ge', idx[1], a[1]['len']):
            outs.append((s2, none()))
        return outs
    rb = _range_bounds(I, st, idx, a[1]['len']) if idx is not None and idx[0] == 's' else None
    if rb is not None and _intarg(rb[0]) and _intarg(rb[1]):
        # slice.get(range): Some exactly when start <= end <= len; the piece has end - start elements
        start, end = rb
        outs = []
        s1 = st.clone()
        if D.refine_cmp(s1, 'Le', start[1], end[1]) and D.refine_cmp(s1, 'Le', end[1], a[1]['len']):
            ln = I.binop(s1, 'Sub', end, start, ty_of_name('usize'), None, None)
            if ln[0] == 'i':
                piece = dict(I.fresh_slice(s1, a[1].get('elem_ty')), len=ln[1])
                if a[1].get('ascii'):
                    piece['ascii'] = True
                outs.append((s1, some(('slice', piece))))
        for op, x, y in (('Gt', start[1], end[1]), ('Gt', end[1], a[1]['len'])):
            s2 = st.clone()
            if D.refine_cmp(s2, op, x, y):
                outs.append((s2, none()))
        if outs:
            return outs
    s1, s2 = st.clone(), st.clone()
    return [(s1, none()), (s2, some(('slice', I.fresh_slice(s2, a[1].get('elem_ty')))))]
