"""C01-B: date_to_days is the proleptic Gregorian day count, for every year at once.

Years are analysed in residue classes of the 400-year cycle: year = 400 k + j (AD, j = 1..400) and year = -(400 k + j)
(BC, j = 3..402, plus the constants -1 and -2), with k symbolic -- one abstract run of date_to_days per class covers that
residue in every cycle. In each class the divisions by 4 / 100 / 400 fold exactly (high/low split of the affine form), so
every accepted path yields an exact affine day number.  Oracle: the calendar definition itself -- month lengths
31,28/29,31,..., leap year iff the astronomical year (year + 1 for BC years) is divisible by 4 and not by 100 unless by 400.

Decided per class:
  (a) for each month the accepted days are exactly 1..=length(month, leap(class)) and the day number is
      base + (days before the month) + day - 1 with one base for all twelve months;
  (b) base(next year) = base(year) + 365 + leap(year), also across the cycle wrap (k -> k + 1), across -2 -> -1 and
      -1 -> 1 (there is no year 0), and base(1) = 0.
By induction over the years this is the day count of the proleptic Gregorian calendar: strictly increasing by one from
each valid date to the next, hence injective, with 0001-01-01 = 0."""
from . import domain as D
from .models import const_int

DTD = 'util::date::convert::date_to_days'
I32 = {'k': 'int', 's': True, 'bits': 32, 'name': 'i32'}
CUM = [0, 31, 59, 90, 120, 151, 181, 212, 243, 273, 304, 334]
LEN = [31, 28, 31, 30, 31, 30, 31, 31, 30, 31, 30, 31]
KMAX = 14_698            # 400 * 14_698 + 402 < 5_879_611: every class stays inside the valid year range; the last 11 years of each era are analysed one by one


def leap_oracle(era, j):
    a = j if era > 0 else -(j - 1)          # astronomical year modulo 400 (BC year y is astronomical y + 1)
    a = abs(a)
    return a % 4 == 0 and (a % 100 != 0 or a % 400 == 0)


def daynum(y, m, d):
    """the calendar definition: days since 0001-01-01 in the proleptic Gregorian calendar without a year 0"""
    a = y if y > 0 else y + 1
    leap = a % 4 == 0 and (a % 100 != 0 or a % 400 == 0)
    b = a - 1
    return 365 * b + b // 4 - b // 100 + b // 400 + CUM[m - 1] + (1 if (m > 2 and leap) else 0) + d - 1, leap


def check_day_count(ctx, Numeric):
    N = Numeric(ctx, 'default', max_disj=300, max_steps=3_000_000)
    I = N.I
    if DTD not in I.bodies:
        ctx.finding('C01:ANCHOR|calendar', 'C01-B day count', None, 'ANCHOR-MISSING: date_to_days')
        return
    span = I.bodies[DTD]['span']
    I.return_partition[DTD] = lambda I_, st, v: id(st)
    KV = D.sym_vid(0, KMAX, 'cycle')
    bases = {}
    problems = []

    def run(label, year_fn):
        N.run(DTD, label=label, overrides={'year@1': year_fn}, variants=('fixed',))
        per_month = {}
        for args, st0, outs in N.results.get(label, []):
            mv, dv = args[1][1], args[2][1]
            for st, rv in outs:
                if rv[0] != 'e' or 0 not in rv[2] or 1 in rv[2]:
                    continue
                ml, mh = D.get_iv(st, mv)
                if ml != mh:
                    problems.append((label, 'an accepted path does not fix the month'))
                    continue
                per_month.setdefault(int(ml), []).append((D.get_iv(st, dv), D.aff_of(rv[2][0][0][1]), dv))
        return per_month

    def analyse(label, per_month, leap, exact_year=None):
        base = None
        for m in range(1, 13):
            got = per_month.get(m, [])
            want_len = LEN[m - 1] + (1 if (m == 2 and leap) else 0)
            want_lo = 1
            if exact_year is not None:
                # at the ends of the range only the dates whose day number fits an i32 exist
                okd = [d for d in range(1, want_len + 1) if -(1 << 31) <= daynum(exact_year, m, d)[0] <= (1 << 31) - 1]
                if not okd:
                    if got:
                        problems.append((label, f'month {m} is accepted although none of its days is representable'))
                    continue
                want_lo, want_len = okd[0], okd[-1]
            if not got:
                problems.append((label, f'month {m} is never accepted'))
                continue
            lo = min(iv[0] for iv, _a, _d in got)
            hi = max(iv[1] for iv, _a, _d in got)
            if (lo, hi) != (want_lo, want_len):
                problems.append((label, f'month {m}: days {lo}..={hi} are accepted, the calendar has {want_lo}..={want_len}'))
            for iv, aff, dv in got:
                b = D.aff_add(D.aff_add(aff, D.Aff({dv: 1}, 0), -1), D.aff_const(CUM[m - 1] + (1 if (m > 2 and leap) else 0) - 1), -1)
                if dv in b.co:
                    problems.append((label, f'month {m}: the day number does not grow by one per day'))
                    continue
                if base is None:
                    base = b
                elif b.key() != base.key() or b.c0 != base.c0:
                    problems.append((label, f'month {m}: the day number is not (day number of 1 January) + (days before the month) + day - 1'))
        return base

    classes = [(1, j) for j in range(1, 401)] + [(-1, j) for j in range(3, 403)]
    for era, j in classes:
        def year(I_, st, ty, era=era, j=j):
            st.iv[KV] = (0, KMAX)
            y = I_.binop(st, 'Mul', ('i', KV, 'i32'), const_int(400 * era, 'i32'), I32, None, None)
            return I_.binop(st, 'Add', y, const_int(era * j, 'i32'), I32, None, None)
        label = f'{DTD}[{"AD" if era > 0 else "BC"} {j} mod 400]'
        pm = run(label, year)
        bases[(era, j)] = (analyse(label, pm, leap_oracle(era, j)), leap_oracle(era, j))
    for yconst in (-1, -2):
        label = f'{DTD}[year {yconst}]'
        pm = run(label, lambda I_, st, ty, yconst=yconst: const_int(yconst, 'i32'))
        leap = leap_oracle(-1, -yconst)
        bases[('c', yconst)] = (analyse(label, pm, leap), leap)
    # the last years of both eras, one by one, with the i32 range of the day number as the only extra limit
    nedge = 0
    for yconst in list(range(5_879_601, 5_879_613)) + list(range(-5_879_612, -5_879_600)):
        label = f'{DTD}[year {yconst}]'
        pm = run(label, lambda I_, st, ty, yconst=yconst: const_int(yconst, 'i32'))
        nedge += 1
        d1, leap = daynum(yconst, 1, 1)
        b = analyse(label, pm, leap, exact_year=yconst)
        if b is not None and (b.co or b.c0 != d1):
            problems.append((label, f'1 January is day {b}, the calendar says {d1}'))

    def shifted(aff):      # k -> k + 1
        return D.Aff(dict(aff.co), aff.c0 + aff.co.get(KV, 0))

    def same(a, b):
        return a is not None and b is not None and a.key() == b.key() and a.c0 == b.c0
    nlinks = oklinks = 0

    def link(name, lo_base, lo_leap, hi_base):
        nonlocal nlinks, oklinks
        nlinks += 1
        want = D.aff_add(lo_base, D.aff_const(365 + (1 if lo_leap else 0))) if lo_base is not None else None
        if same(want, hi_base):
            oklinks += 1
        else:
            problems.append((name, f'1 January of the next year is not {365 + (1 if lo_leap else 0)} days after 1 January: {hi_base} vs {want}'))
    for j in range(1, 400):
        link(f'AD {j} -> {j + 1}', bases[(1, j)][0], bases[(1, j)][1], bases[(1, j + 1)][0])
    link('AD 400 -> 401', bases[(1, 400)][0], bases[(1, 400)][1], shifted(bases[(1, 1)][0]) if bases[(1, 1)][0] is not None else None)
    # BC: year -(400k + j) is followed by -(400k + j - 1)
    for j in range(4, 403):
        link(f'BC {j} -> {j - 1}', bases[(-1, j)][0], bases[(-1, j)][1], bases[(-1, j - 1)][0])
    link('BC 403 -> 402', shifted(bases[(-1, 3)][0]) if bases[(-1, 3)][0] is not None else None, bases[(-1, 3)][1], bases[(-1, 402)][0])

    def at0(aff):
        return D.Aff({k_: c for k_, c in aff.co.items() if k_ != KV}, aff.c0) if aff is not None else None
    link('-3 -> -2', at0(bases[(-1, 3)][0]), bases[(-1, 3)][1], bases[('c', -2)][0])
    link('-2 -> -1', bases[('c', -2)][0], bases[('c', -2)][1], bases[('c', -1)][0])
    link('-1 -> 1 (no year 0)', bases[('c', -1)][0], bases[('c', -1)][1], at0(bases[(1, 1)][0]))
    b1 = at0(bases[(1, 1)][0])
    nlinks += 1
    if b1 is not None and not b1.co and b1.c0 == 0:
        oklinks += 1
    else:
        problems.append(('epoch', f'0001-01-01 is not day 0 ({b1})'))
    nclasses = len(classes) + 2 + nedge
    bad_classes = {p[0] for p in problems}
    ctx.rule('C01-B date_to_days per residue class of the 400-year cycle: accepted days and linear shape', nclasses, nclasses - len([c for c in bad_classes if c.startswith(DTD)]), floor=826)
    ctx.rule('C01-B consecutive years are 365/366 days apart in every cycle, no year 0, 0001-01-01 = 0', nlinks, oklinks, floor=803)
    seen = set()
    for name, msg in problems:
        key = name.replace(DTD, '').strip('[]')
        if key in seen or len(seen) >= 6:
            continue
        seen.add(key)
        ctx.finding(f'C01:DAYCOUNT|{key}', 'C01-B day count', span, f'date_to_days, {key}: {msg}')


# ----------------------------------------------------------------------------------------------------------------
D2D = 'util::date::convert::days_to_date'
LEAPOCH = 730_179          # 2000-03-01, checked against the constant in days_to_date by C01-D4
CYCLE = 146_097


CLASS_BUDGET_S = 900          # per residue class; generous: the machine may be heavily loaded


def march_years():
    """the 400 March-based years of one cycle starting 2000-03-01: (c, q, r1, start offset, length)"""
    out = []
    s = 0
    for c in range(4):
        for q in range(25):
            for r1 in range(4):
                r = 100 * c + 4 * q + r1
                cal = 2001 + r                      # the calendar year whose February ends this March-based year
                ln = 366 if (cal % 4 == 0 and (cal % 100 != 0 or cal % 400 == 0)) else 365
                out.append((c, q, r1, s, ln))
                s += ln
    assert s == CYCLE and len(out) == 400
    assert all(st == 36_524 * c + 1_461 * q + 365 * r1 for c, q, r1, st, _l in out)
    return out


def _inverse_worker(job):
    """one chunk of classes: date_to_days(days_to_date(n)) == n for n = LEAPOCH + 146097*cycle + start + t, cycle and t symbolic"""
    from .cli import Ctx
    from .numeric import Numeric
    from .absint import St
    cfg, chunk = job
    ctx = Ctx('C01', 'quick', 0)
    N = Numeric(ctx, cfg, max_disj=400, max_steps=5_000_000)
    I = N.I
    I.return_partition[D2D] = lambda I_, st, v: id(st)
    I.return_partition[DTD] = lambda I_, st, v: id(st)
    problems = []
    infra = []
    npaths = 0
    for (c, q, r1, S, ln, mode, tlo, thi) in chunk:
        st = St()
        st.frames[0] = {}
        I.cur_entry = 'C01 inverse'
        I.stack = []
        t = I.top(st, I32, 't', lo=tlo, hi=thi) if tlo != thi else const_int(tlo, 'i32')
        if mode[0] == 'pos':
            cyc = I.top(st, I32, 'cycle', lo=0, hi=mode[1])
            n = I.binop(st, 'Mul', cyc, const_int(CYCLE, 'i32'), I32, None, None)
            n = I.binop(st, 'Add', n, const_int(LEAPOCH + S, 'i32'), I32, None, None)
        elif mode[0] == 'mid':
            u = I.top(st, I32, 'cycle+5', lo=0, hi=4)
            n = I.binop(st, 'Mul', u, const_int(CYCLE, 'i32'), I32, None, None)
            n = I.binop(st, 'Add', n, const_int(LEAPOCH - 5 * CYCLE + S, 'i32'), I32, None, None)
        elif mode[0] == 'neg':
            p = I.top(st, I32, '-cycle-6', lo=1, hi=mode[1])          # cycle <= -7 (cycle -6 is analysed as a constant)
            n = I.binop(st, 'Mul', p, const_int(-CYCLE, 'i32'), I32, None, None)
            n = I.binop(st, 'Add', n, const_int(LEAPOCH - 6 * CYCLE + S, 'i32'), I32, None, None)
        else:
            n = const_int(LEAPOCH + mode[1] * CYCLE + S, 'i32')
        n = I.binop(st, 'Add', n, t, I32, None, None) if not (t[0] == 'i' and t[1] in D.CONSTVAL and n[1] in D.CONSTVAL) else const_int(D.CONSTVAL[n[1]] + D.CONSTVAL[t[1]], 'i32')
        name = f'{mode[0]} cycle, March-year {100 * c + 4 * q + r1}, t {tlo}..{thi}'
        import signal

        def _alarm(signum, frame):
            raise TimeoutError('time budget of one class exceeded')
        signal.signal(signal.SIGALRM, _alarm)
        signal.alarm(CLASS_BUDGET_S)
        try:
            outs = I.call_body(st, D2D, [n], ('entry', D2D))
            pairs = []
            for s, v in outs:
                if v[0] != 't' or len(v[1]) != 3:
                    problems.append((name, 'days_to_date result not tracked'))
                    continue
                y, m, d = v[1]
                for s2, rv in I.call_body(s, DTD, [y, m, d], ('entry', DTD)):
                    pairs.append((s2, rv, m, d))
        except TimeoutError as e:
            signal.alarm(0)
            infra.append(f'{name}: {e}')            # a slow machine is not a property violation: reported as an infrastructure failure
            I.stack = []
            continue
        except Exception as e:      # noqa
            signal.alarm(0)
            problems.append((name, f'analysis failed: {e}'))
            I.stack = []
            continue
        signal.alarm(0)
        if not outs:
            problems.append((name, 'days_to_date has no result'))
        for s2, rv, m, d in pairs:
            if True:
                npaths += 1
                if rv[0] != 'e' or 0 not in rv[2] or 1 in rv[2]:
                    problems.append((name, f'date_to_days rejects the date days_to_date returned (month {D.get_iv(s2, m[1])}, day {D.get_iv(s2, d[1])})'))
                    continue
                if not D.aff_equiv(D.aff_of(rv[2][0][0][1]), D.aff_of(n[1]), st=s2):
                    problems.append((name, f'date_to_days(days_to_date(n)) = {D.aff_of(rv[2][0][0][1])}, n = {D.aff_of(n[1])} (month {D.get_iv(s2, m[1])})'))
    return problems, npaths, len(chunk), infra


def check_inverse(ctx, Numeric):
    """C01-I: days_to_date is a right inverse of date_to_days on every i32 day number (with C01-B: the two are mutually inverse)"""
    import multiprocessing as mp
    MAXN, MINN = (1 << 31) - 1, -(1 << 31)
    jobs = []
    pos_full = (MAXN - LEAPOCH - (CYCLE - 1)) // CYCLE            # last cycle index that fits completely
    neg_full = (LEAPOCH - 6 * CYCLE - MINN) // CYCLE               # p = -cycle-6 for the last complete cycle below
    for (c, q, r1, S, ln) in march_years():
        jobs.append((c, q, r1, S, ln, ('pos', pos_full), 0, ln - 1))
        for cyc in range(-6, 0):          # the cycles around the era boundary, one by one (constants fold)
            jobs.append((c, q, r1, S, ln, ('const', cyc), 0, ln - 1))
        if S == 0:
            # first day of a cycle: the day number is an exact multiple of the cycle length below LEAPOCH (no remainder fix-up)
            jobs.append((c, q, r1, S, ln, ('neg', neg_full), 0, 0))
            jobs.append((c, q, r1, S, ln, ('neg', neg_full), 1, ln - 1))
        else:
            jobs.append((c, q, r1, S, ln, ('neg', neg_full), 0, ln - 1))
        # the partial cycles at both ends of the i32 range: constant cycle index, t clipped to the representable days
        hi_c = pos_full + 1
        lo_n, hi_n = LEAPOCH + hi_c * CYCLE + S, LEAPOCH + hi_c * CYCLE + S + ln - 1
        if lo_n <= MAXN:
            jobs.append((c, q, r1, S, ln, ('const', hi_c), 0, min(ln - 1, MAXN - lo_n)))
        lo_c = -6 - neg_full - 1
        lo_n = LEAPOCH + lo_c * CYCLE + S
        if lo_n + ln - 1 >= MINN:
            jobs.append((c, q, r1, S, ln, ('const', lo_c), max(0, MINN - lo_n), ln - 1))
    # coverage of the i32 range by the classes (independent arithmetic)
    covered = (pos_full + 1) * CYCLE + 6 * CYCLE + neg_full * CYCLE
    hi_c = pos_full + 1
    covered += max(0, MAXN - (LEAPOCH + hi_c * CYCLE) + 1)
    lo_c = -6 - neg_full - 1
    covered += max(0, (LEAPOCH + (lo_c + 1) * CYCLE - 1) - MINN + 1)
    full = covered == (1 << 32)
    nproc = min(16, max(1, mp.cpu_count()))
    chunks = [(ctx_cfg(ctx), jobs[i::nproc]) for i in range(nproc)]
    with mp.get_context('fork').Pool(nproc) as pool:
        res = pool.map(_inverse_worker, chunks, chunksize=1)
    problems = [p for r in res for p in r[0]]
    npaths = sum(r[1] for r in res)
    nclasses = sum(r[2] for r in res)
    slow = [x for r in res for x in r[3]]
    if slow:
        from .facts import InfraError
        raise InfraError(f'C01-I: {len(slow)} class(es) exceeded the time budget of {CLASS_BUDGET_S} s (a class normally takes a fraction of a second): ' + '; '.join(slow[:3]))
    span = None
    ctx.rule('C01-I the classes cover every i32 day number exactly once', 1, 1 if full else 0)
    if not full:
        ctx.finding('C01:INVERSE|coverage', 'C01-I inverse', span, f'internal: the residue classes cover {covered} day numbers, expected {1 << 32}')
    ctx.rule('C01-I date_to_days(days_to_date(n)) == n per March-year class and cycle range (symbolic cycle index and day)', nclasses, nclasses - len({p[0] for p in problems}),
             floor=3200, sample={'paths': npaths})
    seen = set()
    for name, msg in problems:
        if name in seen or len(seen) >= 6:
            continue
        seen.add(name)
        ctx.finding(f'C01:INVERSE|{name}', 'C01-I inverse', span, f'days_to_date is not the inverse of date_to_days: {name}: {msg}')


def ctx_cfg(ctx):
    return 'default'
