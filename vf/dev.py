import sys, time
from .facts import facts
from .absint import Interp
from .entries import default_args, install_offset_contract, install_partitions, install_splitter_contract
from . import domain as D

def main():
    F = facts('default')
    I = Interp(F, max_disj=int(__import__('os').environ.get('MAXD', '400')))
    if 'NOCONTRACT' not in __import__('os').environ: install_offset_contract(I)
    install_partitions(I)
    if 'SPLIT' in __import__('os').environ: install_splitter_contract(I)
    if 'TZ' in __import__('os').environ:
        from .entries import install_tz_partitions, install_cursor_contracts; install_tz_partitions(I); install_cursor_contracts(I)
    I.debug = 'DEBUG' in __import__('os').environ
    pats = sys.argv[1:]
    names = [n for n in F.bodies if any(p in n for p in pats) and F.bodies[n]['kind'] in ('Fn', 'AssocFn')]
    for n in names:
        t0 = time.time()
        before = set(I.obl)
        I.steps = 0
        try:
            outs = I.run_entry(n, default_args(n))
        except Exception as e:
            import traceback; traceback.print_exc()
            print('!!', n, 'EXC', e); continue
        print(f'== {n}: {len(outs)} disjuncts, {time.time()-t0:.2f}s, {I.steps} steps', flush=True)
        for s, v in outs[:12]:
            print('     ->', I.describe(s, v))
    print('--- obligations')
    for k, o in sorted(I.obl.items(), key=lambda kv: str(kv[0])):
        if o.fail:
            print('  FAIL', o.id(), o.span, 'ok', o.ok, 'fail', o.fail, o.causes or '', (o.samples[0]['detail'] if o.samples else ''))
    print('ok obligations:', sum(1 for o in I.obl.values() if not o.fail), 'failed:', sum(1 for o in I.obl.values() if o.fail))
    print('unmodelled:', I.unmodelled)
    print('notes:', I.notes)

main()
