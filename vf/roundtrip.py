"""Exact symbolic text for the parser side (C12): a String whose content is known character class by character class --
literal characters, the digits of a number whose value and digit count are known on this path, and an arbitrary rest
that does not start with an ASCII digit (the property's side condition for delimiter-terminated numbers).

Hooks (active only for strings registered in I.xtext):
  str::starts_with, chars().nth(i) / chars().next(), util::parse::pick_part / remove_part (summaries of the two helpers:
  "take the first n characters [and parse them]" -- their bodies are analysed for every input by C14)."""
from . import domain as D
from .absint import StrV
from .models import (strv_of, some, none, ok, err, const_int, pattern_of, new_string_obj, deref, _intarg, tyname,
                     range_of_name)

PICK = 'util::parse::pick_part'
REMOVE = 'util::parse::remove_part'
STRING = 'std::string::String'


class XText:
    __slots__ = ('chars', 'nums', 'rest')

    def __init__(self, chars, nums, rest):
        self.chars = chars      # [('c', ch) | ('d', pid, index)]
        self.nums = nums        # pid -> (vid, ndigits, tyname)
        self.rest = rest        # True: arbitrary text whose first char is not an ASCII digit (or nothing) follows

    def __repr__(self):
        return ''.join(c[1] if c[0] == 'c' else '9' for c in self.chars) + ('...' if self.rest else '')


def build(I, st, pieces, rest=True):
    """XText + StrV for a formatted text described by segment pieces (textsem.pieces_of) whose numbers have an exact digit
    count in st; returns None when a piece is not exact"""
    chars = []
    nums = {}
    for i, p in enumerate(pieces):
        if p[0] == 'lit':
            chars.extend(('c', ch) for ch in p[1])
        elif p[0] in ('zp', 'num'):
            lo, hi = D.get_iv(st, p[1])
            w = p[2] if isinstance(p[2], int) else 1
            dl, dh = max(w, len(str(int(lo)))), max(w, len(str(int(hi))))
            if lo < 0 or dl != dh:
                return None
            if lo == hi:
                chars.extend(('c', ch) for ch in str(int(lo)).zfill(w))     # a constant on this path: literal digits
                continue
            nums[i] = (p[1], dl)
            chars.extend(('d', i, k) for k in range(dl))
        else:
            return None
    return XText(chars, nums, rest)


def digit_splits(st, pieces):
    """sub-states of st in which every number of `pieces` has one digit count"""
    outs = [st]
    for p in pieces:
        if p[0] not in ('zp', 'num'):
            continue
        w = p[2] if isinstance(p[2], int) else 1
        nxt = []
        for s in outs:
            lo, hi = D.get_iv(s, p[1])
            if lo < 0:
                return []
            dl, dh = max(w, len(str(int(lo)))), max(w, len(str(int(hi))))
            for d in range(dl, dh + 1):
                a = 0 if d == w else 10 ** (d - 1)
                b = 10 ** d - 1
                s2 = s.clone()
                if D.set_iv(s2, p[1], max(lo, a), min(hi, b)):
                    nxt.append(s2)
        outs = nxt
    return outs


def new_string(I, st, xt):
    n = len(xt.chars)
    if xt.rest:
        lv = D.fresh_vid(st, n, (1 << 40))
    else:
        lv = D.const_vid(n)
    sv = StrV(lv, ascii_=None if xt.rest else True)
    if not xt.rest and all(c[0] == 'c' for c in xt.chars):
        sv.lits = frozenset([''.join(c[1] for c in xt.chars)])
    if xt.chars and xt.chars[0][0] == 'c':
        sv.first = xt.chars[0][1]
    I.xtext[sv.ident] = xt
    return sv


def char_at(I, st, xt, i):
    """list of (state, Option<char> value) for the i-th char"""
    if i < len(xt.chars):
        c = xt.chars[i]
        if c[0] == 'c':
            return [(st, some(const_int(ord(c[1]), 'char')))]
        s2 = st.clone()
        return [(s2, some(I.top(s2, {'k': 'char'}, 'digit', lo=48, hi=57)))]
    if not xt.rest:
        return [(st, none())]
    if i == len(xt.chars):
        # the first character of the rest: anything but an ASCII digit (and the extra characters excluded for this field)
        excl = sorted(set(range(48, 58)) | {ord(c) for c in (xt.rest if isinstance(xt.rest, str) else '')})
        outs = [(st.clone(), none())]
        lo = 0
        for e in excl + [0x110000]:
            if lo <= e - 1:
                s2 = st.clone()
                outs.append((s2, some(I.top(s2, {'k': 'char'}, 'rest0', lo=lo, hi=e - 1))))
            lo = e + 1
        return outs
    s1, s2 = st.clone(), st.clone()
    return [(s1, none()), (s2, some(I.top(s2, {'k': 'char'}, 'restN')))]


def take(I, st, xt, n):
    """split after n chars: (taken XText, remaining XText) or None when n reaches into the unknown rest"""
    if n > len(xt.chars):
        return None
    return XText(xt.chars[:n], xt.nums, False), XText(xt.chars[n:], xt.nums, xt.rest)


def parse_int(I, st, xt, tn):
    """value of the exact text xt as an integer of type tn: ('ok', value) | ('err',) | ('unknown',)"""
    cs = xt.chars
    if not cs:
        return ('err',)
    sign = 1
    if cs[0] == ('c', '-') and tn.startswith('i'):
        sign = -1
        cs = cs[1:]
    elif cs[0] == ('c', '+'):
        cs = cs[1:]
    if not cs:
        return ('err',)
    if all(c[0] == 'c' for c in cs):
        t = ''.join(c[1] for c in cs)
        if t.isdigit() and t.isascii():
            v = sign * int(t)
            lo, hi = range_of_name(tn)
            return ('ok', const_int(v, tn)) if lo <= v <= hi else ('err',)
        return ('err',)
    if any(c[0] == 'c' and not c[1].isdigit() for c in cs):
        return ('err',)
    pids = [c[1] for c in cs if c[0] == 'd']
    if all(c[0] == 'd' for c in cs) and len(set(pids)) == 1:
        pid = pids[0]
        vid, nd = xt.nums[pid]
        if len(cs) == nd and [c[2] for c in cs] == list(range(nd)):
            if sign == 1:
                return ('ok', ('i', vid, tn))
            lo, hi = D.get_iv(st, vid)
            nv = D.term_vid(st, ('Neg', vid), -hi, -lo, D.aff_scale(D.aff_of(vid), -1))
            return ('ok', ('i', nv, tn))
    return ('unknown',)


def install(I):
    I.xtext = {}
    m_sw = I.models.get('core::str::<impl str>::starts_with')
    m_nth = I.models.get('std::iter::Iterator::nth')
    m_next = I.find_model("<std::str::Chars<'a> as std::iter::Iterator>::next")

    def starts_with(I_, st, args, dty, site):
        sv = strv_of(I_, st, args[0])
        xt = I_.xtext.get(sv.ident) if sv is not None else None
        pat = pattern_of(I_, st, args[1]) if xt is not None else None
        if xt is not None and pat is not None and pat[0] in ('char', 'str') and site['callee'].endswith('starts_with'):
            text = pat[1]
            decided = True
            for i, ch in enumerate(text):
                if i < len(xt.chars):
                    c = xt.chars[i]
                    if c[0] == 'c':
                        if c[1] != ch:
                            return [(st, const_int(0, 'bool'))]
                    elif not ch.isdigit():
                        return [(st, const_int(0, 'bool'))]
                    else:
                        decided = False     # a digit against a digit of unknown value
                else:
                    if not xt.rest:
                        return [(st, const_int(0, 'bool'))]
                    if i == len(xt.chars) and ch.isdigit():
                        return [(st, const_int(0, 'bool'))]
                    decided = False
            if decided:
                return [(st, const_int(1, 'bool'))]
            return [(st.clone(), const_int(1, 'bool')), (st.clone(), const_int(0, 'bool'))]
        return m_sw(I_, st, args, dty, site)

    def nth(I_, st, args, dty, site):
        ref, n = args[0], args[1]
        if ref[0] == 'r' and _intarg(n):
            it = I_.read_resolved(st, ('L',) + ref[1])
            if it is not None and it[0] == 'it' and it[1] == 'chars' and it[3] == 0:
                xt = I_.xtext.get(it[2].ident)
                lo, hi = D.get_iv(st, n[1])
                if xt is not None and lo == hi:
                    I_.write_resolved(st, ('L',) + ref[1], ('it', 'chars', it[2], None))
                    return char_at(I_, st, xt, int(lo))
        return m_nth(I_, st, args, dty, site)

    def nxt(I_, st, args, dty, site):
        ref = args[0]
        if ref[0] == 'r':
            it = I_.read_resolved(st, ('L',) + ref[1])
            if it is not None and it[0] == 'it' and it[1] == 'chars' and it[3] == 0:
                xt = I_.xtext.get(it[2].ident)
                if xt is not None:
                    I_.write_resolved(st, ('L',) + ref[1], ('it', 'chars', it[2], None))
                    return char_at(I_, st, xt, 0)
        return m_next(I_, st, args, dty, site)
    I.models['core::str::<impl str>::starts_with'] = starts_with
    I.models['std::iter::Iterator::nth'] = nth
    I.models["<std::str::Chars<'a> as std::iter::Iterator>::next"] = nxt

    def fmt_err(I_, st, dty):
        return err(I_.top(st, dty['args'][1], 'invalid format'))

    def split(I_, st, args):
        n, sref = args[0], args[1]
        sv = strv_of(I_, st, sref)
        xt = I_.xtext.get(sv.ident) if sv is not None else None
        if xt is None or not _intarg(n):
            return None
        lo, hi = D.get_iv(st, n[1])
        if lo != hi:
            return None
        r = take(I_, st, xt, int(lo))
        return (xt, r)

    def set_string(I_, st, sref, xt):
        tgt = deref(I_, st, sref)
        if tgt is None or tgt[0] != 'obj':
            return False
        st.objs[tgt[1]] = ('String', new_string(I_, st, xt))
        return True

    def remove_part(I_, st, args, dty, site):
        r = split(I_, st, args)
        if r is None:
            return None
        xt, tk = r
        if tk is None:
            if not xt.rest:
                return [(st, fmt_err(I_, st, dty))]
            return None
        s1 = st.clone()
        if not set_string(I_, s1, args[1], tk[1]):
            return None
        return [(s1, ok(('t', ())))]

    def pick_part(I_, st, args, dty, site):
        r = split(I_, st, args)
        if r is None:
            return None
        xt, tk = r
        if tk is None:
            if not xt.rest:
                return [(st, fmt_err(I_, st, dty))]
            return None
        taken, remaining = tk
        T = dty['args'][0]
        tn = tyname(T)
        s1 = st.clone()
        if tn:
            pr = parse_int(I_, s1, taken, tn)
            if pr[0] == 'err':
                return [(s1, fmt_err(I_, s1, dty))]
            if pr[0] == 'unknown':
                v = I_.top(s1, T, 'partial number')
                I_.note('C12: a number is cut or joined by the parser')
            else:
                v = pr[1]
        elif T.get('k') == 'adt' and T.get('path') == STRING:
            v = new_string_obj(I_, s1, new_string(I_, s1, taken))
        else:
            return None
        if not set_string(I_, s1, args[1], remaining):
            return None
        return [(s1, ok(v))]
    I.contracts[PICK] = pick_part
    I.contracts[REMOVE] = remove_part
