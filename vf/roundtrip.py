"""Exact symbolic text for the parser side (C12): a String whose content is known character class by character class --
literal characters, the digits of a number whose value and digit count are known on this path, and an arbitrary rest
that does not start with an ASCII digit (the property's side condition for delimiter-terminated numbers).

Hooks (active only for strings registered in I.xtext):
  str::starts_with, chars().nth(i) / chars().next(), util::parse::pick_part / remove_part (summaries of the two helpers:
  "take the first n characters [and parse them]" -- their bodies are analysed for every input by C14)."""
from . import domain as D
from .absint import StrV
from .models import (strv_of, some, none, ok, err, const_int, pattern_of, new_string_obj, deref, _intarg, tyname,
                     range_of_name)

PICK = 'util::parse::pick_part'
REMOVE = 'util::parse::remove_part'
STRING = 'std::string::String'


class XText:
    __slots__ = ('chars', 'nums', 'rest')

    def __init__(self, chars, nums, rest):
        self.chars = chars      # [('c', ch) | ('d', pid, index)]
        self.nums = nums        # pid -> (vid, ndigits, tyname)
        self.rest = rest        # True: arbitrary text whose first char is not an ASCII digit (or nothing) follows

    def __repr__(self):
        return ''.join(c[1] if c[0] == 'c' else '9' for c in self.chars) + ('...' if self.rest else '')


def build(I, st, pieces, rest=True):
    """XText + StrV for a formatted text described by segment pieces (textsem.pieces_of) whose numbers have an exact digit
    count in st; returns None when a piece is not exact"""
    chars = []
    nums = {}
    for i, p in enumerate(pieces):
        if p[0] == 'lit':
            chars.extend(('c', ch) for ch in p[1])
        elif p[0] in ('zp', 'num'):
            lo, hi = D.get_iv(st, p[1])
            w = p[2] if isinstance(p[2], int) else 1
            dl, dh = max(w, len(str(int(lo)))), max(w, len(str(int(hi))))
            if lo < 0 or dl != dh:
                return None
            if lo == hi:
                chars.extend(('c', ch) for ch in str(int(lo)).zfill(w))     # a constant on this path: literal digits
                continue
            nums[i] = (p[1], dl)
            chars.extend(('d', i, k) for k in range(dl))
        else:
            return None
    return XText(chars, nums, rest)


def digit_splits(st, pieces):
    """sub-states of st in which every number of `pieces` has one digit count"""
    outs = [st]
    for p in pieces:
        if p[0] not in ('zp', 'num'):
            continue
        w = p[2] if isinstance(p[2], int) else 1
        nxt = []
        for s in outs:
            lo, hi = D.get_iv(s, p[1])
            if lo < 0:
                return []
            dl, dh = max(w, len(str(int(lo)))), max(w, len(str(int(hi))))
            for d in range(dl, dh + 1):
                a = 0 if d == w else 10 ** (d - 1)
                b = 10 ** d - 1
                s2 = s.clone()
                if D.set_iv(s2, p[1], max(lo, a), min(hi, b)):
                    nxt.append(s2)
        outs = nxt
    return outs


def new_string(I, st, xt):
    n = len(xt.chars)
    if xt.rest:
        lv = D.fresh_vid(st, n, (1 << 40))
    else:
        lv = D.const_vid(n)
    sv = StrV(lv, ascii_=None if xt.rest else True)
    if not xt.rest and all(c[0] == 'c' for c in xt.chars):
        sv.lits = frozenset([''.join(c[1] for c in xt.chars)])
    if xt.chars and xt.chars[0][0] == 'c':
        sv.first = xt.chars[0][1]
    I.xtext[sv.ident] = xt
    return sv


def char_at(I, st, xt, i):
    """list of (state, Option<char> value) for the i-th char"""
    if i < len(xt.chars):
        c = xt.chars[i]
        if c[0] == 'c':
            return [(st, some(const_int(ord(c[1]), 'char')))]
        s2 = st.clone()
        return [(s2, some(I.top(s2, {'k': 'char'}, 'digit', lo=48, hi=57)))]
    if not xt.rest:
        return [(st, none())]
    if i == len(xt.chars):
        # the first character of the rest: anything but an ASCII digit (and the extra characters excluded for this field)
        excl = sorted(set(range(48, 58)) | {ord(c) for c in (xt.rest if isinstance(xt.rest, str) else '')})
        outs = [(st.clone(), none())]
        lo = 0
        for e in excl + [0x110000]:
            if lo <= e - 1:
                s2 = st.clone()
                outs.append((s2, some(I.top(s2, {'k': 'char'}, 'rest0', lo=lo, hi=e - 1))))
            lo = e + 1
        return outs
    s1, s2 = st.clone(), st.clone()
    return [(s1, none()), (s2, some(I.top(s2, {'k': 'char'}, 'restN')))]


def take(I, st, xt, n):
    """split after n chars: (taken XText, remaining XText) or None when n reaches into the unknown rest"""
    if n > len(xt.chars):
        return None
    return XText(xt.chars[:n], xt.nums, False), XText(xt.chars[n:], xt.nums, xt.rest)


def parse_int(I, st, xt, tn):
    """value of the exact text xt as an integer of type tn: ('ok', value) | ('err',) | ('unknown',)"""
    cs = xt.chars
    if not cs:
        return ('err',)
    sign = 1
    if cs[0] == ('c', '-') and tn.startswith('i'):
        sign = -1
        cs = cs[1:]
    elif cs[0] == ('c', '+'):
        cs = cs[1:]
    if not cs:
        return ('err',)
    if all(c[0] == 'c' for c in cs):
        t = ''.join(c[1] for c in cs)
        if t.isdigit() and t.isascii():
            v = sign * int(t)
            lo, hi = range_of_name(tn)
            return ('ok', const_int(v, tn)) if lo <= v <= hi else ('err',)
        return ('err',)
    if any(c[0] == 'c' and not c[1].isdigit() for c in cs):
        return ('err',)
    pids = [c[1] for c in cs if c[0] == 'd']
    if all(c[0] == 'd' for c in cs) and len(set(pids)) == 1:
        pid = pids[0]
        vid, nd = xt.nums[pid]
        if len(cs) == nd and [c[2] for c in cs] == list(range(nd)):
            if sign == 1:
                return ('ok', ('i', vid, tn))
            lo, hi = D.get_iv(st, vid)
            nv = D.term_vid(st, ('Neg', vid), -hi, -lo, D.aff_scale(D.aff_of(vid), -1))
            return ('ok', ('i', nv, tn))
    return ('unknown',)


def install(I):
    I.xtext = {}
    m_sw = I.models.get('core::str::<impl str>::starts_with')
    m_nth = I.models.get('std::iter::Iterator::nth')
    m_next = I.find_model("<std::str::Chars<'a> as std::iter::Iterator>::next")

    def starts_with(I_, st, args, dty, site):
        sv = strv_of(I_, st, args[0])
        xt = I_.xtext.get(sv.ident) if sv is not None else None
        pat = pattern_of(I_, st, args[1]) if xt is not None else None
        if xt is not None and pat is not None and pat[0] in ('char', 'str') and site['callee'].endswith('starts_with'):
            text = pat[1]
            decided = True
            for i, ch in enumerate(text):
                if i < len(xt.chars):
                    c = xt.chars[i]
                    if c[0] == 'c':
                        if c[1] != ch:
                            return [(st, const_int(0, 'bool'))]
                    elif not ch.isdigit():
                        return [(st, const_int(0, 'bool'))]
                    else:
                        decided = False     # a digit against a digit of unknown value
                else:
                    if not xt.rest:
                        return [(st, const_int(0, 'bool'))]
                    if i == len(xt.chars) and ch.isdigit():
                        return [(st, const_int(0, 'bool'))]
                    decided = False
            if decided:
                return [(st, const_int(1, 'bool'))]
            return [(st.clone(), const_int(1, 'bool')), (st.clone(), const_int(0, 'bool'))]
        return m_sw(I_, st, args, dty, site)

    def nth(I_, st, args, dty, site):
        ref, n = args[0], args[1]
        if ref[0] == 'r' and _intarg(n):
            it = I_.read_resolved(st, ('L',) + ref[1])
            if it is not None and it[0] == 'it' and it[1] == 'chars' and it[3] == 0:
                xt = I_.xtext.get(it[2].ident)
                lo, hi = D.get_iv(st, n[1])
                if xt is not None and lo == hi:
                    I_.write_resolved(st, ('L',) + ref[1], ('it', 'chars', it[2], None))
                    return char_at(I_, st, xt, int(lo))
        return m_nth(I_, st, args, dty, site)

    def nxt(I_, st, args, dty, site):
        ref = args[0]
        if ref[0] == 'r':
            it = I_.read_resolved(st, ('L',) + ref[1])
            if it is not None and it[0] == 'it' and it[1] == 'chars' and it[3] == 0:
                xt = I_.xtext.get(it[2].ident)
                if xt is not None:
                    I_.write_resolved(st, ('L',) + ref[1], ('it', 'chars', it[2], None))
                    return char_at(I_, st, xt, 0)
        return m_next(I_, st, args, dty, site)
    # ---- chars().skip(a).take(b).take_while(p).count() / .nth(k) over an exact text: a window (start, limit) on the text
    m_skiptake = I.find_model('std::iter::Iterator::skip')
    m_takewhile = I.find_model('std::iter::Iterator::take_while')
    m_count = I.find_model('std::iter::Iterator::count')

    def window_of(I_, st, it):
        if it is None or it[0] != 'it':
            return None
        if it[1] == 'chars' and it[3] == 0 and I_.xtext.get(it[2].ident) is not None:
            return (it[2], 0, None)
        if it[1] == 'xwin':
            return (it[2], it[3], it[4])
        return None

    def skiptake(I_, st, args, dty, site):
        from .models import as_iter
        w = window_of(I_, st, as_iter(I_, st, args[0]))
        which = site['callee'].rsplit('::', 1)[1]
        n = args[1] if len(args) > 1 else None
        if w is not None and which in ('skip', 'take') and _intarg(n):
            lo, hi = D.get_iv(st, n[1])
            if lo == hi:
                sv, start, limit = w
                k = int(lo)
                if which == 'skip':
                    return [(st, ('it', 'xwin', sv, start + k, None if limit is None else max(limit - k, 0)))]
                return [(st, ('it', 'xwin', sv, start, k if limit is None else min(limit, k)))]
        return m_skiptake(I_, st, args, dty, site)

    def takewhile(I_, st, args, dty, site):
        from .models import as_iter
        w = window_of(I_, st, as_iter(I_, st, args[0]))
        if w is not None and site['callee'].endswith('take_while'):
            return [(st, ('it', 'xtw', w, args[1]))]
        return m_takewhile(I_, st, args, dty, site)

    def count(I_, st, args, dty, site):
        it = args[0]
        if it is not None and it[0] == 'it' and it[1] == 'xtw':
            (sv, start, limit), clo = it[2], it[3]
            xt = I_.xtext.get(sv.ident)
            outs, work, exact = [], [(st.clone(), 0)], True
            while work and exact:
                s, i = work.pop()
                if (limit is not None and i >= limit) or i > 40:
                    if i > 40:
                        exact = False
                        break
                    outs.append((s, const_int(i, 'usize')))
                    continue
                if start + i > len(xt.chars):
                    exact = False          # beyond the first character of the unknown rest
                    break
                for s2, oc in char_at(I_, s, xt, start + i):
                    if oc[0] == 'e' and 0 in oc[2] and 1 not in oc[2]:
                        outs.append((s2, const_int(i, 'usize')))
                        continue
                    ch = oc[2][1][0]
                    for s3, b in I_.call_closure(s2, clo, [('r', I_.alloc(s2, ch))], site) or []:
                        if b[0] != 'i':
                            exact = False
                            break
                        blo, bhi = D.get_iv(s3, b[1])
                        for val in (0, 1):
                            if blo <= val <= bhi:
                                s4 = s3.clone()
                                if not D.set_iv(s4, b[1], val, val):
                                    continue
                                if val:
                                    work.append((s4, i + 1))
                                else:
                                    outs.append((s4, const_int(i, 'usize')))
            if exact and outs:
                return outs
            s2 = st.clone()
            return [(s2, I_.top(s2, {'k': 'int', 's': False, 'bits': 64, 'name': 'usize'}, 'count', lo=0, hi=D.get_iv(s2, sv.len)[1]))]
        return m_count(I_, st, args, dty, site)

    def nth_win(I_, st, args, dty, site):
        ref, n = args[0], args[1]
        if ref[0] == 'r' and _intarg(n):
            it = I_.read_resolved(st, ('L',) + ref[1])
            if it is not None and it[0] == 'it' and it[1] == 'xwin':
                xt = I_.xtext.get(it[2].ident)
                lo, hi = D.get_iv(st, n[1])
                if xt is not None and lo == hi and (it[4] is None or int(lo) < it[4]):
                    I_.write_resolved(st, ('L',) + ref[1], ('it', 'unk', {'k': 'char'}, None))
                    return char_at(I_, st, xt, it[3] + int(lo))
        return nth(I_, st, args, dty, site)
    for n_ in ('std::iter::Iterator::skip', 'std::iter::Iterator::take'):
        I.models[n_] = skiptake
    I.models['std::iter::Iterator::take_while'] = takewhile
    I.models['std::iter::Iterator::count'] = count
    I.models["<std::str::Chars<'a> as std::iter::Iterator>::count"] = count
    I.models['core::str::<impl str>::starts_with'] = starts_with
    I.models['std::iter::Iterator::nth'] = nth_win
    I.models["<std::str::Chars<'a> as std::iter::Iterator>::next"] = nxt

    def fmt_err(I_, st, dty):
        return err(I_.top(st, dty['args'][1], 'invalid format'))

    def split(I_, st, args):
        n, sref = args[0], args[1]
        sv = strv_of(I_, st, sref)
        xt = I_.xtext.get(sv.ident) if sv is not None else None
        if xt is None or not _intarg(n):
            return None
        lo, hi = D.get_iv(st, n[1])
        if lo != hi:
            return None
        r = take(I_, st, xt, int(lo))
        return (xt, r)

    def set_string(I_, st, sref, xt):
        tgt = deref(I_, st, sref)
        if tgt is None or tgt[0] != 'obj':
            return False
        st.objs[tgt[1]] = ('String', new_string(I_, st, xt))
        return True

    def remove_part(I_, st, args, dty, site):
        r = split(I_, st, args)
        if r is None:
            return None
        xt, tk = r
        if tk is None:
            if not xt.rest:
                return [(st, fmt_err(I_, st, dty))]
            return None
        s1 = st.clone()
        if not set_string(I_, s1, args[1], tk[1]):
            return None
        return [(s1, ok(('t', ())))]

    def pick_part(I_, st, args, dty, site):
        r = split(I_, st, args)
        if r is None:
            return None
        xt, tk = r
        if tk is None:
            if not xt.rest:
                return [(st, fmt_err(I_, st, dty))]
            return None
        taken, remaining = tk
        T = dty['args'][0]
        tn = tyname(T)
        s1 = st.clone()
        if tn:
            pr = parse_int(I_, s1, taken, tn)
            if pr[0] == 'err':
                return [(s1, fmt_err(I_, s1, dty))]
            if pr[0] == 'unknown':
                v = I_.top(s1, T, 'partial number')
                I_.note('C12: a number is cut or joined by the parser')
            else:
                v = pr[1]
        elif T.get('k') == 'adt' and T.get('path') == STRING:
            v = new_string_obj(I_, s1, new_string(I_, s1, taken))
        else:
            return None
        if not set_string(I_, s1, args[1], remaining):
            return None
        return [(s1, ok(v))]
    I.contracts[PICK] = pick_part
    I.contracts[REMOVE] = remove_part


# ----------------------------------------------------------------------------------------------------------------
# exact versions of further str operations (used by C16): active for strings registered in I.xtext without a rest
def _text_of(xt):
    return ''.join(c[1] for c in xt.chars) if all(c[0] == 'c' for c in xt.chars) else None


def install_exact_strings(I):
    from .models import str_eq
    m_split = I.models.get('core::str::<impl str>::split')
    m_eq = I.models.get('core::str::traits::<impl std::cmp::PartialEq for str>::eq')
    m_strip = I.models.get('core::str::<impl str>::strip_prefix')
    m_contains = I.models.get('core::str::<impl str>::contains')
    m_chars = I.models.get('core::str::<impl str>::chars')
    m_lower = I.find_model('std::str::<impl str>::to_lowercase')
    m_empty = I.find_model('core::str::<impl str>::is_empty')

    def xt_of(I_, st, v):
        sv = strv_of(I_, st, v)
        xt = I_.xtext.get(sv.ident) if sv is not None else None
        if xt is None and sv is not None and sv.lits is not None and len(sv.lits) == 1:
            t = next(iter(sv.lits))
            xt = XText([('c', ch) for ch in t], {}, False)
        return xt

    def split(I_, st, args, dty, site):
        xt = xt_of(I_, st, args[0])
        pat = pattern_of(I_, st, args[1]) if xt is not None and len(args) > 1 else None
        if xt is not None and not xt.rest and pat is not None and pat[0] == 'char' and not pat[1].isdigit() and site['callee'].endswith('::split'):
            parts = [[]]
            for c in xt.chars:
                if c == ('c', pat[1]):
                    parts.append([])
                else:
                    parts[-1].append(c)
            vals = tuple(('str', new_string(I_, st, XText(p, xt.nums, False))) for p in parts)
            return [(st, ('it', 'seq', vals, 0, False))]
        return m_split(I_, st, args, dty, site)

    m_split_once = I.find_model('core::str::<impl str>::split_once')

    def split_once(I_, st, args, dty, site):
        xt = xt_of(I_, st, args[0])
        pat = pattern_of(I_, st, args[1]) if xt is not None and len(args) > 1 else None
        if xt is not None and not xt.rest and pat is not None and pat[0] == 'char' and not pat[1].isdigit():
            idxs = [i for i, c in enumerate(xt.chars) if c == ('c', pat[1])]
            if not idxs:
                return [(st, none())]
            k = idxs[-1] if site['callee'].endswith('rsplit_once') else idxs[0]
            a = ('str', new_string(I_, st, XText(xt.chars[:k], xt.nums, False)))
            b = ('str', new_string(I_, st, XText(xt.chars[k + 1:], xt.nums, False)))
            return [(st, some(('t', (a, b))))]
        return m_split_once(I_, st, args, dty, site)
    for n_ in ('core::str::<impl str>::split_once', 'core::str::<impl str>::rsplit_once'):
        I.models[n_] = split_once

    from . import models as M
    base_str_eq = M.str_eq

    def xt_sv(sv):
        xt = I.xtext.get(sv.ident)
        if xt is None and sv.lits is not None and len(sv.lits) == 1:
            xt = XText([('c', ch) for ch in next(iter(sv.lits))], {}, False)
        return xt

    def exact_str_eq(I_, st, x, y, ne=False):
        if I_ is I:
            a, b = xt_sv(x), xt_sv(y)
            r = eq_xt(st, a, b, ne)
            if r is not None:
                return r
        return base_str_eq(I_, st, x, y, ne)
    M.str_eq = exact_str_eq

    def eq_xt(st, a, b, ne):
        if a is not None and b is not None and not a.rest and not b.rest:
            if len(a.chars) != len(b.chars):
                return [(st, const_int(1 if ne else 0, 'bool'))]
            undecided = False
            for x, y in zip(a.chars, b.chars):
                if x[0] == 'c' and y[0] == 'c':
                    if x[1] != y[1]:
                        return [(st, const_int(1 if ne else 0, 'bool'))]
                elif (x[0] == 'c' and not x[1].isdigit()) or (y[0] == 'c' and not y[1].isdigit()):
                    return [(st, const_int(1 if ne else 0, 'bool'))]
                else:
                    undecided = True
            if not undecided:
                return [(st, const_int(0 if ne else 1, 'bool'))]
            # digits of a symbolic number against literal digits: equal exactly when the number is that value
            vals = {}
            for (x, y) in list(zip(a.chars, b.chars)) + list(zip(b.chars, a.chars)):
                if x[0] == 'd' and y[0] == 'c':
                    vals.setdefault((id(a.nums if x in a.chars else b.nums), x[1]), {})[x[2]] = y[1]
            s_eq, s_ne = st.clone(), st.clone()
            feasible = True
            single = None
            for src in (a, b):
                for pid, (vid, nd) in src.nums.items():
                    ds = vals.get((id(src.nums), pid))
                    if ds is not None and len(ds) == nd:
                        n = int(''.join(ds[k] for k in range(nd)))
                        if not D.refine_cmp(s_eq, 'Eq', vid, D.const_vid(n)) or not D.set_iv(s_eq, vid, n, n):
                            feasible = False
                        single = (vid, n) if single is None else False
            outs = []
            if feasible:
                outs.append((s_eq, const_int(0 if ne else 1, 'bool')))
            if single:
                if D.refine_cmp(s_ne, 'Ne', single[0], D.const_vid(single[1])):
                    outs.append((s_ne, const_int(1 if ne else 0, 'bool')))
            else:
                outs.append((s_ne, const_int(1 if ne else 0, 'bool')))
            return outs
        return None

    def eq(I_, st, args, dty, site):
        a, b = xt_of(I_, st, args[0]), xt_of(I_, st, args[1])
        if a is not None and b is not None and not a.rest and not b.rest:
            ne = site['callee'].endswith('::ne')
            if len(a.chars) != len(b.chars):
                return [(st, const_int(1 if ne else 0, 'bool'))]
            undecided = False
            for x, y in zip(a.chars, b.chars):
                if x[0] == 'c' and y[0] == 'c':
                    if x[1] != y[1]:
                        return [(st, const_int(1 if ne else 0, 'bool'))]
                elif (x[0] == 'c' and not x[1].isdigit()) or (y[0] == 'c' and not y[1].isdigit()):
                    return [(st, const_int(1 if ne else 0, 'bool'))]
                else:
                    undecided = True
            if not undecided:
                return [(st, const_int(0 if ne else 1, 'bool'))]
            return [(st.clone(), const_int(1, 'bool')), (st.clone(), const_int(0, 'bool'))]
        return m_eq(I_, st, args, dty, site)

    def strip_prefix(I_, st, args, dty, site):
        xt = xt_of(I_, st, args[0])
        pat = pattern_of(I_, st, args[1]) if xt is not None else None
        if xt is not None and not xt.rest and pat is not None and pat[0] in ('char', 'str') and site['callee'].endswith('strip_prefix'):
            t = pat[1]
            if len(t) <= len(xt.chars) and all(c == ('c', ch) for c, ch in zip(xt.chars, t)):
                return [(st, some(('str', new_string(I_, st, XText(xt.chars[len(t):], xt.nums, False)))))]
            if any(c[0] == 'c' and c[1] != ch or c[0] == 'd' and not ch.isdigit() for c, ch in zip(xt.chars, t)) or len(t) > len(xt.chars):
                return [(st, none())]
        return m_strip(I_, st, args, dty, site)

    def contains(I_, st, args, dty, site):
        xt = xt_of(I_, st, args[0])
        pat = pattern_of(I_, st, args[1]) if xt is not None else None
        if xt is not None and not xt.rest and pat is not None and pat[0] == 'char' and not pat[1].isdigit() and site['callee'].endswith('contains'):
            return [(st, const_int(1 if ('c', pat[1]) in xt.chars else 0, 'bool'))]
        return m_contains(I_, st, args, dty, site)

    def chars(I_, st, args, dty, site):
        xt = xt_of(I_, st, args[0])
        if xt is not None and not xt.rest and strv_of(I_, st, args[0]).ident in I_.xtext:
            vals = []
            for c in xt.chars:
                vals.append(const_int(ord(c[1]), 'char') if c[0] == 'c' else I_.top(st, {'k': 'char'}, 'digit', lo=48, hi=57))
            return [(st, ('it', 'seq', tuple(vals), 0, False))]
        return m_chars(I_, st, args, dty, site)

    def lower(I_, st, args, dty, site):
        xt = xt_of(I_, st, args[0])
        if xt is not None and not xt.rest:
            low = XText([('c', c[1].lower()) if c[0] == 'c' else c for c in xt.chars], xt.nums, False)
            return [(st, new_string_obj(I_, st, new_string(I_, st, low)))]
        return m_lower(I_, st, args, dty, site) if m_lower else None

    def is_empty(I_, st, args, dty, site):
        xt = xt_of(I_, st, args[0])
        if xt is not None and not xt.rest:
            return [(st, const_int(0 if xt.chars else 1, 'bool'))]
        return m_empty(I_, st, args, dty, site) if m_empty else None

    def parse(I_, st, args, dty, site):
        xt = xt_of(I_, st, args[0])
        T = dty['args'][0] if dty and dty.get('args') else None
        tn = tyname(T) if T else None
        if xt is not None and not xt.rest and tn:
            pr = parse_int(I_, st, xt, tn)
            if pr[0] == 'err':
                return [(st, err(I_.top(st, dty['args'][1], 'parse error')))]
            if pr[0] == 'ok':
                v = pr[1]
                lo, hi = D.get_iv(st, v[1])
                tlo, thi = range_of_name(tn)
                outs = []
                s1 = st.clone()
                if D.set_iv(s1, v[1], max(lo, tlo), min(hi, thi)):
                    outs.append((s1, ok(v)))
                if lo < tlo or hi > thi:
                    s2 = st.clone()
                    if hi > thi and D.set_iv(s2, v[1], max(lo, thi + 1), hi):
                        outs.append((s2, err(I_.top(s2, dty['args'][1], 'parse error'))))
                return outs
        return m_parse(I_, st, args, dty, site)
    m_parse = I.models.get('core::str::<impl str>::parse')
    m_search = I.models.get('std::iter::Iterator::all')

    def search(I_, st, args, dty, site):
        """all / any / find over a known short sequence: the closure is evaluated element by element"""
        it = deref(I_, st, args[0])
        which = site['callee'].rsplit('::', 1)[1]
        if it is not None and it[0] == 'it' and it[1] == 'seq' and len(it[2]) - it[3] <= 12 and which in ('all', 'any', 'find'):
            elems = it[2][it[3]:]
            outs = []
            work = [(st.clone(), 0)]
            while work:
                s, i = work.pop()
                if i == len(elems):
                    outs.append((s, const_int(1 if which == 'all' else 0, 'bool') if which != 'find' else none()))
                    continue
                e = elems[i]
                arg = ('r', I_.alloc(s, e)) if which == 'find' else e
                rs = I_.call_closure(s, args[1], [arg], site) or []
                for s2, b in rs:
                    if b[0] != 'i':
                        return m_search(I_, st, args, dty, site)
                    lo, hi = D.get_iv(s2, b[1])
                    for val in (0, 1):
                        if lo <= val <= hi:
                            s3 = s2.clone()
                            D.set_iv(s3, b[1], val, val)
                            stop = (which == 'all' and val == 0) or (which in ('any', 'find') and val == 1)
                            if stop:
                                outs.append((s3, const_int(0 if which == 'all' else 1, 'bool') if which != 'find' else some(e)))
                            else:
                                work.append((s3, i + 1))
            return outs
        return m_search(I_, st, args, dty, site)
    for n in ('std::iter::Iterator::all', 'std::iter::Iterator::any', 'std::iter::Iterator::find'):
        I.models[n] = search
    m_filter = I.models.get('std::iter::Iterator::filter')

    def filt(I_, st, args, dty, site):
        """filter over a known short sequence: the predicate is evaluated per element (one state per outcome vector)"""
        from .models import as_iter
        it = as_iter(I_, st, args[0])
        if it is not None and it[0] == 'it' and it[1] == 'seq' and len(it[2]) - it[3] <= 8:
            elems = it[2][it[3]:]
            work = [(st.clone(), 0, ())]
            outs = []
            while work:
                s, i, kept = work.pop()
                if i == len(elems):
                    outs.append((s, ('it', 'seq', kept, 0, it[4])))
                    continue
                e = elems[i]
                rs = I_.call_closure(s, args[1], [('r', I_.alloc(s, e))], site) or []
                for s2, b in rs:
                    if b[0] != 'i':
                        return m_filter(I_, st, args, dty, site)
                    lo, hi = D.get_iv(s2, b[1])
                    for val in (0, 1):
                        if lo <= val <= hi:
                            s3 = s2.clone()
                            D.set_iv(s3, b[1], val, val)
                            work.append((s3, i + 1, kept + ((e,) if val else ())))
            return outs
        return m_filter(I_, st, args, dty, site)
    I.models['std::iter::Iterator::filter'] = filt

    # exact whitespace splitting and collecting into an exact array (stands for the Vec)
    m_sw = I.models.get('core::str::<impl str>::split_whitespace')
    m_collect = I.models.get('std::iter::Iterator::collect')
    m_vlen = I.models.get('std::vec::Vec::<T, A>::len')
    m_vindex = I.models.get('<std::vec::Vec<T, A> as std::ops::Index<I>>::index')

    def split_ws(I_, st, args, dty, site):
        xt = xt_of(I_, st, args[0])
        if xt is not None and not xt.rest and site['callee'].endswith('split_whitespace'):
            parts = [[]]
            for c in xt.chars:
                if c[0] == 'c' and c[1].isspace():
                    parts.append([])
                else:
                    parts[-1].append(c)
            vals = tuple(('str', new_string(I_, st, XText(p_, xt.nums, False))) for p_ in parts if p_)
            return [(st, ('it', 'seq', vals, 0, False))]
        return m_sw(I_, st, args, dty, site)

    def collect(I_, st, args, dty, site):
        it = args[0]
        if it[0] == 'it' and it[1] == 'seq' and dty is not None and dty.get('path') == 'std::vec::Vec':
            return [(st, ('a', tuple(it[2][it[3]:])))]
        return m_collect(I_, st, args, dty, site)

    def vlen(I_, st, args, dty, site):
        v = deref(I_, st, args[0])
        if v is not None and v[0] == 'a':
            return [(st, const_int(len(v[1]), 'usize'))]
        return m_vlen(I_, st, args, dty, site)

    def vindex(I_, st, args, dty, site):
        v = deref(I_, st, args[0])
        if v is not None and v[0] == 'a' and _intarg(args[1]):
            lo, hi = D.get_iv(st, args[1][1])
            if lo == hi and 0 <= lo < len(v[1]):
                return [(st, ('r', I_.alloc(st, v[1][int(lo)])))]
            if lo == hi:
                return []         # index out of bounds: the path panics (recorded by the ordinary model in other analyses)
        return m_vindex(I_, st, args, dty, site)
    I.models['core::str::<impl str>::split_whitespace'] = split_ws
    I.models['std::iter::Iterator::collect'] = collect
    I.models['std::vec::Vec::<T, A>::len'] = vlen
    I.models['<std::vec::Vec<T, A> as std::ops::Index<I>>::index'] = vindex
    I.models['core::str::<impl str>::split'] = split
    I.models['core::str::traits::<impl std::cmp::PartialEq for str>::eq'] = eq
    for n in ('<std::string::String as std::cmp::PartialEq<str>>::eq', "<std::string::String as std::cmp::PartialEq<&'a str>>::eq",
              '<std::string::String as std::cmp::PartialEq>::eq', "<str as std::cmp::PartialEq<std::string::String>>::eq"):
        I.models[n] = eq
    I.models['core::str::<impl str>::strip_prefix'] = strip_prefix
    I.models['core::str::<impl str>::contains'] = contains
    I.models['core::str::<impl str>::chars'] = chars
    I.models['std::str::<impl str>::to_lowercase'] = lower
    I.models['core::str::<impl str>::is_empty'] = is_empty
    I.models['core::str::<impl str>::parse'] = parse
