"""Entry-point argument builders: abstract arguments covering *all* inputs, with the representation
invariants (DESIGN F2) assumed on incoming values of the crate's own types."""
from . import domain as D
from .absint import OPTION

NPD = 86_400 * 10**9
OFF_MAX = 86_399

TIME = 'time::Time'
DATETIME = 'datetime::DateTime'
DATE = 'date::Date'
OFFSET = 'offset::Offset'


def apply_invariants(I, st, v, depth=0):
    """refine a freshly built top value with the assumed invariants (assume-guarantee)"""
    if v is None or depth > 8:
        return
    k = v[0]
    if k == 'r':
        tgt = I.read_resolved(st, ('L',) + v[1])
        apply_invariants(I, st, tgt, depth + 1)
    elif k == 's':
        if v[1] == TIME:
            D.set_iv(st, v[2][0][1], 0, NPD - 1)
        elif v[1] == DATETIME:
            D.set_iv(st, v[2][1][1], 0, NPD - 1)
        for f in v[2]:
            apply_invariants(I, st, f, depth + 1)
    elif k == 'e':
        if v[1] == OFFSET and 0 in v[2]:
            D.set_iv(st, v[2][0][0][1], -OFF_MAX, OFF_MAX)
        for fs in v[2].values():
            for f in fs:
                apply_invariants(I, st, f, depth + 1)
    elif k in ('t', 'a'):
        for f in v[1]:
            apply_invariants(I, st, f, depth + 1)


def arg_names(body):
    names = {l: n for l, n in body.get('names', [])}
    return [names.get(i, f'arg{i}') for i in range(1, body['argc'] + 1)]


def default_args(fn, overrides=None):
    """builder for run_entry: every parameter is top of its type with invariants assumed.
    overrides: {param name: callable(I, st, ty) -> value}"""
    def build(I, st):
        body = I.bodies[fn]
        out = []
        for i, n in enumerate(arg_names(body)):
            ty = body['locals'][i + 1]
            if overrides and n in overrides:
                v = overrides[n](I, st, ty)
            else:
                v = I.top(st, ty, n)
                apply_invariants(I, st, v)
            out.append(v)
        return out
    return build


def install_offset_contract(I):
    """`Offset::resolve` for numeric analyses: Fixed(s) -> s exactly (what the body does); for `Local` the
    result is one symbol in [-86399, 86399] per analysed entry (assumption A-LOCAL in DESIGN section 2:
    the system zone's offset is below 24 h and does not change during one API call)."""
    state = {}

    def contract(I, st, args, dty, site):
        v = args[0]
        if v[0] == 'r':
            v = I.read_resolved(st, ('L',) + v[1])
        if v is None or v[0] != 'e':
            return None
        outs = []
        if 0 in v[2]:
            s1 = st.clone()
            outs.append((s1, v[2][0][0]))
        if 1 in v[2]:
            s2 = st.clone()
            key = I.cur_entry
            vid = state.get(key)
            if vid is None:
                vid = D.sym_vid(-OFF_MAX, OFF_MAX, 'local_utc_offset')
                state[key] = vid
            s2.iv[vid] = D.get_iv(s2, vid)
            outs.append((s2, ('i', vid, 'i32')))
        return outs
    I.contracts['offset::Offset::resolve'] = contract
