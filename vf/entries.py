"""Entry-point argument builders: abstract arguments covering *all* inputs, with the representation
invariants (DESIGN F2) assumed on incoming values of the crate's own types."""
from . import domain as D
from .absint import OPTION

NPD = 86_400 * 10**9
OFF_MAX = 86_399

TIME = 'time::Time'
DATETIME = 'datetime::DateTime'
DATE = 'date::Date'
OFFSET = 'offset::Offset'


# further representation invariants {struct path: {field index: (lo, hi)}}: checked at every construction site by
# Numeric._agg_hook and assumed for values that come from outside the analysed code
LOCAL_TIME_TYPE = 'local::timezone::LocalTimeType'
STRUCT_INV = {LOCAL_TIME_TYPE: {0: (-OFF_MAX, OFF_MAX)}}


def apply_invariants(I, st, v, depth=0):
    """refine a freshly built top value with the assumed invariants (assume-guarantee)"""
    if v is None or depth > 8:
        return
    k = v[0]
    if k == 'r':
        tgt = I.read_resolved(st, ('L',) + v[1])
        apply_invariants(I, st, tgt, depth + 1)
    elif k == 's':
        for idx, (lo, hi) in STRUCT_INV.get(v[1], {}).items():
            f = v[2][idx]
            if f[0] == 'i':
                l, h = D.get_iv(st, f[1])
                D.set_iv(st, f[1], max(l, lo), min(h, hi))
        if v[1] == TIME:
            D.set_iv(st, v[2][0][1], 0, NPD - 1)
        elif v[1] == DATETIME:
            D.set_iv(st, v[2][1][1], 0, NPD - 1)
        for f in v[2]:
            apply_invariants(I, st, f, depth + 1)
    elif k == 'e':
        if v[1] == OFFSET and 0 in v[2]:
            D.set_iv(st, v[2][0][0][1], -OFF_MAX, OFF_MAX)
        for fs in v[2].values():
            for f in fs:
                apply_invariants(I, st, f, depth + 1)
    elif k in ('t', 'a'):
        for f in v[1]:
            apply_invariants(I, st, f, depth + 1)


def arg_names(body):
    names = {l: n for l, n in body.get('names', [])}
    return [names.get(i, f'arg{i}') for i in range(1, body['argc'] + 1)]


I32 = {'k': 'int', 's': True, 'bits': 32, 'name': 'i32'}
U64 = {'k': 'int', 's': False, 'bits': 64, 'name': 'u64'}
MIN_I = -(1 << 31) * NPD
MAX_I = ((1 << 31) - 1) * NPD + NPD - 1


def local_offset_vid(I, st):
    key = I.cur_entry
    tab = I.__dict__.setdefault('_local_off', {})
    vid = tab.get(key)
    if vid is None:
        vid = D.sym_vid(-OFF_MAX, OFF_MAX, 'local_utc_offset')
        tab[key] = vid
    st.iv[vid] = D.get_iv(st, vid)
    return vid


def mk_offset(I, st, variant, name):
    if variant == 'fixed':
        o = I.top(st, I32, name + '.offset.Fixed', lo=-OFF_MAX, hi=OFF_MAX)
        return ('e', OFFSET, {0: (o,)}), o[1]
    return ('e', OFFSET, {1: ()}), local_offset_vid(I, st)


def mk_time(I, st, variant, name):
    n = I.top(st, U64, name + '.nanoseconds', lo=0, hi=NPD - 1)
    off, _ = mk_offset(I, st, variant, name)
    return ('s', TIME, (n, off), None)


def mk_datetime(I, st, variant, name, local_in_range=True):
    d = I.top(st, I32, name + '.days')
    n = I.top(st, U64, name + '.nanoseconds', lo=0, hi=NPD - 1)
    off, ov = mk_offset(I, st, variant, name)
    if local_in_range:
        # invariant LOCAL-RANGE (established by set_offset's guard): the local instant is representable
        f = D.Aff({d[1]: NPD, n[1]: 1, ov: 10**9}, 0)
        st.lin = st.lin + ((f, MIN_I, MAX_I),)
    return ('s', DATETIME, (d, n, off), None)


def _special(ty):
    """('time'|'datetime'|'offset', by_ref) for the crate types whose offset variant is enumerated"""
    by_ref = False
    if ty['k'] == 'ref':
        ty = ty['to']
        by_ref = True
    if ty['k'] == 'adt' and ty['path'] in (TIME, DATETIME, OFFSET):
        return {TIME: 'time', DATETIME: 'datetime', OFFSET: 'offset'}[ty['path']], by_ref
    return None, by_ref


def default_args(fn, overrides=None, local_in_range=True, variants=('fixed', 'local')):
    """builder for run_entry: yields one (state, args) per choice of offset variant of every Time /
    DateTime / Offset parameter; every other parameter is top of its type.
    overrides: {param name: callable(I, st, ty) -> value}"""
    def build(I, st0):
        import itertools
        body = I.bodies[fn]
        names = arg_names(body)
        nonlocal overrides
        if overrides:
            # a key 'name@k' means: the parameter called `name`, or, when no parameter has that name (it was renamed), parameter number k
            ov = {}
            for key, f in overrides.items():
                if '@' in key:
                    nm, pos = key.rsplit('@', 1)
                    ov[nm if nm in names else (names[int(pos) - 1] if int(pos) <= len(names) else nm)] = f
                else:
                    ov[key] = f
            overrides = ov
        kinds = [_special(body['locals'][i + 1]) for i in range(len(names))]
        nsp = [i for i, (k, _) in enumerate(kinds) if k and not (overrides and names[i] in overrides)]
        outs = []
        for choice in itertools.product(variants, repeat=len(nsp)):
            st = st0.clone()
            ch = dict(zip(nsp, choice))
            args = []
            for i, n in enumerate(names):
                ty = body['locals'][i + 1]
                if overrides and n in overrides:
                    v = overrides[n](I, st, ty)
                elif i in ch:
                    kind, by_ref = kinds[i]
                    if kind == 'time':
                        v = mk_time(I, st, ch[i], n)
                    elif kind == 'datetime':
                        v = mk_datetime(I, st, ch[i], n, local_in_range)
                    else:
                        v, _ = mk_offset(I, st, ch[i], n)
                    if by_ref:
                        v = ('r', I.alloc(st, v))
                else:
                    v = I.top(st, ty, n)
                    apply_invariants(I, st, v)
                args.append(v)
            outs.append((st, args))
        return outs
    return build


def install_offset_contract(I):
    """`Offset::resolve` for numeric analyses: Fixed(s) -> s exactly (what the body does); for `Local` the
    result is one symbol in [-86399, 86399] per analysed entry (assumption A-LOCAL in DESIGN section 2:
    the system zone's offset is below 24 h and does not change during one API call)."""
    state = {}

    def contract(I, st, args, dty, site):
        v = args[0]
        if v[0] == 'r':
            v = I.read_resolved(st, ('L',) + v[1])
        if v is None or v[0] != 'e':
            return None
        outs = []
        if 0 in v[2]:
            s1 = st.clone()
            outs.append((s1, v[2][0][0]))
        if 1 in v[2]:
            s2 = st.clone()
            outs.append((s2, ('i', local_offset_vid(I, s2), 'i32')))
        return outs
    I.contracts['offset::Offset::resolve'] = contract


def install_partitions(I):
    """callers of days_to_date see its result joined per sign of the year (the only case split they need)"""
    def by_year_sign(I, st, v):
        if v[0] == 't' and v[1] and v[1][0][0] == 'i':
            lo, hi = D.get_iv(st, v[1][0][1])
            return 'neg' if hi < 0 else 'pos' if lo > 0 else 'mixed'
        return None
    I.return_partition['util::date::convert::days_to_date'] = by_year_sign

    def by_result(I, st, v):
        from .models import origin_of, cause_of
        if v[0] == 'e':
            ks = tuple(sorted(v[2]))
            return (ks, cause_of(origin_of(I, st, v)) if 1 in v[2] else None)
        return None
    for f in ('util::date::convert::date_to_days', 'util::date::convert::year_doy_to_days'):
        I.return_partition[f] = by_result
    I.return_partition['util::date::convert::days_to_doy'] = lambda I, st, v: None
    I.return_partition['util::parse::parse_format_string'] = lambda I, st, v: None
    for f in ('cron::parse_value', '<cron::Month as std::str::FromStr>::from_str', '<cron::DayOfWeek as std::str::FromStr>::from_str'):
        I.return_partition[f] = by_result
    I.return_partition['util::date::convert::days_to_wyear'] = lambda I, st, v: None


def install_valid_date_contract(I):
    """kernel contract K-VALID: the (year, month, day) returned by days_to_date is a date of the calendar table, i.e.
    day <= length of that month according to year_month_to_doy (what C01 is about; assumed where a property builds on it)."""
    D2D = 'util::date::convert::days_to_date'
    YMD = 'util::date::convert::year_month_to_doy'

    def contract(I, st, args, dty, site):
        outs = []
        for s1, rv in I.call_body(st, D2D, args, site):
            if rv[0] != 't' or len(rv[1]) != 3 or any(x[0] != 'i' for x in rv[1]):
                outs.append((s1, rv))
                continue
            y, m, d = rv[1]
            for s2, r2 in I.call_body(s1, YMD, [y, m], site):
                if r2[0] == 'e' and set(r2[2]) == {0}:
                    md = r2[2][0][0][1][1]
                    if D.refine_cmp(s2, 'Le', d[1], md[1]):
                        outs.append((s2, rv))
        return outs
    I.contracts[D2D] = contract


def install_splitter_contract(I):
    """client-side contract of the two day/nanosecond splitters, *proved* by check C04 (rule C04-K) on every run:
    Ok((d, n)) with 86_400e9*d + n == x and 0 <= n < 86_400e9, i.e. (d, n) are the Euclidean quotient and remainder of x;
    the Err disjuncts (with their OutOfRange construction) are taken from the real body."""
    from .models import ok

    def make(fn, scale):
        def contract(I, st, args, dty, site):
            x = args[0]
            if x[0] != 'i':
                return None
            outs = [(s, rv) for (s, rv) in I.call_body(st, fn, args, site) if not (rv[0] == 'e' and set(rv[2]) == {0})]
            s1 = st.clone()
            xv = x[1]
            if scale != 1:
                sv = I.binop(s1, 'Mul', ('i', xv, 'i128'), ('i', D.const_vid(scale), 'i128'), {'k': 'int', 's': True, 'bits': 128, 'name': 'i128'}, None, None)
                xv = sv[1]
            q, r = D.divmod_euclid(s1, xv, NPD, force=True)
            if D.set_iv(s1, q, -(1 << 31), (1 << 31) - 1) and not s1.dead:
                outs.append((s1, ok(('t', (('i', q, 'i32'), ('i', r, 'u64'))))))
            return outs
        return contract
    I.contracts['util::time::convert::nanos_to_days_nanos'] = make('util::time::convert::nanos_to_days_nanos', 1)
    I.contracts['util::time::convert::secs_to_days_nanos'] = make('util::time::convert::secs_to_days_nanos', 10**9)


def install_tz_partitions(I):
    """the TZif reader: results of every function of `local::` are joined per shape (same enum variants / error kinds)"""
    def consts(I_, st, v, out, depth=0):
        if v is None or depth > 3:
            return
        if v[0] == 'i':
            lo, hi = D.get_iv(st, v[1])
            out.append(lo if lo == hi else None)
        elif v[0] in ('t', 'a'):
            for x in v[1]:
                consts(I_, st, x, out, depth + 1)
        elif v[0] == 's':
            for x in v[2]:
                consts(I_, st, x, out, depth + 1)
        elif v[0] == 'e':
            for vi in sorted(v[2]):
                for x in v[2][vi]:
                    consts(I_, st, x, out, depth + 1)

    def part(I_, st, v):
        out = []
        consts(I_, st, v, out)
        return (I_.shape_key(v), tuple(out))
    I.partition_prefixes['local::'] = part


def install_cursor_contracts(I):
    """client-side summaries of Cursor::read_while / read_until (both are analysed on their own as entry points):
    they split `remaining` at some index d <= len: data has length d, the new `remaining` has length len - d.
    For read_while the bytes of `data` all satisfy the predicate (its closure is probed on an unknown byte)."""
    from .models import deref
    CUR = 'local::cursor::Cursor'
    U8 = {'k': 'int', 's': False, 'bits': 8, 'name': 'u8'}
    USZ = {'k': 'int', 's': False, 'bits': 64, 'name': 'usize'}

    def split(I_, st, ref, flags):
        cur = deref(I_, st, ref)
        if cur is None or cur[0] != 's' or cur[1] != CUR or cur[2][0][0] != 'slice':
            return None
        rem = cur[2][0][1]
        lo, hi = D.get_iv(st, rem['len'])
        d = I_.top(st, USZ, 'taken', lo=0, hi=hi if hi != D.INF else (1 << 63) - 1)
        D.rel_set(st, d[1], rem['len'], '<=')
        rest = I_.binop(st, 'Sub', ('i', rem['len'], 'usize'), d, USZ, None, None)
        if rest[0] != 'i':
            return None
        D.set_iv(st, rest[1], 0, (1 << 63) - 1)
        from .absint import StrV
        data = {'len': d[1], 'elems': None, 'elem_ty': U8, 'ident': next(StrV._ids)}
        data.update(flags)
        newrem = {'len': rest[1], 'elems': None, 'elem_ty': U8, 'ident': next(StrV._ids)}
        if rem.get('ascii'):
            newrem['ascii'] = True
            data.setdefault('ascii', True)
        I_.write_resolved(st, ('L',) + ref[1], ('s', CUR, (('slice', newrem),), cur[3]))
        return ('slice', data)

    def read_while(I_, st, args, dty, site):
        if args[0][0] != 'r':
            return None
        s0 = st.clone()
        b = I_.top(s0, U8, 'byte')
        cell = ('r', I_.alloc(s0, b))
        flags = {}
        r = I_.call_closure(s0, args[1], [cell], site)
        if r is not None:
            his = [D.get_iv(s2, b[1]) for s2, v in r if v[0] == 'i' and D.get_iv(s2, v[1])[1] >= 1]
            if his and all(h[1] <= 127 for h in his):
                flags['ascii'] = True
            if his and all(48 <= h[0] and h[1] <= 57 for h in his):
                flags['digits'] = True
        s1 = st.clone()
        v = split(I_, s1, args[0], flags)
        return None if v is None else [(s1, v)]

    def read_until(I_, st, args, dty, site):
        if args[0][0] != 'r':
            return None
        if len(args) < 2 or args[1][0] != 'i' or D.get_iv(st, args[1][1])[1] > 127:
            return None     # the summary (and the entry analysis of read_until) is for an ASCII delimiter only: inline the body
        s1 = st.clone()
        v = split(I_, s1, args[0], {})
        return None if v is None else [(s1, v)]
    I.contracts["local::cursor::Cursor::<'a>::read_while"] = read_while
    I.contracts["local::cursor::Cursor::<'a>::read_until"] = read_until
