"""E2 abstract domain: SSA value store with intervals, exact affine forms (optionally modulo M),
hash-consed defining terms, and per-state ordering facts.

A *vid* names one mathematical integer per concrete execution (bools are 0/1, chars their code
point).  Types matter only when an operation is performed (wrap/overflow); a lossless cast
returns the same vid.  Global tables (TERM, CONS, AFF, ...) hold facts that are true in every
state; the per-state part is the interval map and the ordering facts.
"""
import itertools
from fractions import Fraction
from math import gcd

_next_vid = itertools.count(1)

TERM = {}      # vid -> term tuple (op, *operands) ; operands are vids or python ints / strings
CONS = {}      # term -> vid
AFF = {}       # vid -> Aff
CONSTVAL = {}  # vid -> int       (vids that are literally constant)
GRANGE = {}    # vid -> (lo, hi)  global range (type range / entry precondition / digit bounds)
NAME = {}      # vid -> str       (symbols)
USERS = {}     # vid -> list of vids whose term mentions it
AFF_INDEX = {} # Aff.key() -> list of vids having exactly that affine form


def reset():
    global _next_vid
    _next_vid = itertools.count(1)
    for t in (TERM, CONS, AFF, CONSTVAL, GRANGE, NAME, USERS, AFF_INDEX):
        t.clear()


def int_range(ty):
    k = ty['k']
    if k == 'int':
        bits = ty['bits']
        if ty['s']:
            return (-(1 << (bits - 1)), (1 << (bits - 1)) - 1)
        return (0, (1 << bits) - 1)
    if k == 'bool':
        return (0, 1)
    if k == 'char':
        return (0, 0x10FFFF)
    return None


class Aff:
    """c0 + sum ci*si, exact integers; if mod>0 the form is only known modulo `mod`."""
    __slots__ = ('co', 'c0', 'mod')

    def __init__(self, co, c0, mod=0):
        self.co = co  # dict sym vid -> int coeff (no zeros)
        self.c0 = c0
        self.mod = mod

    def norm(self):
        if self.mod:
            m = self.mod
            self.co = {s: c % m for s, c in self.co.items() if c % m}
            self.c0 %= m
        return self

    def key(self):
        return (tuple(sorted(self.co.items())), self.c0, self.mod)

    def __eq__(self, o):
        return isinstance(o, Aff) and self.key() == o.key()

    def __hash__(self):
        return hash(self.key())

    def is_const(self):
        return not self.co and self.mod == 0

    def __repr__(self):
        parts = []
        for s, c in sorted(self.co.items()):
            parts.append(f'{c}*{NAME.get(s, "v%d" % s)}')
        parts.append(str(self.c0))
        r = ' + '.join(parts)
        if self.mod:
            r += f' (mod {self.mod})'
        return r


def aff_sym(vid):
    return Aff({vid: 1}, 0)


def aff_const(n):
    return Aff({}, n)


def _mod_comb(a, b):
    if a == 0:
        return b
    if b == 0:
        return a
    return gcd(a, b)


def aff_add(a, b, sign=1):
    if a is None or b is None:
        return None
    d = dict(a.co)
    for s, c in b.co.items():
        v = d.get(s, 0) + sign * c
        if v:
            d[s] = v
        else:
            d.pop(s, None)
    m = _mod_comb(a.mod, b.mod)
    if m == 1:
        return None
    return Aff(d, a.c0 + sign * b.c0, m).norm()


def aff_scale(a, k):
    if a is None:
        return None
    if k == 0:
        return aff_const(0)
    return Aff({s: c * k for s, c in a.co.items()}, a.c0 * k, a.mod * abs(k)).norm()


def aff_modulo(a, m):
    """form of (x mod m) / (x rem m): congruent to x modulo m"""
    if a is None or m <= 1:
        return None
    mm = _mod_comb(a.mod, m) if a.mod else m
    if a.mod and a.mod % m != 0:
        mm = gcd(a.mod, m)
    if mm <= 1:
        return None
    return Aff(dict(a.co), a.c0, mm).norm()


def aff_congruent(a, b, m):
    """is a == b (mod m) provable?  m == 0 means exact equality."""
    if a is None or b is None:
        return False
    d = aff_add(a, b, -1)
    if d is None:
        return False
    if m == 0:
        return d.mod == 0 and not d.co and d.c0 == 0
    if d.mod and d.mod % m != 0:
        return False
    return all(c % m == 0 for c in d.co.values()) and d.c0 % m == 0


class St:
    """one disjunct of abstract state"""
    __slots__ = ('frames', 'iv', 'rel', 'objs', 'discr', 'trace', 'loops', 'dead', 'notes', 'lin', 'tested', 'lazy', 'gcmark')

    def __init__(self):
        self.frames = {}
        self.iv = {}
        self.rel = {}
        self.objs = {}
        self.discr = {}
        self.trace = ()
        self.loops = {}
        self.dead = False
        self.notes = ()
        self.lin = ()     # assumed linear facts: tuple of (Aff, lo, hi)
        self.gcmark = 0
        self.lazy = {}     # intervals recomputed from defining terms (cache only; never joined)
        self.tested = frozenset()   # vids / ('discr', enum path) the path condition of this disjunct depends on

    def clone(self):
        s = St()
        s.frames = dict(self.frames)  # frame dicts are copy-on-write (see write_local)
        s.iv = dict(self.iv)
        s.rel = dict(self.rel)
        s.objs = dict(self.objs)
        s.discr = dict(self.discr)
        s.trace = self.trace
        s.loops = dict(self.loops)
        s.notes = self.notes
        s.lin = self.lin
        s.tested = self.tested
        s.gcmark = self.gcmark
        return s


def new_vid(ty=None, grange=None, name=None):
    v = next(_next_vid)
    if grange is not None:
        GRANGE[v] = grange
    if name:
        NAME[v] = name
    return v


def const_vid(n):
    t = ('const', n)
    v = CONS.get(t)
    if v is None:
        v = new_vid()
        CONS[t] = v
        TERM[v] = t
        CONSTVAL[v] = n
        AFF[v] = aff_const(n)
        GRANGE[v] = (n, n)
    return v


def sym_vid(lo, hi, name):
    """a fresh symbol with a global range (entry precondition / unknown result)"""
    v = new_vid(grange=(lo, hi), name=name)
    AFF[v] = aff_sym(v)
    return v


INF = float('inf')


def get_iv(st, vid):
    r = st.iv.get(vid)
    if r is not None:
        return r
    c = CONSTVAL.get(vid)
    if c is not None:
        return (c, c)
    g = GRANGE.get(vid)
    if g is not None:
        return g
    # a value defined in another path's state: recompute from its (global) defining term in this state
    t = TERM.get(vid)
    if t is not None:
        r = st.lazy.get(vid)
        if r is not None:
            return r
        st.lazy[vid] = (-INF, INF)   # cycle guard
        r = eval_term(st, t)
        if r is None:
            r = (-INF, INF)
        a = AFF.get(vid)
        if a is not None and not a.mod and vid not in a.co:
            e = _eval_direct(st, a)
            r = (max(r[0], e[0]), min(r[1], e[1]))
        if r[0] > r[1]:
            r = (-INF, INF)
        st.lazy[vid] = r
        return r
    return (-INF, INF)


def set_iv(st, vid, lo, hi):
    """intersect; returns False if empty"""
    olo, ohi = get_iv(st, vid)
    lo = max(lo, olo)
    hi = min(hi, ohi)
    if lo > hi:
        return False
    if (lo, hi) != (olo, ohi):
        st.iv[vid] = (lo, hi)
        if st.lazy:
            st.lazy = {}
        return _propagate(st, vid, 0)
    return True


def term_vid(st, term, lo, hi, aff=None):
    """hash-consed value defined by `term` with interval [lo,hi] in this state"""
    v = CONS.get(term)
    if v is None:
        v = new_vid()
        CONS[term] = v
        TERM[v] = term
        if aff is not None:
            AFF[v] = aff
            if len(aff.co) > 1 and not aff.mod:
                AFF_INDEX.setdefault(aff.key(), []).append(v)
        if term[0] != 'const':
            for o in term[1:]:
                if isinstance(o, int):
                    USERS.setdefault(o, []).append(v)
    olo, ohi = get_iv(st, v)
    lo = max(lo, olo)
    hi = min(hi, ohi)
    if lo > hi:
        # contradictory facts about one value: this path is infeasible
        st.dead = True
        lo, hi = olo, ohi
    st.iv[v] = (lo, hi)
    return v


def fresh_vid(st, lo, hi, name=None, sym=False):
    v = new_vid(name=name)
    st.iv[v] = (lo, hi)
    if sym:
        AFF[v] = aff_sym(v)
    return v


# ---------------------------------------------------------------- interval arithmetic

def _tdiv(a, b):
    """Rust integer division (truncating)"""
    q = abs(a) // abs(b)
    return q if (a >= 0) == (b >= 0) else -q


def iv_add(a, b):
    return (a[0] + b[0], a[1] + b[1])


def iv_sub(a, b):
    return (a[0] - b[1], a[1] - b[0])


def iv_mul(a, b):
    c = [x * y for x in a for y in b if not (x in (INF, -INF) and y == 0 or y in (INF, -INF) and x == 0)]
    if len(c) < 4:
        c.append(0)
    return (min(c), max(c))


def iv_div(a, b):
    """truncating division; b must not contain 0"""
    assert not (b[0] <= 0 <= b[1])
    if INF in a or -INF in a or INF in b or -INF in b:
        m = max(abs(a[0]), abs(a[1]))
        return (-m, m)
    c = [_tdiv(x, y) for x in a for y in b]
    if a[0] <= 0 <= a[1]:
        c.append(0)
    return (min(c), max(c))


def iv_rem(a, b):
    """truncating remainder (sign follows dividend); b must not contain 0"""
    assert not (b[0] <= 0 <= b[1])
    if a[0] == a[1] and b[0] == b[1] and a[0] not in (INF, -INF):
        v = a[0] - b[0] * _tdiv(a[0], b[0])
        return (v, v)
    m = max(abs(b[0]), abs(b[1])) - 1
    if a[0] >= 0:
        if a[1] < min(abs(b[0]), abs(b[1])):
            return a
        return (0, min(a[1], m))
    if a[1] <= 0:
        if -a[0] < min(abs(b[0]), abs(b[1])):
            return a
        return (max(a[0], -m), 0)
    return (max(a[0], -m), min(a[1], m))


# ---------------------------------------------------------------- ordering facts

def _relkey(a, b):
    return (a, b) if a <= b else (b, a)


_FLIP = {'<': '>', '>': '<', '=': '='}


def leq_provable(st, fa, fb, depth=2):
    """is fa <= fb provable from intervals plus the recorded ordering facts (x <= y  =>  fb - fa may be reduced by y - x)?"""
    d = aff_add(fb, fa, -1)
    if d is None or d.mod:
        return False
    return _nonneg(st, d, depth, 0)


def _nonneg(st, d, depth, strict):
    iv = _eval_direct(st, aff_concretize(st, d))
    if iv[0] >= strict:
        return True
    if depth == 0 or not st.rel or len(st.rel) > 120:
        return False
    atoms = set(d.co)
    for (x, y), r in st.rel.items():
        if '>' in r and '<' in r:
            continue
        ax, ay = aff_of(x), aff_of(y)
        if ax.mod or ay.mod or not (atoms & (set(ax.co) | set(ay.co))):
            continue        # the fact shares no atom with the goal: it cannot cancel anything
        cands = []
        if '>' not in r:
            cands.append((aff_add(ay, ax, -1), 0 if '=' in r else 1))      # y - x >= 0 / >= 1
        if '<' not in r:
            cands.append((aff_add(ax, ay, -1), 0 if '=' in r else 1))      # x - y >= 0 / >= 1
        for g, gmin in cands:
            if g is None or g.mod:
                continue
            d2 = aff_add(d, g, -1)
            if d2 is not None and len(d2.co) <= len(d.co) + 1 and _nonneg(st, d2, depth - 1, strict - gmin):
                return True
    return False


def rel_get(st, a, b):
    """possible orderings of a vs b as a frozenset of '<','=','>' (direct facts and intervals only)"""
    return _rel_get0(st, a, b)


def rel_get_deep(st, a, b):
    """rel_get strengthened by chaining ordering facts through affine forms (used for precondition checks)"""
    r = _rel_get0(st, a, b)
    if len(r) > 1 and st.rel and not (a in CONSTVAL and b in CONSTVAL):
        fa, fb = aff_of(a), aff_of(b)
        out = set(r)
        if '>' in out and leq_provable(st, fa, fb):
            out.discard('>')
        if '<' in out and leq_provable(st, fb, fa):
            out.discard('<')
        if out:
            r = frozenset(out)
    return r


def _rel_get0(st, a, b):
    if a == b:
        return frozenset('=')
    r = st.rel.get(_relkey(a, b))
    if r is None:
        r = frozenset('<=>')
    elif a > b:
        r = frozenset(_FLIP[x] for x in r)
    (al, ah), (bl, bh) = get_iv(st, a), get_iv(st, b)
    out = set()
    if '<' in r and al < bh:
        out.add('<')
    if '>' in r and ah > bl:
        out.add('>')
    if '=' in r and not (ah < bl or bh < al):
        out.add('=')
    return frozenset(out)


def rel_set(st, a, b, allowed):
    if a == b:
        return '=' in allowed
    cur = rel_get(st, a, b)
    new = cur & frozenset(allowed)
    if not new:
        return False
    k = _relkey(a, b)
    st.rel[k] = new if a <= b else frozenset(_FLIP[x] for x in new)
    return True


CMP_SETS = {'Lt': '<', 'Le': '<=', 'Gt': '>', 'Ge': '>=', 'Eq': '=', 'Ne': '<>'}
NEG = {'Lt': 'Ge', 'Le': 'Gt', 'Gt': 'Le', 'Ge': 'Lt', 'Eq': 'Ne', 'Ne': 'Eq'}


def cmp_possible(st, op, a, b, deep=False):
    """(can be true, can be false)"""
    r = rel_get_deep(st, a, b) if deep else rel_get(st, a, b)
    want = frozenset(CMP_SETS[op])
    return (bool(r & want), bool(r - want))


def refine_cmp(st, op, a, b):
    """assume a op b; False if infeasible"""
    if not rel_set(st, a, b, CMP_SETS[op]):
        return False
    (al, ah), (bl, bh) = get_iv(st, a), get_iv(st, b)
    if op == 'Lt':
        ah = min(ah, bh - 1); bl = max(bl, al + 1)
    elif op == 'Le':
        ah = min(ah, bh); bl = max(bl, al)
    elif op == 'Gt':
        al = max(al, bl + 1); bh = min(bh, ah - 1)
    elif op == 'Ge':
        al = max(al, bl); bh = min(bh, ah)
    elif op == 'Eq':
        al = bl = max(al, bl); ah = bh = min(ah, bh)
    elif op == 'Ne':
        if bl == bh:
            if al == bl:
                al += 1
            if ah == bl:
                ah -= 1
        if al == ah:
            if bl == al:
                bl += 1
            if bh == al:
                bh -= 1
    if al > ah or bl > bh:
        return False
    return set_iv(st, a, al, ah) and set_iv(st, b, bl, bh)


# ---------------------------------------------------------------- propagation through terms

def eval_term(st, term):
    """interval of a term from its operands' current intervals (None: cannot evaluate)"""
    op = term[0]
    if op == 'const':
        return (term[1], term[1])
    if op in ('Add', 'Sub', 'Mul', 'Div', 'Rem'):
        a, b = get_iv(st, term[1]), get_iv(st, term[2])
        if op == 'Add':
            return iv_add(a, b)
        if op == 'Sub':
            return iv_sub(a, b)
        if op == 'Mul':
            return iv_mul(a, b)
        if b[0] <= 0 <= b[1]:
            return None
        return iv_div(a, b) if op == 'Div' else iv_rem(a, b)
    if op == 'Neg':
        a = get_iv(st, term[1])
        return (-a[1], -a[0])
    if op == 'abs':
        lo, hi = get_iv(st, term[1])
        c = [abs(lo), abs(hi)]
        return (0 if lo <= 0 <= hi else min(c), max(c))
    if op == 'rem_euclid':
        b = get_iv(st, term[2])
        if b[0] > 0:
            a = get_iv(st, term[1])
            if a[0] >= 0 and a[1] < b[0]:
                return a
            return (0, b[1] - 1)
        return None
    if op == 'div_euclid':
        b = get_iv(st, term[2])
        if b[0] > 0 and b[0] == b[1]:
            a = get_iv(st, term[1])
            return (a[0] // b[0] if a[0] != -INF else -INF, a[1] // b[0] if a[1] != INF else INF)
        return None
    if op in CMP_SETS:
        t, f = cmp_possible(st, op, term[1], term[2])
        return (0 if f else 1, 1 if t else 0)
    if op == 'Not':
        a = get_iv(st, term[1])
        return (1 - a[1], 1 - a[0])
    return None


def _propagate(st, vid, depth):
    """after vid's interval shrank: re-evaluate users (forward) and operands (backward)"""
    if depth > 12:
        return True
    lo, hi = get_iv(st, vid)
    t = TERM.get(vid)
    if t is not None:
        op = t[0]
        # backward
        if op in ('Add', 'Sub') and isinstance(t[1], int) and isinstance(t[2], int):
            a, b = t[1], t[2]
            ia, ib = get_iv(st, a), get_iv(st, b)
            if op == 'Add':
                na = (lo - ib[1], hi - ib[0]); nb = (lo - ia[1], hi - ia[0])
            else:
                na = (lo + ib[0], hi + ib[1]); nb = (ia[0] - hi, ia[1] - lo)
            for x, (l, h) in ((a, na), (b, nb)):
                if x in CONSTVAL:
                    continue
                ol, oh = get_iv(st, x)
                l2, h2 = max(l, ol), min(h, oh)
                if l2 > h2:
                    return False
                if (l2, h2) != (ol, oh):
                    st.iv[x] = (l2, h2)
                    if not _propagate(st, x, depth + 1):
                        return False
        elif op == 'Neg':
            x = t[1]
            ol, oh = get_iv(st, x)
            l2, h2 = max(-hi, ol), min(-lo, oh)
            if l2 > h2:
                return False
            if (l2, h2) != (ol, oh):
                st.iv[x] = (l2, h2)
                if not _propagate(st, x, depth + 1):
                    return False
        elif op == 'Mul' and t[2] in CONSTVAL and CONSTVAL[t[2]] > 0:
            x, c = t[1], CONSTVAL[t[2]]
            ol, oh = get_iv(st, x)
            l2 = max(ol, -((-lo) // c)) if lo != -INF else ol
            h2 = min(oh, hi // c) if hi != INF else oh
            if l2 > h2:
                return False
            if (l2, h2) != (ol, oh):
                st.iv[x] = (l2, h2)
                if not _propagate(st, x, depth + 1):
                    return False
        elif op in CMP_SETS and lo == hi:
            if not refine_cmp(st, op if lo == 1 else NEG[op], t[1], t[2]):
                return False
        elif op == 'Not' and lo == hi:
            if not set_iv(st, t[1], 1 - lo, 1 - lo):
                return False
        elif op == 'BitAnd' and lo == hi == 1:
            if not (set_iv(st, t[1], 1, 1) and set_iv(st, t[2], 1, 1)):
                return False
        elif op == 'BitOr' and lo == hi == 0:
            if not (set_iv(st, t[1], 0, 0) and set_iv(st, t[2], 0, 0)):
                return False
    # forward
    for u in USERS.get(vid, ()):
        if u in st.iv:
            r = eval_term(st, TERM[u])
            if r is not None:
                ol, oh = st.iv[u]
                l2, h2 = max(r[0], ol), min(r[1], oh)
                if l2 > h2:
                    return False
                if (l2, h2) != (ol, oh):
                    st.iv[u] = (l2, h2)
                    if not _propagate(st, u, depth + 1):
                        return False
    return True


# ---------------------------------------------------------------- div/mod linearisation
# For every Div(x,c)/Rem(x,c) with a positive constant c the identity  x = c*q + r  (Rust's truncating
# semantics, unconditional) is recorded as a triple (x, c, q, r).  Affine forms stay over atoms (vids with
# no affine form of their own); two local rewrites use the triples, both are exact identities:
#   contraction (at creation):  F  ->  F - a*(aff(x) - c*q - r)   when that eliminates q and shrinks F,
#                               so `x - (x/c)*c` becomes `r`;
#   expansion (interval evaluation only):  an atom x that is a dividend is replaced by c*q + r.
# Nested divisors are related exactly:  c1 | c2:  x/c2 = (x/c1)/(c2/c1),  x%c2 = c1*((x/c1)%(c2/c1)) + x%c1
#                                       c2 | c1:  x/c2 = (c1/c2)*(x/c1) + (x%c1)/c2,   x%c2 = (x%c1)%c2

TRIPLES = {}   # vid -> list of (x, c, q, r) the vid takes part in
DIVMOD = {}    # (x, c) -> (q, r)

_reset0 = reset


def reset():  # noqa: F811
    _reset0()
    TRIPLES.clear(); DIVMOD.clear()


def aff_of(vid):
    a = AFF.get(vid)
    if a is None:
        a = Aff({vid: 1}, 0)
    return a


def aff_norm(a):
    return aff_contract(a)


def aff_contract(F):
    if F is None:
        return None
    for _ in range(12):
        best = None
        for qv, coef in F.co.items():
            for (x, c, q, r) in TRIPLES.get(qv, ()):
                if q != qv or coef % c:
                    continue
                ax = aff_of(x)
                if ax.mod:
                    continue
                a = -coef // c
                # F - a*(ax - c*q - r)
                cand = aff_add(F, aff_add(ax, Aff({q: c, r: 1}, 0), -1), -a)
                if cand is not None and len(cand.co) < len(F.co) and (best is None or len(cand.co) < len(best.co)):
                    best = cand
        if best is None:
            return F
        F = best
    return F


def _eval_direct(st, a):
    lo = hi = a.c0
    for s, c in a.co.items():
        l, h = get_iv(st, s)
        if c > 0:
            lo += c * l if l != -INF else -INF
            hi += c * h if h != INF else INF
        else:
            lo += c * h if h != INF else -INF
            hi += c * l if l != -INF else INF
    return (lo, hi)


def eval_aff(st, a, depth=3):
    """interval of an exact affine form from its atoms' intervals (None if modular); dividend atoms are
    also expanded through their triples, every expansion being another valid bound"""
    if a is None or a.mod:
        return None
    lo, hi = _eval_direct(st, a)
    if len(a.co) > 1:
        for v in AFF_INDEX.get(a.key(), ()):
            r = st.iv.get(v)
            if r is not None:
                lo, hi = max(lo, r[0]), min(hi, r[1])
    for (g, glo, ghi) in st.lin:
        d = aff_add(a, g, -1)
        if d is not None and not d.co and not d.mod:
            lo, hi = max(lo, glo + d.c0), min(hi, ghi + d.c0)
        else:
            d = aff_add(a, g)
            if d is not None and not d.co and not d.mod:
                lo, hi = max(lo, d.c0 - ghi), min(hi, d.c0 - glo)
    if depth > 0:
        for s, c in list(a.co.items()):
            for (x, cc, q, r) in TRIPLES.get(s, ()):
                if x != s:
                    continue
                d = dict(a.co)
                del d[s]
                exp = aff_add(Aff(d, a.c0), aff_add(aff_scale(aff_of(q), cc * c), aff_scale(aff_of(r), c)))
                if exp is None or exp.mod:
                    continue
                e = eval_aff(st, exp, depth - 1)
                if e is not None:
                    lo, hi = max(lo, e[0]), min(hi, e[1])
    return (lo, hi)


def grange_of(vid, depth=0):
    """range of a vid that holds in every state: declared ranges of symbols, propagated through affine forms and
    div/rem by constants"""
    c = CONSTVAL.get(vid)
    if c is not None:
        return (c, c)
    g = GRANGE.get(vid)
    if g is not None:
        return g
    if depth > 8:
        return None
    a = AFF.get(vid)
    r = None
    if a is not None and not a.mod and vid not in a.co:
        lo = hi = a.c0
        for s_, c_ in a.co.items():
            gs = grange_of(s_, depth + 1)
            if gs is None:
                lo = None
                break
            lo += c_ * (gs[0] if c_ > 0 else gs[1])
            hi += c_ * (gs[1] if c_ > 0 else gs[0])
        if lo is not None:
            r = (lo, hi)
    t = TERM.get(vid)
    if t is not None and t[0] in ('Div', 'Rem') and t[2] in CONSTVAL and CONSTVAL[t[2]] > 0:
        gx = grange_of(t[1], depth + 1)
        if gx is not None:
            cc = CONSTVAL[t[2]]
            r2 = iv_div(gx, (cc, cc)) if t[0] == 'Div' else iv_rem(gx, (cc, cc))
            r = r2 if r is None else (max(r[0], r2[0]), min(r[1], r2[1]))
    if r is not None:
        GRANGE[vid] = r
    return r


def _split_high_low(ax, c):
    """ax = high + low with every coefficient of high divisible by c and low provably in [0, c) in every state:
    then ax / c = high / c and ax % c = low exactly"""
    if ax is None or ax.mod:
        return None
    high = {s_: k for s_, k in ax.co.items() if k % c == 0}
    low = {s_: k for s_, k in ax.co.items() if k % c != 0}
    if not high and not low:
        return None
    if not low and ax.c0 % c == 0:
        return Aff({s_: k // c for s_, k in high.items()}, ax.c0 // c), Aff({}, 0)     # exactly divisible
    k0, l0 = divmod(ax.c0, c)
    lo = hi = l0
    for s_, k in low.items():
        g = grange_of(s_)
        if g is None:
            return None
        lo += k * (g[0] if k > 0 else g[1])
        hi += k * (g[1] if k > 0 else g[0])
    if lo < 0 or hi >= c:
        # the low part stays inside one interval [m*c, (m+1)*c) in every state: borrow / carry m into the quotient
        m = lo // c
        if hi // c != m:
            return None
        return Aff({s_: k // c for s_, k in high.items()}, k0 + m), Aff(dict(low), l0 - m * c)
    return Aff({s_: k // c for s_, k in high.items()}, k0), Aff(dict(low), l0)


def _split_scaled(st, ax, c):
    """ax = H + g*y + L with c | coefficients of H, one atom y >= 0 whose coefficient g divides c (1 < g < c), and
    0 <= L < g in every state:  ax / c = H/c + y/(c/g),   ax % c = g*(y % (c/g)) + L"""
    if ax is None or ax.mod or not ax.co:
        return None
    k0, l0 = divmod(ax.c0, c)        # the constant contributes k0 to the quotient, l0 stays in the low part
    for y, g in ax.co.items():
        if g <= 1 or g >= c or c % g:
            continue
        gy = grange_of(y)
        if gy is None or gy[0] < 0:
            continue
        H = {s_: k for s_, k in ax.co.items() if s_ != y and k % c == 0}
        L = {s_: k for s_, k in ax.co.items() if s_ != y and k % c != 0}
        m0, l1 = divmod(l0, g) if not L else (0, l0)      # whole multiples of g in the constant move into y: g*y + l0 = g*(y + m0) + l1
        if m0:
            yl, yh = get_iv(st, y)
            y2 = term_vid(st, ('Add', y, const_vid(m0)) if y <= const_vid(m0) else ('Add', const_vid(m0), y), yl + m0, yh + m0, Aff({y: 1}, m0))
            GRANGE.setdefault(y2, (gy[0] + m0, gy[1] + m0))
            qy, ry = divmod_vids(st, y2, c // g)
            qa = aff_add(Aff({s_: k // c for s_, k in H.items()}, k0), aff_of(qy))
            ra = aff_add(aff_scale(aff_of(ry), g), Aff({}, l1))
            return qa, ra
        lo = hi = l0
        okl = True
        for s_, k in L.items():
            gs = grange_of(s_)
            if gs is None:
                okl = False
                break
            lo += k * (gs[0] if k > 0 else gs[1])
            hi += k * (gs[1] if k > 0 else gs[0])
        if not okl or lo < 0 or hi >= g:
            continue
        qy, ry = divmod_vids(st, y, c // g)
        qa = aff_add(Aff({s_: k // c for s_, k in H.items()}, k0), aff_of(qy))
        ra = aff_add(aff_scale(aff_of(ry), g), Aff(dict(L), l0))
        return qa, ra
    return None


def _exact_multiple(st, x, c):
    """x is provably y - (y mod c) for a dividend y already divided by c (triple y = c*q + r): then x = c*q, so x / c = q and x % c = 0
    for the truncating and for the Euclidean division alike.  Returns q or None."""
    ax = AFF.get(x)
    if ax is None or ax.mod:
        return None
    for r_, k in list(ax.co.items()):
        if k != -1:
            continue
        for (y, c1, q1, r1) in TRIPLES.get(r_, ()):
            if r1 != r_ or c1 != c:
                continue
            rest = Aff({s_: v for s_, v in ax.co.items() if s_ != r_}, ax.c0)
            ay = aff_of(y)
            if not ay.mod and rest.key() == ay.key() and rest.c0 == ay.c0:
                return q1
    return None


def _reg_triple(x, c, q, r):
    t = (x, c, q, r)
    DIVMOD[(x, c)] = (q, r)
    for v in {x, q, r}:
        TRIPLES.setdefault(v, []).append(t)


def divmod_vids(st, x, c):
    """(q, r) vids with x = c*q + r (truncating); creates and relates them on first use"""
    got = DIVMOD.get((x, c))
    ax = AFF.get(x)
    if got is None and ax is not None and not ax.co and not ax.mod:
        # the dividend is a known constant (an affine form without atoms): fold
        n = ax.c0
        qn = abs(n) // c * (1 if n >= 0 else -1)
        return const_vid(qn), const_vid(n - c * qn)
    if got is None:
        qm = _exact_multiple(st, x, c)
        if qm is not None:
            return qm, const_vid(0)
    if got is not None:
        q, r = got
    else:
        q = r = None
        cv = const_vid(c)
        tx = TERM.get(x)
        _gx0 = GRANGE.get(x)
        _direct = x in AFF and _gx0 is not None and _gx0[0] >= 0      # a negation that is itself non-negative everywhere: split its own form
        if tx is not None and tx[0] == 'Neg' and not _direct:
            # truncating division is odd: (-y)/c = -(y/c), (-y)%c = -(y%c)
            qy, ry = divmod_vids(st, tx[1], c)
            q = new_vid(); r = new_vid()
            TERM[q] = ('Div', x, cv); TERM[r] = ('Rem', x, cv)
            AFF[q] = aff_scale(aff_of(qy), -1)
            AFF[r] = aff_scale(aff_of(ry), -1)
            USERS.setdefault(qy, []).append(q)
            USERS.setdefault(ry, []).append(r)
        for (x1, c1, q1, r1) in list(TRIPLES.get(x, ())):
            if q is not None:
                break
            if x1 != x or c1 == c:
                continue
            if c % c1 == 0:
                k = c // c1
                q2, r2 = divmod_vids(st, q1, k)
                q = q2
                r = new_vid()
                TERM[r] = ('Rem', x, cv)
                AFF[r] = aff_add(aff_scale(aff_of(r2), c1), aff_of(r1))
                for o in (r2, r1):
                    USERS.setdefault(o, []).append(r)
                break
            if c1 % c == 0:
                k = c1 // c
                qq, rr = divmod_vids(st, r1, c)
                r = rr
                q = new_vid()
                TERM[q] = ('Div', x, cv)
                AFF[q] = aff_add(aff_scale(aff_of(q1), k), aff_of(qq))
                for o in (q1, qq):
                    USERS.setdefault(o, []).append(q)
                break
        # x = c*H + L with 0 <= L < c gives x / c = H only when the division rounds toward minus infinity or x >= 0:
        # for the truncating `/` and `%` of MIR the decomposition is used only for dividends that are non-negative in every state
        _before = set(GRANGE)
        gx = grange_of(x)
        for _k in set(GRANGE) - _before:      # (no memoisation side effect: the global ranges recorded so far stay as they were)
            del GRANGE[_k]
        trunc_ok = gx is not None and gx[0] >= 0
        if q is None and x in AFF and not trunc_ok and gx is not None and gx[1] <= 0 and not (tx is not None and tx[0] == 'Neg'):
            # a dividend that is non-positive in every state: truncating division is odd, (-z)/c = -(z/c), (-z)%c = -(z%c),
            # with z = -x >= 0 handled by the rules for non-negative dividends
            z = term_vid(st, ('Neg', x), -gx[1], -gx[0], aff_scale(aff_of(x), -1))
            GRANGE.setdefault(z, (-gx[1], -gx[0]))
            xl, xh = get_iv(st, x)
            st.iv[z] = (max(-xh, get_iv(st, z)[0]), min(-xl, get_iv(st, z)[1]))
            qz, rz = divmod_vids(st, z, c)
            q = new_vid(); r = new_vid()
            TERM[q] = ('Div', x, cv); TERM[r] = ('Rem', x, cv)
            AFF[q] = aff_scale(aff_of(qz), -1)
            AFF[r] = aff_scale(aff_of(rz), -1)
            USERS.setdefault(qz, []).append(q)
            USERS.setdefault(rz, []).append(r)
        if q is None and x in AFF and trunc_ok:
            sc = _split_scaled(st, aff_of(x), c)
            if sc is not None:
                q = new_vid(); r = new_vid()
                TERM[q] = ('Div', x, cv); TERM[r] = ('Rem', x, cv)
                AFF[q], AFF[r] = sc
                USERS.setdefault(x, []).extend([q, r])
                for a_, tgt in ((sc[0], q), (sc[1], r)):
                    for o in a_.co:
                        USERS.setdefault(o, []).append(tgt)
        if q is None:
            ax_ = AFF.get(x)
            # every term a multiple of c: the division is exact whatever the sign of x (truncating and Euclidean division agree)
            exact_div = ax_ is not None and not ax_.mod and bool(ax_.co) and all(k_ % c == 0 for k_ in ax_.co.values()) and ax_.c0 % c == 0
            hl = _split_high_low(aff_of(x), c) if (x in AFF and (trunc_ok or exact_div)) else None
            q = new_vid()
            r = new_vid()
            TERM[q] = ('Div', x, cv)
            TERM[r] = ('Rem', x, cv)
            USERS.setdefault(x, []).extend([q, r])
            if hl is not None:
                AFF[q], AFF[r] = hl
                for a_ in hl:
                    for o in a_.co:
                        USERS.setdefault(o, []).append(q if a_ is hl[0] else r)
        CONS.setdefault(('Div', x, cv), q)
        CONS.setdefault(('Rem', x, cv), r)
        _reg_triple(x, c, q, r)
    # intervals in this state
    xi = get_iv(st, x)
    if -INF in xi or INF in xi:
        qi = (-INF, INF)
        ri = (-(c - 1), c - 1)
    else:
        qi = iv_div(xi, (c, c))
        ri = iv_rem(xi, (c, c))
    for v, (lo, hi) in ((q, qi), (r, ri)):
        olo, ohi = get_iv(st, v)
        lo, hi = max(lo, olo), min(hi, ohi)
        if v in AFF:
            a = eval_aff(st, AFF[v])
            if a is not None:
                lo, hi = max(lo, a[0]), min(hi, a[1])
        if lo > hi:
            st.dead = True
            continue
        st.iv[v] = (lo, hi)
    if xi[0] != -INF and xi[0] >= 0 and not st.dead:
        # a non-negative dividend bounds its quotient and its remainder: x - x % c and x - x / c cannot underflow
        rel_set(st, r, x, '<=')
        rel_set(st, q, x, '<=')
    _enforce_triples(st, x, 0)
    return q, r


def _cdiv(a, b):
    return -((-a) // b)


def _enforce_triples(st, vid, depth):
    """interval propagation through x = c*q + r for every triple vid takes part in"""
    for (x, c, q, r) in TRIPLES.get(vid, ()):
        (xl, xh), (ql, qh), (rl, rh) = get_iv(st, x), get_iv(st, q), get_iv(st, r)
        if INF in (xh, qh, rh) or -INF in (xl, ql, rl):
            continue
        nx = (max(xl, c * ql + rl), min(xh, c * qh + rh))
        nq = (max(ql, _cdiv(xl - rh, c)), min(qh, (xh - rl) // c))
        nr = (max(rl, xl - c * qh), min(rh, xh - c * ql))
        for v, old, new in ((x, (xl, xh), nx), (q, (ql, qh), nq), (r, (rl, rh), nr)):
            if new[0] > new[1]:
                return False
            if new != old:
                st.iv[v] = new
                if depth < 10 and not _propagate(st, v, depth + 1):
                    return False
    return True


_propagate0 = _propagate


def _propagate(st, vid, depth):  # noqa: F811
    if not _propagate0(st, vid, depth):
        return False
    a = AFF.get(vid)
    if a is not None and not a.mod and len(a.co) == 1 and vid not in a.co and depth <= 10:
        # vid == c*y + b with c = +/-1: the atom's interval follows from vid's
        (y, c), = a.co.items()
        if c in (1, -1) and y not in CONSTVAL:
            lo, hi = get_iv(st, vid)
            nl, nh = ((lo - a.c0), (hi - a.c0)) if c == 1 else ((a.c0 - hi), (a.c0 - lo))
            ol, oh = get_iv(st, y)
            l2, h2 = max(nl, ol), min(nh, oh)
            if l2 > h2:
                return False
            if (l2, h2) != (ol, oh):
                st.iv[y] = (l2, h2)
                if not _propagate(st, y, depth + 1):
                    return False
    if vid in TRIPLES and depth <= 10:
        if not _enforce_triples(st, vid, depth):
            return False
    return True


def aff_concretize(st, f):
    """replace atoms whose interval in `st` is a single value by that value"""
    if f is None:
        return None
    co = {}
    c0 = f.c0
    for v, c in f.co.items():
        lo, hi = get_iv(st, v)
        if lo == hi:
            c0 += c * lo
        else:
            co[v] = c
    return Aff(co, c0, f.mod).norm()


def aff_equiv(f1, f2, m=0, depth=6, st=None):
    """is f1 == f2 (m == 0) or f1 == f2 (mod m) provable, using the div/mod triples as exact identities
    (and, when a state is given, the atoms that are constant in it)?"""
    if f1 is None or f2 is None:
        return False
    d = aff_add(f1, f2, -1)
    if d is None:
        return False
    return _to_zero(d, m, depth, set(), st)


def _is_zero(d, m):
    if d.mod:
        if not m or d.mod % m:
            return False
    if m:
        return all(c % m == 0 for c in d.co.values()) and d.c0 % m == 0
    return not d.co and d.c0 == 0


def _to_zero(d, m, depth, seen, st=None):
    if _is_zero(aff_concretize(st, d) if st is not None else d, m):
        return True
    k = d.key()
    if depth == 0 or k in seen or len(seen) > 400:
        return False
    seen.add(k)
    for v, coef in list(d.co.items()):
        for (x, c, q, r) in TRIPLES.get(v, ()):
            ax = aff_of(x)
            if ax.mod:
                continue
            rest = dict(d.co)
            del rest[v]
            base = Aff(rest, d.c0, d.mod)
            cands = []
            if q == v and v not in AFF and coef % c == 0:
                # c*q = x - r
                cands.append(aff_add(base, aff_add(ax, aff_of(r), -1), coef // c))
            if r == v and v not in AFF:
                # r = x - c*q
                cands.append(aff_add(base, aff_add(ax, aff_scale(aff_of(q), c), -1), coef))
            if x == v and v not in AFF:
                # x = c*q + r
                cands.append(aff_add(base, aff_add(aff_scale(aff_of(q), c), aff_of(r)), coef))
            for cand in cands:
                if cand is not None and _to_zero(cand, m, depth - 1, seen, st):
                    return True
    return False


def sources(vids, limit=20000):
    """entry symbols / opaque values a set of vids is computed from (transitive closure over defining terms and affine forms)"""
    out = set()
    seen = set()
    work = [v for v in vids if isinstance(v, int)]
    tags = {v for v in vids if not isinstance(v, int)}
    while work and len(seen) < limit:
        v = work.pop()
        if v in seen or v in CONSTVAL:
            continue
        seen.add(v)
        t = TERM.get(v)
        a = AFF.get(v)
        expanded = False
        if t is not None and t[0] != 'const':
            for o in t[1:]:
                if isinstance(o, int):
                    work.append(o)
                    expanded = True
        if a is not None:
            for y in a.co:
                if y != v:
                    work.append(y)
                    expanded = True
        if not expanded:
            out.add(v)
    return out, tags


def divmod_euclid(st, x, c, force=False):
    """(q, r) with x = c*q + r and 0 <= r < c (Euclidean division by a positive constant)"""
    lo, hi = get_iv(st, x)
    key = (x, c, 'euclid')
    got = DIVMOD.get(key)
    if got is None:
        qm = _exact_multiple(st, x, c)
        if qm is not None:
            return qm, const_vid(0)
    if got is None and lo >= 0 and not force:
        # coincides with truncating division in this state.  The truncating triple is exact (split into affine forms) only for dividends
        # that are non-negative in every state; for the others the Euclidean triple below is the more precise one and is equally valid here.
        _before = set(GRANGE)
        gx = grange_of(x)
        for _k in set(GRANGE) - _before:
            del GRANGE[_k]
        if (gx is not None and gx[0] >= 0) or x not in AFF or (x, c) in DIVMOD:
            return divmod_vids(st, x, c)
    if got is None:
        q = new_vid(); r = new_vid()
        cv = const_vid(c)
        TERM[q] = ('div_euclid', x, cv)
        TERM[r] = ('rem_euclid', x, cv)
        USERS.setdefault(x, []).extend([q, r])
        GRANGE[r] = (0, c - 1)
        hl = _split_high_low(aff_of(x), c) if x in AFF else None
        if hl is not None:
            # x = high + low with c | high and 0 <= low < c in every state: the Euclidean quotient and remainder are exact affine forms
            AFF[q], AFF[r] = hl
            for a_, tgt in ((hl[0], q), (hl[1], r)):
                for o in a_.co:
                    USERS.setdefault(o, []).append(tgt)
        t = (x, c, q, r)
        DIVMOD[key] = (q, r)
        for v in {x, q, r}:
            TRIPLES.setdefault(v, []).append(t)
        got = (q, r)
    q, r = got
    ql = lo // c if lo != -INF else -INF
    qh = hi // c if hi != INF else INF
    oq = get_iv(st, q)
    st.iv[q] = (max(ql, oq[0]), min(qh, oq[1]))
    orr = get_iv(st, r)
    st.iv[r] = (max(0, orr[0]), min(c - 1, orr[1]))
    for v in (q, r):
        if v in AFF:
            a = eval_aff(st, AFF[v])          # the exact affine form bounds the value in this state
            if a is not None:
                l0_, h0_ = st.iv[v]
                l1_, h1_ = max(l0_, a[0]), min(h0_, a[1])
                if l1_ > h1_:
                    st.dead = True
                else:
                    st.iv[v] = (l1_, h1_)
    _enforce_triples(st, x, 0)
    return q, r


def aff_variants(d, depth=4, limit=200):
    """forms exactly equal to d obtained by rewriting with the div/mod triples (bounded search)"""
    seen = {d.key(): d}
    frontier = [d]
    for _ in range(depth):
        nxt = []
        for f in frontier:
            for v, coef in list(f.co.items()):
                for (x, c, q, r) in TRIPLES.get(v, ()):
                    ax = aff_of(x)
                    if ax.mod:
                        continue
                    rest = dict(f.co)
                    del rest[v]
                    base = Aff(rest, f.c0, f.mod)
                    cands = []
                    if q == v and v not in AFF and coef % c == 0:
                        cands.append(aff_add(base, aff_add(ax, aff_of(r), -1), coef // c))
                    if r == v and v not in AFF:
                        cands.append(aff_add(base, aff_add(ax, aff_scale(aff_of(q), c), -1), coef))
                    if x == v and v not in AFF:
                        cands.append(aff_add(base, aff_add(aff_scale(aff_of(q), c), aff_of(r)), coef))
                    for cand in cands:
                        if cand is not None and cand.key() not in seen and len(seen) < limit:
                            seen[cand.key()] = cand
                            nxt.append(cand)
        frontier = nxt
        if not frontier:
            break
    return list(seen.values())
