"""E3: shape rules over the MIR facts (CFG loops, call graph)."""


def succs(blk):
    t = blk['term']
    k = t['t']
    if k in ('goto', 'drop', 'assert'):
        return [t['target']]
    if k == 'switch':
        return [x[1] for x in t['cases']] + [t['otherwise']]
    if k == 'call':
        return [t['target']] if t['target'] is not None else []
    return []


def natural_loops(body):
    """{head: set(blocks)} for every back edge target (iterative DFS + reverse reachability)"""
    n = len(body['blocks'])
    sc = [succs(b) for b in body['blocks']]
    color = [0] * n
    back = []
    stack = [(0, iter(sc[0]))]
    color[0] = 1
    while stack:
        b, it = stack[-1]
        adv = False
        for s in it:
            if color[s] == 0:
                color[s] = 1
                stack.append((s, iter(sc[s])))
                adv = True
                break
            if color[s] == 1:
                back.append((b, s))
        if not adv:
            color[b] = 2
            stack.pop()
    preds = [[] for _ in range(n)]
    for b, ss in enumerate(sc):
        for s in ss:
            preds[s].append(b)
    loops = {}
    for tail, head in back:
        blocks = loops.setdefault(head, {head})
        work = [tail]
        while work:
            x = work.pop()
            if x in blocks:
                continue
            blocks.add(x)
            work.extend(preds[x])
    return loops, sc


def callees(body):
    out = set()
    for blk in body['blocks']:
        t = blk['term']
        if t['t'] == 'call':
            f = t['func']
            if f.get('id'):
                out.add(f['id'])
    return out


def call_graph(facts):
    g = {}
    for b in facts.body_list:
        g[b['id']] = {c for c in callees(b) if c in facts.bodies}
        # closures are called by the function that creates them
        for blk in b['blocks']:
            for s in blk['stmts']:
                if s['s'] == 'assign' and s['rv']['r'] == 'agg' and s['rv']['kind'].get('a') == 'closure':
                    g[b['id']].add(s['rv']['kind']['id'])
    return g


def reachable(g, roots):
    seen = set()
    work = list(roots)
    while work:
        x = work.pop()
        if x in seen or x not in g:
            continue
        seen.add(x)
        work.extend(g[x])
    return seen


def has_cycle(g, nodes):
    color = {}

    def dfs(u):
        color[u] = 1
        for v in g.get(u, ()):
            if v not in nodes:
                continue
            if color.get(v) == 1:
                return (u, v)
            if color.get(v) is None:
                r = dfs(v)
                if r:
                    return r
        color[u] = 2
        return None
    import sys
    sys.setrecursionlimit(10000)
    for n in nodes:
        if color.get(n) is None:
            r = dfs(n)
            if r:
                return r
    return None


def iterator_driven(body, head, blocks, sc):
    """is the loop driven by an Iterator::next call whose result decides a switch with an edge leaving the loop?"""
    nexts = []
    for b in blocks:
        t = body['blocks'][b]['term']
        if t['t'] == 'call':
            cid = t['func'].get('id') or t['func'].get('decl') or ''
            if cid.endswith('::next') and 'Iterator' in cid or cid.endswith('as std::iter::Iterator>::next'):
                nexts.append(b)
    if not nexts:
        return False, 'no Iterator::next call inside the loop'
    exits = [b for b in blocks if any(s not in blocks for s in sc[b]) and body['blocks'][b]['term']['t'] == 'switch']
    if not exits:
        return False, 'no switch leaves the loop'
    return True, None
