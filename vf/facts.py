"""E1 front end: run the mirfacts rustc driver over /repo's current working tree and load the facts.

Facts are cached under /verif/.cache keyed by the SHA-256 of every file cargo reads from /repo
(src/**, Cargo.toml, Cargo.lock, .cargo/**) plus the driver binary, so any edit to /repo
invalidates the key: every check analyses the current working tree.
"""
import hashlib
import json
import os
import shutil
import subprocess
import sys
import tempfile
import time

VERIF = os.path.dirname(os.path.dirname(os.path.abspath(__file__)))
REPO = os.environ.get('VERIF_REPO', '/repo')
DRIVER = os.path.join(VERIF, 'driver', 'target', 'release', 'mirfacts')
SCRATCH_RUN = os.path.realpath(REPO) != '/repo'
# scratch runs (mutants, seeded changes) keep their facts apart so that concurrent runs on different trees never purge each other
CACHE = os.path.join(VERIF, '.cache') if not SCRATCH_RUN else os.path.join(VERIF, '.cache', 'scratch')

CONFIGS = {
    'default': [],
    'serde': ['--features', 'serde'],
}
# floors: number of MIR bodies counted by hand on the pinned tree (fail closed below them)
FLOORS = {'default': 450, 'serde': 460}


class InfraError(Exception):
    pass


def _tree_hash():
    h = hashlib.sha256()
    paths = []
    for root in ('src', '.cargo'):
        base = os.path.join(REPO, root)
        for dp, dn, fn in os.walk(base):
            dn.sort()
            for f in sorted(fn):
                paths.append(os.path.join(dp, f))
    for f in ('Cargo.toml', 'Cargo.lock'):
        p = os.path.join(REPO, f)
        if os.path.exists(p):
            paths.append(p)
    for p in paths:
        h.update(os.path.relpath(p, REPO).encode())
        h.update(b'\0')
        with open(p, 'rb') as fh:
            h.update(fh.read())
        h.update(b'\0')
    with open(DRIVER, 'rb') as fh:
        h.update(hashlib.sha256(fh.read()).digest())
    return h.hexdigest()[:24]


def ensure_driver():
    if not os.path.exists(DRIVER):
        r = subprocess.run(['cargo', 'build', '--release', '--offline'], cwd=os.path.join(VERIF, 'driver'),
                           env=dict(os.environ, CARGO_NET_OFFLINE='true'), capture_output=True, text=True)
        if r.returncode != 0 or not os.path.exists(DRIVER):
            raise InfraError('cannot build mirfacts driver:\n' + r.stderr[-4000:])


def sysroot():
    return subprocess.check_output(['rustc', '+nightly', '--print', 'sysroot'], text=True).strip()


def build_facts(cfg):
    """run the driver; returns path of the fact file in the cache"""
    ensure_driver()
    os.makedirs(CACHE, exist_ok=True)
    key = _tree_hash()
    out = os.path.join(CACHE, f'{key}-{cfg}.json')
    if os.path.exists(out) and os.path.getsize(out) > 1000:
        return out, True
    tgt = tempfile.mkdtemp(prefix='vf-target-')
    tmp_out = out + f'.tmp{os.getpid()}'
    try:
        env = dict(os.environ)
        env.update({
            'LD_LIBRARY_PATH': os.path.join(sysroot(), 'lib') + ':' + env.get('LD_LIBRARY_PATH', ''),
            'MIRFACTS_CRATE': 'astrolabe',
            'MIRFACTS_OUT': tmp_out,
            'RUSTFLAGS': '-Zmir-opt-level=0 -Awarnings',
            'RUSTC_WORKSPACE_WRAPPER': DRIVER,
            'CARGO_TARGET_DIR': tgt,
            'CARGO_NET_OFFLINE': 'true',
        })
        env.pop('RUSTC_WRAPPER', None)
        cmd = ['cargo', '+nightly', 'check', '--offline', '--lib'] + CONFIGS[cfg]
        r = subprocess.run(cmd, cwd=REPO, env=env, capture_output=True, text=True)
        if r.returncode != 0:
            raise InfraError(f'/repo does not compile in configuration {cfg}:\n' + r.stderr[-6000:])
        if not os.path.exists(tmp_out):
            raise InfraError('driver ran but wrote no fact file (cargo freshness cache?)\n' + r.stderr[-2000:])
        os.replace(tmp_out, out)
    finally:
        shutil.rmtree(tgt, ignore_errors=True)
        if os.path.exists(tmp_out):
            os.remove(tmp_out)
    # keep the cache small: drop everything that does not carry the current key
    now = time.time()
    for f in os.listdir(CACHE):
        fp = os.path.join(CACHE, f)
        if not f.startswith(key) and (f.endswith('.json') or f.endswith('.pickle')):
            try:
                if not SCRATCH_RUN or now - os.path.getmtime(fp) > 3600:
                    os.remove(fp)
            except OSError:
                pass
    return out, False


class Facts:
    def __init__(self, cfg='default'):
        t0 = time.time()
        self.cfg = cfg
        self.path, self.cached = build_facts(cfg)
        with open(self.path) as fh:
            raw = json.load(fh)
        self.bodies = {b['id']: b for b in raw['bodies']}
        self.body_list = raw['bodies']
        self.adts = {a['path']: a for a in raw['adts']}
        if len(self.bodies) < FLOORS[cfg]:
            raise InfraError(f'fact file has {len(self.bodies)} bodies, floor is {FLOORS[cfg]}')
        self.load_s = time.time() - t0

    def fn(self, name):
        return self.bodies.get(name)


_FACTS = {}


def facts(cfg='default'):
    if cfg not in _FACTS:
        _FACTS[cfg] = Facts(cfg)
    return _FACTS[cfg]


if __name__ == '__main__':
    f = facts(sys.argv[1] if len(sys.argv) > 1 else 'default')
    print(f.path, len(f.bodies), 'bodies', 'cached' if f.cached else 'fresh', f'{f.load_s:.1f}s')
