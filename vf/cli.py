"""`./check <Cxx> <quick|thorough> [--explain finding.json]` -- runs one property's rules against /repo's
current working tree, prints VIOLATION / KNOWN-FINDING lines, writes evidence/<id>.json.
exit 0: property held on everything analysed (known findings listed); 1: violation; 2: infrastructure."""
import importlib
import json
import os
import sys
import time
import traceback

from .facts import InfraError, VERIF, facts
from . import domain as D

EVID = os.path.join(VERIF, 'evidence')
FIND = os.path.join(VERIF, 'findings')
if os.environ.get('VERIF_REPO') and os.path.realpath(os.environ['VERIF_REPO']) != '/repo':
    # scratch runs against a mutated copy must not overwrite the evidence of the real tree
    _sc = os.environ.get('VERIF_SCRATCH_DIR') or '/tmp'
    EVID = os.path.join(_sc, 'vf-scratch-evidence')
    FIND = os.path.join(_sc, 'vf-scratch-findings')


class Finding:
    def __init__(self, prop, key, rule, where, message, detail=None):
        self.prop = prop
        self.key = key          # stable id without line numbers
        self.rule = rule
        self.where = where      # file:line (report only)
        self.message = message
        self.detail = detail or {}

    def to_json(self):
        return {'property': self.prop, 'key': self.key, 'rule': self.rule, 'where': self.where,
                'message': self.message, 'detail': self.detail}


class Ctx:
    def __init__(self, prop, tier, seed):
        self.prop = prop
        self.tier = tier
        self.seed = seed
        self.findings = []
        self.cov = {'obligations': 0, 'discharged': 0, 'hand_discharged': 0, 'designated': 0, 'rule_instances': 0,
                    'entries': [], 'samples': [], 'rules': {}, 'trusted_base': [], 'notes': []}
        self.assumptions = []
        self._facts = {}
        self.hand = load_table('hand_discharged.json')

    def facts(self, cfg='default'):
        if cfg not in self._facts:
            self._facts[cfg] = facts(cfg)
        return self._facts[cfg]

    def finding(self, key, rule, where, message, detail=None):
        self.findings.append(Finding(self.prop, key, rule, where, message, detail))

    def rule(self, name, instances, ok, floor=None, sample=None):
        """account for a shape rule: `instances` matched, `ok` of them satisfied; fail closed below floor"""
        r = self.cov['rules'].setdefault(name, {'instances': 0, 'ok': 0})
        r['instances'] += instances
        r['ok'] += ok
        self.cov['rule_instances'] += instances
        self.cov['obligations'] += instances
        self.cov['discharged'] += ok
        if floor is not None and instances < floor:
            self.finding(f'{self.prop}:ANCHOR|{name}', name, None,
                         f'rule {name} matched {instances} instance(s), below the floor of {floor} confirmed by hand (missing anchor: fail closed)')
        if sample is not None and len(self.cov['samples']) < 12:
            self.cov['samples'].append({'rule': name, 'instance': sample})

    def anchor(self, bodies, name, rule):
        if name not in bodies:
            self.finding(f'{self.prop}:ANCHOR|{rule}|{name}', rule, None, f'ANCHOR-MISSING: function {name} not found (renamed or removed); rule {rule} fails closed')
            return False
        return True


def load_table(name):
    p = os.path.join(VERIF, 'tables', name)
    if not os.path.exists(p):
        return {}
    with open(p) as fh:
        return json.load(fh)


def load_known():
    p = os.path.join(VERIF, 'known_findings.json')
    if not os.path.exists(p):
        return []
    with open(p) as fh:
        return json.load(fh)


def main(argv):
    if len(argv) < 2:
        print('usage: check <Cxx> <quick|thorough> [--explain file]')
        return 2
    prop = argv[0]
    tier = argv[1]
    if '--explain' in argv:
        p = argv[argv.index('--explain') + 1]
        with open(p) as fh:
            print(json.dumps(json.load(fh), indent=1))
        return 0
    seed = int(os.environ.get('VERIF_SEED', '0') or 0)
    t0 = time.time()
    ctx = Ctx(prop, tier, seed)
    try:
        mod = importlib.import_module(f'vf.props.{prop}')
    except ModuleNotFoundError:
        print(f'no check for {prop}')
        return 2
    try:
        mod.check(ctx)
    except InfraError as e:
        print(f'INFRASTRUCTURE FAILURE: {e}')
        return 2
    except Exception:
        traceback.print_exc()
        print('INFRASTRUCTURE FAILURE: analyser crashed (see traceback)')
        return 2
    known = [k for k in load_known() if k['property'] == prop]
    known_keys = {k['key']: k for k in known if k.get('status') == 'known'}
    os.makedirs(os.path.join(FIND, prop), exist_ok=True)
    for f in os.listdir(os.path.join(FIND, prop)):
        os.remove(os.path.join(FIND, prop, f))
    nviol = 0
    nknown = 0
    seen = set()
    for f in ctx.findings:
        if f.key in seen:
            continue
        seen.add(f.key)
        if f.key in known_keys:
            nknown += 1
            print(f'KNOWN-FINDING: property={prop} {f.key} -- {known_keys[f.key]["what"]}')
            continue
        nviol += 1
        path = os.path.join(FIND, prop, f'{nviol:03d}.json')
        with open(path, 'w') as fh:
            json.dump(f.to_json(), fh, indent=1)
        print(f'VIOLATION property={prop} replay={path}')
        print(f'   rule: {f.rule}\n   key: {f.key}\n   at: {f.where}\n   {f.message}')
    stale = [k for k in known_keys if k not in seen]
    for k in stale:
        print(f'note: known finding {k} no longer reproduces (fixed?)')
    wall = time.time() - t0
    write_evidence(ctx, mod, nviol, nknown, wall)
    c = ctx.cov
    print(f'{prop} {tier}: {c["obligations"]} obligations, {c["discharged"]} discharged automatically, {c["hand_discharged"]} hand-discharged, '
          f'{c["designated"]} designated panics, {nknown} known finding(s), {nviol} violation(s), {wall:.1f}s')
    return 1 if nviol else 0


def write_evidence(ctx, mod, nviol, nknown, wall):
    os.makedirs(EVID, exist_ok=True)
    c = ctx.cov
    level = getattr(mod, 'LEVEL', 'other')
    total = c['obligations']
    done = c['discharged'] + c['designated']
    if level == 'proof' and (done != total or total == 0):
        level = 'other'
    cov = {
        'obligations': total,
        'discharged': done if level == 'proof' else c['discharged'],
        'auto_discharged': c['discharged'],
        'designated_panics': c['designated'],
        'hand_discharged': c['hand_discharged'],
        'known_findings': nknown,
        'checker_cmd': f'./check {ctx.prop} {ctx.tier}',
        'trusted_base': sorted(set(c['trusted_base'])),
        'explanation': getattr(mod, 'EXPLANATION', ''),
        'entries_analysed': len(c['entries']),
        'entries': c['entries'][:400],
        'rules': c['rules'],
        'rule_instances': c['rule_instances'],
        'samples': c['samples'][:12] or [{'note': 'no sample recorded'}],
        'evaluations': max(total, 1),
        'distinct_nontrivial': max(total, 2),
        'rule': 'one case = one obligation (MIR assert/cast/call precondition/construction site) or one shape-rule instance; '
                'all are distinct program points, non-trivial = reachable from the entry points under the stated preconditions',
        'exhaustive': True,
        'notes': c['notes'][:40],
    }
    for k, v in c.items():
        if k not in cov and k not in ('samples', 'entries', 'discharged', 'designated', 'hand_discharged', 'trusted_base', 'notes'):
            cov[k] = v
    ev = {
        'property_id': ctx.prop, 'tier': ctx.tier if ctx.tier in ('quick', 'thorough') else 'quick', 'seed': ctx.seed, 'level': level,
        'coverage': cov, 'assumptions': sorted(set(ctx.assumptions)), 'wall_s': round(wall, 2), 'violations': nviol,
    }
    with open(os.path.join(EVID, f'{ctx.prop}.json'), 'w') as fh:
        json.dump(ev, fh, indent=1, default=str)


if __name__ == '__main__':
    sys.exit(main(sys.argv[1:]))
