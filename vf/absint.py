"""E2: path-sensitive abstract interpreter over the MIR facts (see DESIGN.md section 2).

Nothing here runs astrolabe code: values are over-approximations valid for all inputs.
"""
import heapq
import itertools
from . import domain as D
from .domain import St, INF

OPTION = 'std::option::Option'
RESULT = 'std::result::Result'
CFLOW = 'std::ops::ControlFlow'
ORDERING = 'std::cmp::Ordering'
STD_ENUMS = {
    OPTION: [('None', 0, 0), ('Some', 1, 1)],
    RESULT: [('Ok', 0, 1), ('Err', 1, 1)],
    CFLOW: [('Continue', 0, 1), ('Break', 1, 1)],
    ORDERING: [('Less', -1, 0), ('Equal', 0, 0), ('Greater', 1, 0)],
}
OBJ_TYPES = ('std::string::String', 'std::vec::Vec', 'std::collections::HashSet')

UNIT = ('t', ())


def tyname(ty):
    k = ty['k']
    if k == 'int':
        return ty['name']
    if k in ('bool', 'char'):
        return k
    return None


_TYCACHE = {}


def ty_of_name(n):
    t = _TYCACHE.get(n)
    if t is None:
        if n == 'bool' or n == 'char':
            t = {'k': n}
        else:
            bits = 64 if n in ('usize', 'isize') else int(n[1:])
            t = {'k': 'int', 's': n[0] == 'i', 'bits': bits, 'name': n}
        _TYCACHE[n] = t
    return t


def range_of_name(n):
    return D.int_range(ty_of_name(n))


def ival(vid, tn):
    return ('i', vid, tn)


def const_int(n, tn):
    return ('i', D.const_vid(n), tn)


class StrV:
    """str-lite: an immutable string slice value (&str) or the content of a String object"""
    __slots__ = ('len', 'lits', 'first', 'ascii', 'ident', 'digits', 'tail_digits', 'nchars', 'rest_of')
    _ids = itertools.count(1)

    def __init__(self, len_vid, lits=None, first=None, ascii_=None, ident=None, digits=False):
        self.len = len_vid
        self.lits = lits
        self.first = first
        self.ascii = ascii_
        self.ident = ident if ident is not None else next(StrV._ids)
        self.digits = digits
        self.tail_digits = False
        self.nchars = None      # (lo, hi) number of chars when known
        self.rest_of = None     # (ident of the string this is the tail of, chars taken before it)

    def __repr__(self):
        return f'StrV(len=v{self.len}, lits={sorted(self.lits) if self.lits else None}, first={self.first!r}, ascii={self.ascii}, id={self.ident})'


class Obl:
    """one obligation site, aggregated over all contexts that reach it"""
    __slots__ = ('key', 'kind', 'fn', 'sub', 'ordinal', 'span', 'ok', 'fail', 'samples', 'entries', 'causes')

    def __init__(self, key, kind, fn, sub, ordinal, span):
        self.key = key
        self.kind = kind
        self.fn = fn
        self.sub = sub
        self.ordinal = ordinal
        self.span = span
        self.ok = 0
        self.fail = 0
        self.samples = []
        self.entries = set()
        self.causes = set()

    def id(self):
        return f'{self.kind}|{self.fn}|{self.sub}|{self.ordinal}'


class PathEnd(Exception):
    pass


class Budget(Exception):
    pass


class Interp:
    def __init__(self, facts, unroll=3, max_disj=400, max_steps=2000000):
        self.facts = facts
        self.bodies = facts.bodies
        self.adts = facts.adts
        self.unroll = unroll
        self.max_disj = max_disj
        self.max_steps = max_steps
        self.steps = 0
        self.obl = {}
        self.unmodelled = {}
        self.notes = {}
        self.contracts = {}     # fn id -> callable(interp, st, args, dest_ty, site) -> list[(st,val)]
        self.observers = {}     # fn id -> callable(interp, st, args, site)   (called before the call is executed)
        self.agg_hooks = []     # callable(interp, st, path, variant, fields, site)
        self.panic_hooks = []
        self.partition_prefixes = {}   # module prefix -> partition function for every function of that module
        self.unroll_for = {'util::date::convert::days_to_date': 16, 'util::date::convert::weekdays_in_month': 8}
        self.return_hooks = []  # callable(interp, fn, depth, results) at every return of an inlined crate function
        self.cur_entry = None
        self.stack = []
        self._fid = itertools.count(1)
        self.site_oids = {}
        self._jc = {}
        self.watch = {}
        self._watch_names = {}
        self.slice_of = {}
        self.slice_end_is_len = {}
        self.int_text = {}
        self.parsed_from = {}
        self.seg = {}        # StrV ident -> segment list (symbolic text: literals, zero-padded numbers, ...)
        self.opaque_callables = False
        self._leqmap = {}
        self._cell = itertools.count(1)
        self._oid = itertools.count(1)
        self._cfg = {}
        self._ord = {}
        self.models = {}
        self.model_preds = []
        self.models_used = {}
        self.const_cache = {}
        self.return_partition = {}   # fn id -> callable(interp, st, retval) -> hashable key; results with equal keys are joined
        from . import models
        models.install(self)

    # ------------------------------------------------------------------ bookkeeping
    def note(self, what):
        self.notes[what] = self.notes.get(what, 0) + 1

    _CALLKINDS = {'UNWRAP': 'CALL', 'PANIC': 'CALL', 'STDPRE': 'CALL', 'UNMODELLED': 'CALL', 'OOR': 'AGG', 'INV': 'AGG'}

    def site(self, fn, kind, sub, bb, si, span):
        """obligation record for a program point; ordinal = index among same (kind,sub) in the function, MIR order"""
        table = self._ordtable(fn)
        ordinal = table.get((self._CALLKINDS.get(kind, kind), sub, bb, si))
        if ordinal is None:
            ordinal = table.get(('CALL', sub, bb, si), 0)
        key = (kind, fn, sub, ordinal)
        o = self.obl.get(key)
        if o is None:
            o = Obl(key, kind, fn, sub, ordinal, span)
            self.obl[key] = o
        return o

    def _ordtable(self, fn):
        t = self._cfg.get(('ord', fn))
        if t is not None:
            return t
        t = {}
        cnt = {}
        body = self.bodies[fn]

        def add(kind, sub, bb, si):
            n = cnt.get((kind, sub), 0)
            cnt[(kind, sub)] = n + 1
            t[(kind, sub, bb, si)] = n
        for bi, blk in enumerate(body['blocks']):
            for si, s in enumerate(blk['stmts']):
                if s['s'] == 'assign':
                    rv = s['rv']
                    if rv['r'] == 'cast' and rv['kind'] == 'IntToInt':
                        add('CAST', self._cast_sub(body, rv), bi, si)
                    elif rv['r'] == 'agg' and rv['kind'].get('a') == 'adt':
                        add('AGG', rv['kind']['path'], bi, si)
            tm = blk['term']
            if tm['t'] == 'assert':
                add('ARITH' if tm['kind'] != 'bounds' else 'BOUNDS', tm['kind'] + (':' + tm['op'] if 'op' in tm else ''), bi, -1)
            elif tm['t'] == 'call':
                f = tm['func']
                add('CALL', f.get('id') or f.get('decl') or '?', bi, -1)
        self._cfg[('ord', fn)] = t
        return t

    def _cast_sub(self, body, rv):
        a = rv['a']
        src = '?'
        if a['o'] == 'const':
            src = tyname(a['const']['ty']) or '?'
        else:
            pl = a['place']
            if not pl['p']:
                src = tyname(body['locals'][pl['l']]) or '?'
        return f"{src}->{tyname(rv['to']) or '?'}"

    def dump_frame(self, st, fid):
        fr = st.frames.get(fid)
        if fr is None:
            return {}
        body = self.bodies[fr[-1]]
        out = {}
        for l, n in body.get('names', []):
            v = fr.get(l)
            if v is not None:
                out[n] = self.describe(st, v)
        return out

    def record(self, o, ok, st, detail=None, cause=None):
        o.entries.add(self.cur_entry)
        if not ok and getattr(self, 'debug', False):
            fids = [f for f in st.frames if f != 0]
            print('  [debug] FAIL', o.id(), detail, '\n     locals:', self.dump_frame(st, max(fids)) if fids else None)
        if ok:
            o.ok += 1
        else:
            o.fail += 1
            if cause is not None:
                o.causes.add(cause)
            if len(o.samples) < 3:
                o.samples.append({'entry': self.cur_entry, 'detail': detail, 'stack': [f for f, _ in self.stack]})

    # ------------------------------------------------------------------ types / tops
    def adt_info(self, path):
        return self.adts.get(path)

    def top(self, st, ty, name='?', depth=0, lo=None, hi=None):
        k = ty['k']
        tn = tyname(ty)
        if tn:
            r = D.int_range(ty)
            l = r[0] if lo is None else max(lo, r[0])
            h = r[1] if hi is None else min(hi, r[1])
            v = D.sym_vid(l, h, name)
            st.iv[v] = (l, h)
            return ('i', v, tn)
        if depth > 6:
            return ('top', ty)
        if k == 'tuple':
            return ('t', tuple(self.top(st, t, f'{name}.{i}', depth + 1) for i, t in enumerate(ty['elems'])))
        if k == 'array' and ty['len'] is not None and ty['len'] <= 64:
            return ('a', tuple(self.top(st, ty['elem'], f'{name}[{i}]', depth + 1) for i in range(ty['len'])))
        if k == 'adt':
            p = ty['path']
            if p in STD_ENUMS:
                vs = {}
                for (vn, dv, nf) in STD_ENUMS[p]:
                    if p == OPTION:
                        fs = (self.top(st, ty['args'][0], f'{name}.Some', depth + 1),) if nf else ()
                    elif p == RESULT:
                        fs = (self.top(st, ty['args'][0 if vn == 'Ok' else 1], f'{name}.{vn}', depth + 1),)
                    elif p == CFLOW:
                        fs = (self.top(st, ty['args'][1 if vn == 'Continue' else 0], f'{name}.{vn}', depth + 1),) if len(ty['args']) == 2 else (('top', None),)
                    else:
                        fs = ()
                    vs[STD_ENUMS[p].index((vn, dv, nf))] = fs
                return ('e', p, vs)
            a = self.adts.get(p)
            if a is not None:
                if a['is_enum']:
                    return ('e', p, {i: tuple(self.top(st, f['ty'], f'{name}.{v["name"]}.{f["name"]}', depth + 1) for f in v['fields'])
                                     for i, v in enumerate(a['variants'])})
                v = a['variants'][0]
                return ('s', p, tuple(self.top(st, f['ty'], f'{name}.{f["name"]}', depth + 1) for f in v['fields']), None)
            if p in OBJ_TYPES:
                return self.new_obj(st, p, ty, name)
            if p == 'std::time::Duration':
                from .models import dur_top
                return dur_top(self, st, name)
            if p in ('std::ops::RangeInclusive', 'std::ops::Range'):
                e = ty['args'][0]
                fs = (self.top(st, e, name + '.start', depth + 1), self.top(st, e, name + '.end', depth + 1))
                if p == 'std::ops::RangeInclusive':
                    fs = fs + (const_int(0, 'bool'),)
                return ('s', p, fs, None)
            return ('top', ty)
        if k == 'ref' or k == 'ptr':
            to = ty['to']
            if to['k'] == 'str':
                return ('str', self.fresh_str(st, name))
            if to['k'] == 'slice':
                return ('slice', self.fresh_slice(st, to['elem'], name))
            inner = self.top(st, to, '*' + name, depth + 1)
            return ('r', self.alloc(st, inner))
        return ('top', ty)

    def fresh_str(self, st, name='str', lo=0, hi=None):
        if hi is None:
            hi = (1 << 63) - 1
        v = D.sym_vid(lo, hi, f'len({name})')
        st.iv[v] = (lo, hi)
        return StrV(v)

    def lit_str(self, st, s):
        b = s.encode()
        return StrV(D.const_vid(len(b)), lits=frozenset([s]), first=s[0] if s else None, ascii_=all(c < 128 for c in b))

    def fresh_slice(self, st, elem_ty, name='slice', lo=0, hi=None):
        if hi is None:
            hi = (1 << 63) - 1
        v = D.sym_vid(lo, hi, f'len({name})')
        st.iv[v] = (lo, hi)
        return {'len': v, 'elems': None, 'elem_ty': elem_ty, 'ident': next(StrV._ids)}

    def new_obj(self, st, path, ty, name='obj'):
        oid = next(self._oid)
        if path == 'std::string::String':
            st.objs[oid] = ('String', self.fresh_str(st, name))
        elif path == 'std::vec::Vec':
            v = D.sym_vid(0, (1 << 63) - 1, f'len({name})')
            st.iv[v] = (0, (1 << 63) - 1)
            st.objs[oid] = ('Vec', v, ty['args'][0] if ty and ty.get('args') else None, None)
        else:
            v = D.sym_vid(0, (1 << 63) - 1, f'len({name})')
            st.iv[v] = (0, (1 << 63) - 1)
            st.objs[oid] = ('Set', v, ty['args'][0] if ty and ty.get('args') else None)
        return ('obj', oid, path)

    def alloc(self, st, val):
        c = next(self._cell)
        fr = dict(st.frames.get(0, {}))
        fr[c] = val
        st.frames[0] = fr
        return (0, c, ())

    # ------------------------------------------------------------------ places
    def subst_ty(self, ty, sub):
        if not sub or ty is None:
            return ty
        k = ty.get('k')
        if k == 'param':
            return sub.get(ty['name'], ty)
        if k in ('ref', 'ptr'):
            t = self.subst_ty(ty['to'], sub)
            return ty if t is ty['to'] else dict(ty, to=t)
        if k == 'tuple':
            es = [self.subst_ty(t, sub) for t in ty['elems']]
            return ty if all(a is b for a, b in zip(es, ty['elems'])) else dict(ty, elems=es)
        if k in ('slice', 'array'):
            t = self.subst_ty(ty['elem'], sub)
            return ty if t is ty['elem'] else dict(ty, elem=t)
        if k == 'adt' and ty.get('args'):
            es = [self.subst_ty(t, sub) for t in ty['args']]
            return ty if all(a is b for a, b in zip(es, ty['args'])) else dict(ty, args=es)
        return ty

    def local_ty(self, st, fid, local):
        fr = st.frames[fid]
        b = fr.get(-1)
        if b is None:
            return None
        ty = self.bodies[b]['locals'][local]
        sub = fr.get(-2)
        return self.subst_ty(ty, sub) if sub else ty

    def proj_ty(self, ty, p):
        if ty is None:
            return None
        k = ty['k']
        if p['k'] == 'deref':
            return ty.get('to') if k in ('ref', 'ptr') else None
        if p['k'] == 'field':
            if k == 'tuple':
                return ty['elems'][p['i']] if p['i'] < len(ty['elems']) else None
            if k == 'adt':
                a = self.adts.get(ty['path'])
                if a is not None:
                    v = a['variants'][ty.get('_dc', 0)]
                    return v['fields'][p['i']]['ty'] if p['i'] < len(v['fields']) else None
                if ty['path'] == OPTION and ty.get('_dc') == 1:
                    return ty['args'][0]
                if ty['path'] == RESULT:
                    return ty['args'][ty.get('_dc', 0)] if ty.get('_dc', 0) < len(ty['args']) else None
                if ty['path'] == CFLOW and len(ty['args']) == 2:
                    return ty['args'][1 if ty.get('_dc', 0) == 0 else 0]
            return None
        if p['k'] == 'downcast':
            t = dict(ty)
            t['_dc'] = p['v']
            return t
        if p['k'] in ('index', 'cindex'):
            return ty.get('elem') if k in ('array', 'slice') else None
        return None

    def resolve(self, st, fid, place):
        """-> ('L', fid, local, proj) or ('V', value, proj) for places inside fat/opaque pointees"""
        cf, cl, cp = fid, place['l'], []
        fat = None
        for p in place['p']:
            if p['k'] == 'deref':
                v = self.read_resolved(st, ('L', cf, cl, tuple(cp))) if fat is None else self.apply_proj(st, fat, cp)
                if v is None:
                    return ('V', ('top', None), ())
                if v[0] == 'r':
                    cf, cl, pp = v[1]
                    cp = list(pp)
                    fat = None
                else:
                    # &str / &[T] / opaque reference: the pointee is the fat value itself
                    fat = v
                    cp = []
            elif p['k'] == 'index':
                idx = self.read_local(st, fid, p['local'])
                cp.append(('ix', idx))
            elif p['k'] == 'field':
                cp.append(('f', p['i']))
            elif p['k'] == 'downcast':
                cp.append(('d', p['v']))
            elif p['k'] == 'cindex':
                cp.append(('ci', p['offset'], p['from_end']))
            else:
                cp.append(('?', p.get('text')))
        if fat is not None:
            return ('V', fat, tuple(cp))
        return ('L', cf, cl, tuple(cp))

    def read_local(self, st, fid, local):
        v = st.frames[fid].get(local)
        if v is None:
            ty = self.local_ty(st, fid, local)
            v = self.top(st, ty, f'_{local}') if ty is not None else ('top', None)
            self.write_local(st, fid, local, v)
        return v

    def write_local(self, st, fid, local, val):
        fr = dict(st.frames[fid])
        fr[local] = val
        st.frames[fid] = fr

    def apply_proj(self, st, v, proj):
        for p in proj:
            if v is None:
                return None
            k = p[0]
            if k == 'f':
                i = p[1]
                if v[0] == 't':
                    v = v[1][i] if i < len(v[1]) else None
                elif v[0] == 's':
                    v = v[2][i] if i < len(v[2]) else None
                elif v[0] == 'ev':  # downcasted enum
                    fs = v[1]
                    v = fs[i] if fs is not None and i < len(fs) else None
                elif v[0] == 'clo':
                    v = v[2][i] if i < len(v[2]) else None
                else:
                    v = None
            elif k == 'd':
                if v[0] == 'e':
                    v = ('ev', v[2].get(p[1]))
                else:
                    v = None
            elif k in ('ix', 'ci'):
                if v[0] == 'a':
                    if k == 'ci' and not p[2]:
                        v = v[1][p[1]] if p[1] < len(v[1]) else None
                    elif k == 'ix' and p[1][0] == 'i':
                        lo, hi = D.get_iv(st, p[1][1])
                        if lo == hi and 0 <= lo < len(v[1]):
                            v = v[1][lo]
                        else:
                            v = self.join_many(st, [v[1][i] for i in range(max(0, int(lo) if lo != -INF else 0), min(len(v[1]), (int(hi) if hi != INF else len(v[1])) + 1))])
                    else:
                        v = None
                elif v[0] == 'slice' and v[1].get('elems') is not None and k == 'ix' and p[1][0] == 'i':
                    els = v[1]['elems']
                    lo, hi = D.get_iv(st, p[1][1])
                    if lo == hi and 0 <= lo < len(els):
                        v = els[lo]
                    else:
                        v = self.join_many(st, list(els))
                elif v[0] == 'slice' and v[1].get('elems') is not None and k == 'ci' and not p[2] and p[1] < len(v[1]['elems']):
                    v = v[1]['elems'][p[1]]          # a slice pattern `[a, b, ..]` on a slice whose first elements are tracked
                elif v[0] == 'slice':
                    ety = v[1].get('elem_ty')
                    v = self.top(st, ety, 'elem') if ety is not None else None
                else:
                    v = None
            else:
                v = None
        return v

    def read_resolved(self, st, rp):
        if rp[0] == 'V':
            return self.apply_proj(st, rp[1], rp[2])
        _, fid, local, proj = rp
        if fid not in st.frames:
            return None
        base = self.read_local(st, fid, local) if fid != 0 else st.frames[0].get(local)
        return self.apply_proj(st, base, proj)

    def read_place(self, st, fid, place, ty_hint=None):
        rp = self.resolve(st, fid, place)
        v = self.read_resolved(st, rp)
        if v is None or v[0] == 'ev':
            ty = ty_hint if ty_hint is not None else self.place_ty(st, fid, place)
            v = self.top(st, ty, 'unk') if ty is not None else ('top', None)
            self.note('read of unknown place')
        return v

    def place_ty(self, st, fid, place):
        ty = self.local_ty(st, fid, place['l'])
        for p in place['p']:
            ty = self.proj_ty(ty, p)
            if ty is None:
                return None
        if ty is not None and '_dc' in ty:
            return None
        return ty

    def _rebuild(self, st, base, proj, val):
        if not proj:
            return val
        p = proj[0]
        rest = proj[1:]
        if base is None:
            return None
        if p[0] == 'f':
            i = p[1]
            if base[0] == 't':
                l = list(base[1])
                if i >= len(l):
                    return None
                l[i] = self._rebuild(st, l[i], rest, val)
                return ('t', tuple(l))
            if base[0] == 's':
                l = list(base[2])
                if i >= len(l):
                    return None
                l[i] = self._rebuild(st, l[i], rest, val)
                return ('s', base[1], tuple(l), base[3])
            return None
        if p[0] == 'd':
            if base[0] == 'e' and rest and rest[0][0] == 'f':
                vs = dict(base[2])
                fs = vs.get(p[1])
                if fs is None:
                    return None
                l = list(fs)
                i = rest[0][1]
                if i >= len(l):
                    return None
                l[i] = self._rebuild(st, l[i], rest[1:], val)
                vs[p[1]] = tuple(l)
                return ('e', base[1], vs)
            return None
        if p[0] in ('ix', 'ci') and base[0] == 'a':
            idx = None
            if p[0] == 'ci' and not p[2]:
                idx = p[1]
            elif p[0] == 'ix' and p[1][0] == 'i':
                lo, hi = D.get_iv(st, p[1][1])
                if lo == hi:
                    idx = lo
            l = list(base[1])
            if idx is not None and 0 <= idx < len(l):
                l[idx] = self._rebuild(st, l[idx], rest, val)
            else:
                for j in range(len(l)):
                    nv = self._rebuild(st, l[j], rest, val)
                    l[j] = self.join_val(st, st, st, l[j], nv) if nv is not None else ('top', None)
            return ('a', tuple(l))
        return None

    def write_resolved(self, st, rp, val):
        if rp[0] == 'V':
            self.note('write through opaque reference dropped')
            return
        _, fid, local, proj = rp
        if fid not in st.frames:
            return
        if not proj:
            self.write_local(st, fid, local, val)
            return
        base = self.read_local(st, fid, local) if fid != 0 else st.frames[0].get(local)
        nv = self._rebuild(st, base, proj, val)
        if nv is None:
            self.note('write into unknown structure: local havocked')
            ty = self.local_ty(st, fid, local) if fid != 0 else None
            nv = ('top', ty)
        self.write_local(st, fid, local, nv)

    def write_place(self, st, fid, place, val):
        if self.watch and not place['p']:
            fr = st.frames.get(fid)
            fn = fr.get(-1) if fr else None
            w = self.watch.get(fn)
            if w:
                nm = self._watch_names.get(fn)
                if nm is None:
                    nm = self._watch_names[fn] = {l: n for l, n in self.bodies[fn].get('names', []) if n in w}
                n = nm.get(place['l'])
                if n is not None:
                    st.trace = st.trace + (('wset', fn, n, val),)      # the values a property module asked to see
        self.write_resolved(st, self.resolve(st, fid, place), val)

    # ------------------------------------------------------------------ constants
    def const_struct(self, st, v):
        k = v['v']
        if k == 'int':
            return const_int(int(v['n']), tyname(v['ty']))
        if k == 'str':
            return ('str', self.lit_str(st, v['s']))
        if k == 'tuple':
            return ('t', tuple(self.const_struct(st, f) for f in v['fields']))
        if k == 'array':
            return ('a', tuple(self.const_struct(st, f) for f in v['fields']))
        if k == 'adt':
            p = v['ty']['path']
            fs = tuple(self.const_struct(st, f) for f in v['fields'])
            a = self.adts.get(p)
            if p in STD_ENUMS or (a is not None and a['is_enum']):
                return ('e', p, {v['variant'] or 0: fs})
            return ('s', p, fs, None)
        return ('top', v.get('ty'))

    def operand(self, st, fid, o):
        if o['o'] in ('copy', 'move'):
            return self.read_place(st, fid, o['place'])
        c = o.get('const')
        if c is None:
            return ('top', None)
        cc = c['c']
        if cc == 'int':
            return const_int(int(c['v']), tyname(c['ty']))
        if cc == 'str':
            return ('str', self.lit_str(st, c['v']))
        if cc == 'val':
            return self.const_struct(st, c['val'])
        if cc == 'fn':
            return ('fn', c['id'], (c.get('ty') or {}).get('args'))
        if cc == 'other':
            named = c.get('named')
            if named in self.bodies:
                outs = self.call_body(st, named, [], ('const', named))
                if len(outs) == 1:
                    s2, v = outs[0]
                    # constants are evaluated in place: adopt the state changes (new cells / intervals)
                    st.frames = s2.frames; st.iv = s2.iv; st.objs = s2.objs
                    return v
            if c['ty']['k'] == 'tuple' and not c['ty']['elems']:
                return UNIT
            txt = c.get('text') or ''
            if txt.startswith('b"') and c['ty']['k'] == 'ref':
                # byte-string literal: an array of constant bytes behind a reference
                try:
                    import ast
                    bs = ast.literal_eval(txt)
                    arr = ('a', tuple(const_int(b, 'u8') for b in bs))
                    return ('r', self.alloc(st, arr))
                except Exception:
                    pass
            if c['ty']['k'] == 'fndef':
                return ('fn', c['ty']['id'], c['ty'].get('args'))      # (the generic arguments as printed by rustc, e.g. "[u32]")
            if c['ty']['k'] == 'closure':
                return ('clo', c['ty']['id'], ())
            return self.top(st, c['ty'], 'const')
        return ('top', c.get('ty'))

    # ------------------------------------------------------------------ arithmetic
    def binop(self, st, op, a, b, dest_ty, fn, where):
        base = op.replace('WithOverflow', '')
        checked = op.endswith('WithOverflow')
        if a[0] != 'i' or b[0] != 'i':
            if base in D.CMP_SETS:
                return self.top(st, {'k': 'bool'}, 'cmp')
            return self.top(st, dest_ty, 'binop')
        va, vb = a[1], b[1]
        ia, ib = D.get_iv(st, va), D.get_iv(st, vb)
        if base in D.CMP_SETS:
            t, f = D.cmp_possible(st, base, va, vb)
            if va in D.CONSTVAL and vb in D.CONSTVAL and t != f:
                return const_int(1 if t else 0, 'bool')          # two constants: the comparison is a constant
            v = D.term_vid(st, (base, va, vb), 0 if f else 1, 1 if t else 0)
            return ('i', v, 'bool')
        rty = dest_ty['elems'][0] if checked else dest_ty
        tn = tyname(rty) or a[2]
        tr = range_of_name(tn)
        aff = None
        term = None
        if base == 'Add':
            r = D.iv_add(ia, ib)
            aff = D.aff_add(D.aff_of(va), D.aff_of(vb))
            term = ('Add',) + tuple(sorted((va, vb)))
        elif base == 'Sub':
            r = D.iv_sub(ia, ib)
            rel_ab = D.rel_get(st, vb, va)
            if rel_ab and not (rel_ab - frozenset('<=')):
                r = (max(r[0], 0 if '=' in rel_ab else 1), r[1])        # b <= a is a fact of this path: the difference is not negative
            aff = D.aff_add(D.aff_of(va), D.aff_of(vb), -1)
            for (y_, c_, q_, r_) in D.TRIPLES.get(vb, ()):
                if r_ == vb and (y_ == va or (D.aff_of(y_).key() == D.aff_of(va).key() and D.aff_of(y_).c0 == D.aff_of(va).c0 and not D.aff_of(y_).mod)):
                    aff = D.aff_scale(D.aff_of(q_), c_)      # y - y % c is c * (y / c), exactly
                    break
            term = ('Sub', va, vb)
        elif base == 'Mul':
            r = D.iv_mul(ia, ib)
            if va in D.CONSTVAL:
                aff = D.aff_scale(D.aff_of(vb), D.CONSTVAL[va])
            elif vb in D.CONSTVAL:
                aff = D.aff_scale(D.aff_of(va), D.CONSTVAL[vb])
            term = ('Mul',) + ((vb, va) if va in D.CONSTVAL else (va, vb))
        elif base in ('Div', 'Rem'):
            if ib[0] <= 0 <= ib[1]:
                # the DivisionByZero assert precedes this statement; on this path b != 0.
                if ib[0] == 0 and ib[1] > 0:
                    ib = (1, ib[1])
                elif ib[1] == 0 and ib[0] < 0:
                    ib = (ib[0], -1)
                else:
                    return self.top(st, rty, 'div')
            r = D.iv_div(ia, ib) if base == 'Div' else D.iv_rem(ia, ib)
            term = (base, va, vb)
            if base == 'Div' and vb in D.CONSTVAL and D.CONSTVAL[vb] == 1:
                return ('i', va, tn)
            if vb in D.CONSTVAL and D.CONSTVAL[vb] > 1 and va not in D.CONSTVAL:
                c = D.CONSTVAL[vb]
                if base == 'Rem' and ia[0] >= 0 and ia[1] < c:
                    return a if a[2] == tn else ('i', va, tn)
                q, rr = D.divmod_vids(st, va, c)
                res = q if base == 'Div' else rr
                if base == 'Rem' and res not in D.AFF:
                    pass
                lo, hi = D.get_iv(st, res)
                D.set_iv(st, res, max(lo, r[0], tr[0]), min(hi, r[1], tr[1]))
                lo, hi = D.get_iv(st, res)
                if lo == hi and res not in D.CONSTVAL and not st.dead:
                    # on this path the quotient / remainder is one known number (e.g. after a comparison of the same quotient): use it, so that
                    # later arithmetic folds exactly as it does when the code stores the compared value in a variable
                    return ('i', D.const_vid(int(lo)), tn)
                return ('i', res, tn)
        elif base in ('BitAnd', 'BitOr', 'BitXor') and tn == 'bool':
            if base == 'BitAnd':
                r = (min(ia[0], ib[0]), min(ia[1], ib[1]))
            elif base == 'BitOr':
                r = (max(ia[0], ib[0]), max(ia[1], ib[1]))
            else:
                r = (0, 1)
            term = (base,) + tuple(sorted((va, vb)))
        elif base == 'BitAnd' and tn != 'bool' and ((vb in D.CONSTVAL and D.CONSTVAL[vb] > 0 and (D.CONSTVAL[vb] & (D.CONSTVAL[vb] + 1)) == 0)
                                                      or (va in D.CONSTVAL and D.CONSTVAL[va] > 0 and (D.CONSTVAL[va] & (D.CONSTVAL[va] + 1)) == 0)):
            # x & (2^k - 1) is the Euclidean remainder of x modulo 2^k, for signed x too (two's complement)
            x, mask = (va, D.CONSTVAL[vb]) if vb in D.CONSTVAL else (vb, D.CONSTVAL[va])
            if x in D.CONSTVAL:
                return const_int(D.CONSTVAL[x] & mask, tn)
            q_, r_ = D.divmod_euclid(st, x, mask + 1, force=True)        # (always the Euclidean triple: the same value has the same name on every path)
            return ('i', r_, tn)
        elif base in ('Shl', 'Shr', 'BitAnd', 'BitOr', 'BitXor'):
            if base == 'BitAnd' and ia[0] >= 0 and ib[0] >= 0:
                r = (0, min(ia[1], ib[1]))
            elif base == 'Shr' and ia[0] >= 0:
                r = (0, ia[1])
            else:
                r = tr
            term = (base, va, vb)
        else:
            return self.top(st, rty, 'binop')
        if aff is not None:
            aff = D.aff_contract(aff)
        if aff is not None and aff.mod == 0:
            ea = D.eval_aff(st, aff)
            if ea is not None:
                r = (max(r[0], ea[0]), min(r[1], ea[1]))
                if r[0] > r[1]:
                    st.dead = True
                    return self.top(st, rty, 'dead')
        alias = None
        if aff is not None and not aff.mod and base in ('Add', 'Sub', 'Mul'):
            if not aff.co:
                r = (max(r[0], aff.c0), min(r[1], aff.c0))
            elif len(aff.co) == 1 and aff.c0 == 0:
                (av, ac), = aff.co.items()
                if ac == 1 and av not in (va, vb) or ac == 1:
                    alias = av      # the result is provably the same integer as an existing value
        if alias is not None and alias not in D.CONSTVAL:
            lo_, hi_ = D.get_iv(st, alias)
            nl, nh = max(lo_, r[0]), min(hi_, r[1])
            if checked:
                ovf_possible = nl < tr[0] or nh > tr[1]
                ovf_certain = nh < tr[0] or nl > tr[1]
                if not ovf_certain and nl <= nh:
                    D.set_iv(st, alias, max(nl, tr[0]), min(nh, tr[1]))
                    flag = D.fresh_vid(st, 0, 1 if ovf_possible else 0)
                    st.discr[('ovf', flag)] = ((nl, nh), tr)
                    return ('t', (('i', alias, tn), ('i', flag, 'bool')))
            elif tr[0] <= nl and nh <= tr[1] and nl <= nh:
                D.set_iv(st, alias, nl, nh)
                return ('i', alias, tn)
        if checked:
            ovf_possible = r[0] < tr[0] or r[1] > tr[1]
            ovf_certain = r[1] < tr[0] or r[0] > tr[1]
            if ovf_certain:
                res = self.top(st, rty, 'ovf')
            elif r[0] == r[1]:
                res = const_int(r[0], tn)   # exactly known: fold to the constant
            else:
                v = D.term_vid(st, term, max(r[0], tr[0]), min(r[1], tr[1]), aff)
                res = ('i', v, tn)
            flag = D.fresh_vid(st, 1 if ovf_certain else 0, 1 if ovf_possible else 0)
            st.discr[('ovf', flag)] = (r, tr)
            return ('t', (res, ('i', flag, 'bool')))
        if r[0] < tr[0] or r[1] > tr[1]:
            # unchecked operation that may wrap
            return self.top(st, rty, 'wrapped')
        if r[0] == r[1] and tn != 'bool':
            return const_int(r[0], tn)
        v = D.term_vid(st, term, r[0], r[1], aff)
        return ('i', v, tn)

    def cast_int(self, st, a, to_ty, o=None):
        tn = tyname(to_ty)
        if a[0] != 'i' or tn is None:
            return self.top(st, to_ty, 'cast'), None
        lo, hi = D.get_iv(st, a[1])
        tr = range_of_name(tn)
        sr = range_of_name(a[2])
        widening = sr[0] >= tr[0] and sr[1] <= tr[1]
        ok = tr[0] <= lo and hi <= tr[1]
        if ok:
            return ('i', a[1], tn), (True if not widening else None)
        # lossy: value is congruent modulo 2^bits
        bits = ty_of_name(tn)['bits']
        aff = D.aff_modulo(D.aff_of(a[1]), 1 << bits)
        v = D.term_vid(st, ('cast', a[1], tn), tr[0], tr[1], aff)
        return ('i', v, tn), False

    # ------------------------------------------------------------------ refinement
    def assume_bool(self, st, v, truth):
        if v[0] != 'i':
            return True
        want = 1 if truth else 0
        return D.set_iv(st, v[1], want, want)

    # ------------------------------------------------------------------ joins
    def join_many(self, st, vals):
        vals = [v for v in vals if v is not None]
        if not vals:
            return ('top', None)
        r = vals[0]
        for v in vals[1:]:
            r = self.join_val(st, st, st, r, v)
        return r

    def join_val(self, out, s1, s2, a, b, widen=False):
        if a is b or a == b:
            if a is not None and a[0] == 'i' and s1 is not s2:
                i1, i2 = D.get_iv(s1, a[1]), D.get_iv(s2, a[1])
                out.iv[a[1]] = (min(i1[0], i2[0]), max(i1[1], i2[1]))
            return a
        if a is None or b is None:
            return ('top', None)
        if a[0] != b[0]:
            return ('top', None)
        k = a[0]
        if k == 'i':
            i1, i2 = D.get_iv(s1, a[1]), D.get_iv(s2, b[1])
            if a[1] == b[1]:
                lo, hi = min(i1[0], i2[0]), max(i1[1], i2[1])
                if widen and (lo, hi) != i1:
                    g = D.GRANGE.get(a[1], range_of_name(a[2]))
                    if lo < i1[0]:
                        lo = g[0]
                    if hi > i1[1]:
                        hi = g[1]
                out.iv[a[1]] = (lo, hi)
                return a
            lo, hi = min(i1[0], i2[0]), max(i1[1], i2[1])
            if widen and (lo, hi) != i1:
                tr = range_of_name(a[2])
                if lo < i1[0]:
                    lo = tr[0]
                if hi > i1[1]:
                    hi = tr[1]
            jc = self._jc
            hit = jc.get((a[1], b[1]))
            if hit is not None and hit in out.iv:
                # two variables that hold the same value on each side hold the same value after the join
                return ('i', hit, a[2])
            v = D.fresh_vid(out, lo, hi)
            D.TERM[v] = ('join', a[1], b[1])     # provenance only (never evaluated, never hash-consed)
            jc[(a[1], b[1])] = v
            return ('i', v, a[2])
        if k == 't':
            if len(a[1]) != len(b[1]):
                return ('top', None)
            return ('t', tuple(self.join_val(out, s1, s2, x, y, widen) for x, y in zip(a[1], b[1])))
        if k == 's':
            if a[1] != b[1] or len(a[2]) != len(b[2]):
                return ('top', None)
            org = a[3]
            if a[3] != b[3]:
                from .models import cause_of
                org = a[3] if (a[3] and b[3] and cause_of(a[3]) == cause_of(b[3])) else None
            return ('s', a[1], tuple(self.join_val(out, s1, s2, x, y, widen) for x, y in zip(a[2], b[2])), org)
        if k == 'e':
            if a[1] != b[1]:
                return ('top', None)
            vs = {}
            for vi in set(a[2]) | set(b[2]):
                fa, fb = a[2].get(vi), b[2].get(vi)
                if fa is None:
                    vs[vi] = fb
                elif fb is None:
                    vs[vi] = fa
                else:
                    vs[vi] = tuple(self.join_val(out, s1, s2, x, y, widen) for x, y in zip(fa, fb))
            return ('e', a[1], vs)
        if k == 'a':
            if len(a[1]) != len(b[1]):
                return ('top', None)
            return ('a', tuple(self.join_val(out, s1, s2, x, y, widen) for x, y in zip(a[1], b[1])))
        if k == 'str':
            x, y = a[1], b[1]
            lv = self.join_val(out, s1, s2, ('i', x.len, 'usize'), ('i', y.len, 'usize'), widen)[1]
            return ('str', StrV(lv, lits=(x.lits | y.lits) if x.lits is not None and y.lits is not None else None,
                                first=x.first if x.first == y.first else None,
                                ascii_=True if x.ascii and y.ascii else None,
                                ident=x.ident if x.ident == y.ident else None,
                                digits=x.digits and y.digits))
        if k == 'slice':
            x, y = a[1], b[1]
            lv = self.join_val(out, s1, s2, ('i', x['len'], 'usize'), ('i', y['len'], 'usize'), widen)[1]
            return ('slice', {'len': lv, 'elems': None, 'elem_ty': x.get('elem_ty'), 'ident': x['ident'] if x['ident'] == y['ident'] else next(StrV._ids)})
        if k == 'it':
            return self.join_iter(out, s1, s2, a, b, widen)
        if k == 'obj' and a[2:] == b[2:]:
            # the same collection allocated on two paths under two ids: if each id exists on its own path only, the
            # joined object lives under the first id (no alias of the second one survives a join: aliases are places)
            o1, o2 = s1.objs.get(a[1]), s2.objs.get(b[1])
            if o1 is not None and o2 is not None and a[1] not in s2.objs and b[1] not in s1.objs:
                j = self.join_obj(out, s1, s2, o1, o2, widen)
                if j is not None:
                    out.objs[a[1]] = j
                    l1, l2 = s1.objs.get(('vl', a[1])), s2.objs.get(('vl', b[1]))
                    if l1 or l2:
                        out.objs[('vl', a[1])] = tuple(dict.fromkeys(tuple(l1 or ()) + tuple(l2 or ())))
                    return a
            return ('top', None)
        if k == 'clo' and a[1] == b[1] and len(a[2]) == len(b[2]):
            return ('clo', a[1], tuple(self.join_val(out, s1, s2, x, y, widen) for x, y in zip(a[2], b[2])))
        return ('top', None)

    def join_iter(self, out, s1, s2, a, b, widen=False):
        """join of two abstract iterators (same construction, different progress)"""
        if a[1] != b[1]:
            return ('it', 'unk', None, None)
        kd = a[1]
        if kd == 'seq':
            if a[2] is b[2] or a[2] == b[2]:
                p = min(a[3], b[3])
                return ('it', 'anyof', a[2][p:], a[4])
            return ('it', 'unk', None, None)
        if kd == 'anyof':
            ea = a[2] if len(a[2]) >= len(b[2]) else b[2]
            return ('it', 'anyof', ea, a[3])
        if kd == 'enum':
            return ('it', 'enum', self.join_iter(out, s1, s2, a[2], b[2], widen) if a[2][0] == 'it' and b[2][0] == 'it' else a[2], a[3] if a[3] == b[3] else None)
        if kd in ('zip',):
            return ('it', 'zip', self.join_val(out, s1, s2, a[2], b[2], widen), self.join_val(out, s1, s2, a[3], b[3], widen))
        if kd == 'chars':
            return ('it', 'chars', a[2], a[3] if a[3] == b[3] else None) if a[2] is b[2] or a[2].ident == b[2].ident else ('it', 'unk', {'k': 'char'}, None)
        if kd == 'chunks':
            if a == b:
                return a
            sl = self.join_val(out, s1, s2, ('slice', a[2]), ('slice', b[2]), widen)
            n = self.join_val(out, s1, s2, a[3], b[3], widen)
            if sl[0] == 'slice' and n[0] == 'i':
                return ('it', 'chunks', sl[1], n)
            return ('it', 'unk', None, None)
        if kd == 'unk' and a != b and (len(a) > 4 or len(b) > 4):
            if len(a) > 4 and len(b) > 4 and a[2] == b[2] and a[3] == b[3] and a[4] is not None and b[4] is not None:
                return ('it', 'unk', a[2], a[3], self.join_val(out, s1, s2, a[4], b[4], widen))
            return ('it', 'unk', a[2] if a[2] == b[2] else None, a[3] if a[3] == b[3] else None)
        if kd in ('vec', 'strs', 'sub', 'unk'):
            return a if a == b or kd in ('vec', 'strs', 'unk') else ('it', 'unk', None, None)
        return ('it', 'unk', None, None)

    def join_obj(self, out, s1, s2, a, b, widen=False):
        if a is b:
            return a
        if a is None or b is None or a[0] != b[0]:
            return None
        if a[0] == 'String':
            return ('String', self.join_val(out, s1, s2, ('str', a[1]), ('str', b[1]), widen)[1])
        if a[0] == 'Vec':
            lv = self.join_val(out, s1, s2, ('i', a[1], 'usize'), ('i', b[1], 'usize'), widen)[1]
            ev = None
            if a[3] is not None and b[3] is not None:
                ev = self.join_val(out, s1, s2, a[3], b[3], widen)
            return ('Vec', lv, a[2], ev)
        if a[0] == 'Set':
            lv = self.join_val(out, s1, s2, ('i', a[1], 'usize'), ('i', b[1], 'usize'), widen)[1]
            return ('Set', lv, a[2])
        return None

    def join_states(self, s1, s2, widen=False):
        out = St()
        out.iv = {}
        self._jc = {}
        if s1.trace == s2.trace:
            out.trace = s1.trace
        else:
            # the recorded events of the two paths differ: keep what they have in common and say so (a rule reading the trace of a joined
            # state must not take one member's events for the events of all)
            n = 0
            for a_, b_ in zip(s1.trace, s2.trace):
                if a_ != b_:
                    break
                n += 1
            out.trace = s1.trace[:n] + (('joined',),)
        out.loops = {k: max(s1.loops.get(k, 0), s2.loops.get(k, 0)) for k in set(s1.loops) | set(s2.loops)}
        out.notes = s1.notes
        out.lin = tuple(f for f in s1.lin if any(f[0] == g[0] and f[1:] == g[1:] for g in s2.lin))
        out.tested = s1.tested | s2.tested
        out.gcmark = max(s1.gcmark, s2.gcmark)
        # intervals of shared vids: hull
        iv2 = s2.iv
        for v, i2 in iv2.items():
            if v not in s1.iv:
                out.iv[v] = i2     # created on that path only (lazy recomputations live in st.lazy, not here)
        for v, i1 in s1.iv.items():
            i2 = iv2.get(v)
            if i2 is None:
                out.iv[v] = i1     # created on this path only: no value of the other path can refer to it
                continue
            lo, hi = min(i1[0], i2[0]), max(i1[1], i2[1])
            if widen and (lo, hi) != i1:
                g = D.GRANGE.get(v, (-INF, INF))
                if lo < i1[0]:
                    lo = g[0]
                if hi > i1[1]:
                    hi = g[1]
            out.iv[v] = (lo, hi)
        for k in set(s1.rel) & set(s2.rel):
            out.rel[k] = s1.rel[k] | s2.rel[k]
        for oid in set(s1.objs) | set(s2.objs):
            a, b = s1.objs.get(oid), s2.objs.get(oid)
            if isinstance(oid, tuple):
                if oid[0] == 'vl':       # links of handed-out element references: keep all
                    out.objs[oid] = tuple(dict.fromkeys(tuple(a or ()) + tuple(b or ())))
                elif oid[0] == 'sf':     # facts about a string identity: keep what both sides know
                    if a and b:
                        f = {}
                        if a.get('ascii') and b.get('ascii'):
                            f['ascii'] = True
                        pa, pb = a.get('prefixes') or frozenset(), b.get('prefixes') or frozenset()
                        if pa & pb:
                            f['prefixes'] = pa & pb
                        if a.get('first') is not None and a.get('first') == b.get('first'):
                            f['first'] = a['first']
                        if a.get('first_vid') is not None and a.get('first_vid') == b.get('first_vid'):
                            f['first_vid'] = a['first_vid']
                        if f:
                            out.objs[oid] = f
                continue
            if a is None or b is None:
                out.objs[oid] = a if a is not None else b
            else:
                j = self.join_obj(out, s1, s2, a, b, widen)
                if j is not None:
                    out.objs[oid] = j
        for fid in s1.frames:
            if fid not in s2.frames:
                continue
            f1, f2 = s1.frames[fid], s2.frames[fid]
            fr = {}
            for l in set(f1) | set(f2):
                if l == -1 or l == -2:
                    fr[l] = f1.get(l)
                    continue
                a, b = f1.get(l), f2.get(l)
                if a is None or b is None:
                    if fid == 0:
                        fr[l] = a if a is not None else b   # heap cells are allocated once: the other path simply has none
                    continue  # unset in one branch: will be re-materialised as top on read
                fr[l] = self.join_val(out, s1, s2, a, b, widen)
            out.frames[fid] = fr
        if self._jc and (s1.rel or s2.rel):
            self._join_rels(out, s1, s2)
        return out

    def _join_rels(self, out, s1, s2):
        """ordering facts of joined values: j = join(a, b) satisfies j R x whenever a R x held on the first path and
        b R x on the second (x a value common to both paths, or itself a joined pair)"""
        def partners(st):
            ix = {}
            for (x, y) in st.rel:
                ix.setdefault(x, set()).add(y)
                ix.setdefault(y, set()).add(x)
            return ix
        p1, p2 = partners(s1), partners(s2)

        def cands(v, ix):
            c = set(ix.get(v, ()))
            f = D.AFF.get(v)
            if f is not None:
                for at in f.co:
                    c.add(at)
                    c |= ix.get(at, set())
            return c
        pairs = list(self._jc.items())
        byfirst = {}
        for (a, b), j in pairs:
            byfirst.setdefault(a, []).append((b, j))
        n = 0
        for (a, b), j in pairs:
            if j not in out.iv:
                continue
            c1, c2 = cands(a, p1), cands(b, p2)
            for x in (c1 | c2):
                if x == a or x == b or n > 200:
                    continue
                if x in s1.iv and x in s2.iv and x not in D.CONSTVAL:
                    r = D._rel_get0(s1, a, x) | D._rel_get0(s2, b, x)
                    if len(r) < 3:
                        D.rel_set(out, j, x, r)
                        n += 1
            for x in c1:
                for (xb, jx) in byfirst.get(x, ()):
                    if jx != j and jx in out.iv and xb in c2 and n <= 200:
                        r = D._rel_get0(s1, a, x) | D._rel_get0(s2, b, xb)
                        if len(r) < 3:
                            D.rel_set(out, j, jx, r)
                            n += 1

    def widen_state(self, old, new):
        """new has been joined with old; push unstable intervals to their global/type range"""
        for v, (lo, hi) in list(new.iv.items()):
            o = old.iv.get(v)
            if o is None:
                continue
            if lo < o[0] or hi > o[1]:
                g = D.GRANGE.get(v, (-INF, INF))
                new.iv[v] = (g[0] if lo < o[0] else lo, g[1] if hi > o[1] else hi)

    def state_leq(self, a, b):
        """is a subsumed by b (structurally, same vids)?  conservative"""
        for f in b.lin:
            if f not in a.lin:
                return False
        self._leqmap = m = {}
        for fid, fa in a.frames.items():
            fb = b.frames.get(fid)
            if fb is None:
                return False
            for l, va in fa.items():
                if l == -1 or l == -2:
                    continue
                vb = fb.get(l)
                if vb is None:
                    continue
                if not self.val_leq(a, b, va, vb):
                    return False
        for oid, oa in a.objs.items():
            if isinstance(oid, tuple):
                if oid[0] == 'sf':
                    fb = b.objs.get(oid) or {}
                    fa = oa or {}
                    if fb.get('ascii') and not fa.get('ascii'):
                        return False
                    if (fb.get('prefixes') or frozenset()) - (fa.get('prefixes') or frozenset()):
                        return False
                continue
            ob = b.objs.get(oid)
            if ob is None:
                continue
            if oa[0] != ob[0]:
                return False
            if oa[0] == 'String':
                if not self.val_leq(a, b, ('str', oa[1]), ('str', ob[1])):
                    return False
            else:
                if not self.val_leq(a, b, ('i', oa[1], 'usize'), ('i', ob[1], 'usize')):
                    return False
        for (x, y), r in b.rel.items():
            # an ordering fact the accumulator relies on must hold in the arriving state, for the values that stand
            # in the same places there (values that are absent from the arriving state cannot be referred to)
            ax, ay = m.get(x, x), m.get(y, y)
            if (x in m or y in m or True) and ax in a.iv and ay in a.iv:
                ra = D._rel_get0(a, ax, ay)
                if not ra <= r:
                    if (x in m or y in m) and D.rel_get_deep(a, ax, ay) <= r:
                        continue
                    return False
        return True

    def val_leq(self, sa, sb, a, b):
        if b is None or b[0] == 'top':
            return True
        if a is None or a[0] != b[0]:
            return False
        k = a[0]
        if k == 'i':
            ia, ib = D.get_iv(sa, a[1]), D.get_iv(sb, b[1])
            if self._leqmap.setdefault(b[1], a[1]) != a[1]:
                return False      # one value of the accumulator stands for two different values here
            return ib[0] <= ia[0] and ia[1] <= ib[1]
        if k == 't':
            return len(a[1]) == len(b[1]) and all(self.val_leq(sa, sb, x, y) for x, y in zip(a[1], b[1]))
        if k == 's':
            return a[1] == b[1] and all(self.val_leq(sa, sb, x, y) for x, y in zip(a[2], b[2]))
        if k == 'a':
            return len(a[1]) == len(b[1]) and all(self.val_leq(sa, sb, x, y) for x, y in zip(a[1], b[1]))
        if k == 'e':
            if a[1] != b[1]:
                return False
            for vi, fa in a[2].items():
                fb = b[2].get(vi)
                if fb is None:
                    return False
                if not all(self.val_leq(sa, sb, x, y) for x, y in zip(fa, fb)):
                    return False
            return True
        if k == 'str':
            x, y = a[1], b[1]
            if not self.val_leq(sa, sb, ('i', x.len, 'usize'), ('i', y.len, 'usize')):
                return False
            if y.lits is not None and (x.lits is None or not x.lits <= y.lits):
                return False
            if y.first is not None and x.first != y.first:
                return False
            if y.ascii and not x.ascii:
                return False
            return True
        if k == 'slice':
            return self.val_leq(sa, sb, ('i', a[1]['len'], 'usize'), ('i', b[1]['len'], 'usize'))
        if k == 'r':
            return a[1] == b[1]
        if k == 'it':
            if a == b:
                return True
            if a[1] == 'unk' and b[1] == 'unk' and len(a) > 4 and len(b) > 4 and a[2:4] == b[2:4] and a[4] is not None and b[4] is not None:
                return self.val_leq(sa, sb, a[4], b[4])
            if a[1] == b[1] and a[1] in ('zip', 'enum', 'rev') and len(a) == len(b):
                return all((x == y) if not (isinstance(x, tuple) and x and isinstance(x[0], str)) else self.val_leq(sa, sb, x, y)
                           for x, y in zip(a[2:], b[2:]))
            try:
                return self.join_iter(sb, sa, sb, a, b) == b
            except Exception:
                return False
        if k == 'clo':
            return a[1] == b[1] and len(a[2]) == len(b[2]) and all(self.val_leq(sa, sb, x, y) for x, y in zip(a[2], b[2]))
        return a == b

    # ------------------------------------------------------------------ CFG helpers
    def cfg(self, fn):
        c = self._cfg.get(fn)
        if c is not None:
            return c
        body = self.bodies[fn]
        n = len(body['blocks'])
        succ = []
        for blk in body['blocks']:
            t = blk['term']
            k = t['t']
            if k == 'goto' or k == 'drop' or k == 'assert':
                s = [t['target']]
            elif k == 'switch':
                s = [x[1] for x in t['cases']] + [t['otherwise']]
            elif k == 'call':
                s = [t['target']] if t['target'] is not None else []
            else:
                s = []
            succ.append(s)
        # iterative DFS for postorder + back edges
        color = [0] * n
        post = []
        back = set()
        stack = [(0, iter(succ[0]))]
        color[0] = 1
        while stack:
            b, it = stack[-1]
            adv = False
            for s in it:
                if color[s] == 0:
                    color[s] = 1
                    stack.append((s, iter(succ[s])))
                    adv = True
                    break
                elif color[s] == 1:
                    back.add((b, s))
            if not adv:
                color[b] = 2
                post.append(b)
                stack.pop()
        rpo = {b: i for i, b in enumerate(reversed(post))}
        heads = {h for _, h in back}
        c = {'succ': succ, 'rpo': rpo, 'heads': heads, 'back': back}
        self._cfg[fn] = c
        return c

    # ------------------------------------------------------------------ execution
    def call_body(self, st0, fn, args, site):
        """inline a crate function; returns [(state, retval)]; st0 is not mutated"""
        if len(self.stack) > 60 or any(f == fn for f, _ in self.stack[-60:]) and sum(1 for f, _ in self.stack if f == fn) > 2:
            self.note('recursion cut: ' + fn)
            st = st0.clone()
            body = self.bodies[fn]
            return [(st, self.top(st, body['locals'][0], 'rec'))]
        if any(f == fn for f, _ in self.stack):
            self.note('re-entry: ' + fn)
        body = self.bodies[fn]
        cfg = self.cfg(fn)
        fid = next(self._fid)
        st = st0.clone()
        fr = {-1: fn}
        gens = [g for g in body.get('generics', ()) if not g.startswith('<')]
        if gens and isinstance(site, dict):
            tya = site.get('tyargs') or []
            sub = {}
            if body['kind'] == 'Closure':
                psub = st0.frames.get(site.get('fid'), {}).get(-2) if site.get('fid') in st0.frames else None
                if psub:
                    sub = dict(psub)
            elif len(tya) == len(gens):
                sub = dict(zip(gens, tya))
            if sub:
                fr[-2] = sub
        for i, a in enumerate(args):
            fr[i + 1] = a
        st.frames[fid] = fr
        self.stack.append((fn, site))
        results = []
        try:
            pending = {0: [st]}
            heap = [(cfg['rpo'][0], 0)]
            inheap = {0}
            head_acc = {}
            while heap:
                _, bb = heapq.heappop(heap)
                inheap.discard(bb)
                states = pending.pop(bb, [])
                if not states:
                    continue
                if bb in cfg['heads']:
                    states = self._loop_head(fid, bb, states, head_acc)
                if len(states) > self.max_disj:
                    states = self.merge_states(states, self.max_disj)
                for s in states:
                    for (nb, s2) in self.exec_block(s, fid, fn, body, bb, results):
                        if s2.dead:
                            continue
                        pending.setdefault(nb, []).append(s2)
                        if nb not in inheap and nb in cfg['rpo']:
                            heapq.heappush(heap, (cfg['rpo'][nb], nb))
                            inheap.add(nb)
        finally:
            self.stack.pop()
        out = []
        wnames = self.watch.get(fn)
        for s, v in results:
            if fid in s.frames:
                if wnames:
                    # a property module asked for the final values of named locals of this function (recorded on the path)
                    fr_ = s.frames[fid]
                    loc = {n: l for l, n in body.get('names', [])}
                    s.trace = s.trace + (('watch', fn, tuple((n, fr_.get(loc[n])) for n in wnames if n in loc)),)
                v = self._relocate(s, fid, v, {})
                del s.frames[fid]
            self.gc_state(s, extra=(v,))
            out.append((s, v))
        part = self.return_partition.get(fn)
        if part is None and len(out) > 1:
            for pref, pf in self.partition_prefixes.items():
                if fn.startswith(pref) or ('<' + pref) in fn[:len(pref) + 1]:
                    part = pf
                    break
        if part is not None and len(out) > 1:
            groups = {}
            for s, v in out:
                groups.setdefault(part(self, s, v), []).append((s, v))
            out = []
            for items in groups.values():
                s, v = items[0]
                for s2, v2 in items[1:]:
                    j = self.join_states(s, s2)
                    v = self.join_val(j, s, s2, v, v2)
                    s = j
                out.append((s, v))
        if len(out) > 4 and part is None and self._returns_opaque(body):
            out = self.merge_results(out, 4)
        if len(out) > self.max_disj:
            out = self.merge_results(out, self.max_disj)
        for h in self.return_hooks:
            h(self, fn, len(self.stack), out)
        return out

    def _mark(self, st, v, live, cells, objs, idents, depth=0):
        """reachability walk over a value: collects vids, heap cells, objects and string identities"""
        if v is None or depth > 40 or not isinstance(v, tuple) or not v:
            return
        k = v[0]
        if k == 'i':
            live.add(v[1])
        elif k in ('t', 'a'):
            for x in v[1]:
                self._mark(st, x, live, cells, objs, idents, depth + 1)
        elif k in ('s', 'clo'):
            for x in v[2]:
                self._mark(st, x, live, cells, objs, idents, depth + 1)
        elif k == 'e':
            for fs in v[2].values():
                for x in fs:
                    if isinstance(x, tuple) and x and x[0] != 'org':
                        self._mark(st, x, live, cells, objs, idents, depth + 1)
        elif k == 'str':
            live.add(v[1].len)
            idents.add(v[1].ident)
        elif k == 'slice':
            live.add(v[1]['len'])
            if v[1].get('vec') is not None:
                self._mark_obj(st, v[1]['vec'], live, cells, objs, idents, depth + 1)
            for x in (v[1].get('elems') or ()):
                self._mark(st, x, live, cells, objs, idents, depth + 1)
        elif k == 'r':
            pl = v[1]
            if pl[0] == 0 and pl[1] not in cells:
                cells.add(pl[1])
                self._mark(st, st.frames.get(0, {}).get(pl[1]), live, cells, objs, idents, depth + 1)
            for p in pl[2]:
                if p[0] == 'ix':
                    self._mark(st, p[1], live, cells, objs, idents, depth + 1)
        elif k == 'obj':
            self._mark_obj(st, v[1], live, cells, objs, idents, depth + 1)
        elif k == 'it':
            kd = v[1]
            if kd == 'vec':
                self._mark_obj(st, v[2], live, cells, objs, idents, depth + 1)
            for x in v[2:]:
                if isinstance(x, StrV):
                    live.add(x.len); idents.add(x.ident)
                elif isinstance(x, dict) and 'len' in x:
                    live.add(x['len'])
                    if x.get('vec') is not None:
                        self._mark_obj(st, x['vec'], live, cells, objs, idents, depth + 1)
                elif isinstance(x, tuple):
                    if x and isinstance(x[0], str):
                        self._mark(st, x, live, cells, objs, idents, depth + 1)
                    else:
                        for y in x:
                            if isinstance(y, tuple):
                                self._mark(st, y, live, cells, objs, idents, depth + 1)
                elif isinstance(x, int) and not isinstance(x, bool) and kd == 'unk':
                    live.add(x)

    def _mark_obj(self, st, oid, live, cells, objs, idents, depth):
        if oid in objs:
            return
        objs.add(oid)
        o = st.objs.get(oid)
        if o is None:
            return
        if o[0] == 'String':
            live.add(o[1].len); idents.add(o[1].ident)
        elif o[0] in ('Vec', 'Set'):
            live.add(o[1])
            if o[0] == 'Vec' and o[3] is not None:
                self._mark(st, o[3], live, cells, objs, idents, depth + 1)
            for cell in (st.objs.get(('vl', oid)) or ()):
                self._mark(st, ('r', cell), live, cells, objs, idents, depth + 1)

    def gc_state(self, st, extra=()):
        """drop heap cells, objects, interval and ordering entries nothing in the state can reach any more"""
        if len(st.iv) < max(1500, 2 * st.gcmark) and len(st.objs) < 400:
            return
        live, cells, objs, idents = set(), set(), set(), set()
        for fid, fr in st.frames.items():
            if fid == 0:
                continue
            for l, v in fr.items():
                if isinstance(l, int) and l >= 0:
                    self._mark(st, v, live, cells, objs, idents)
        for v in extra:
            self._mark(st, v, live, cells, objs, idents)
        fr0 = st.frames.get(0)
        if fr0 is not None and len(cells) < len(fr0):
            st.frames[0] = {c: val for c, val in fr0.items() if c in cells}
        newobjs = {}
        for oid, o in st.objs.items():
            if isinstance(oid, tuple):
                if oid[0] == 'sf':
                    if oid[1] in idents:
                        newobjs[oid] = o
                        if isinstance(o, dict) and o.get('first_vid') is not None:
                            live.add(o['first_vid'])
                elif oid[0] == 'vl':
                    if oid[1] in objs:
                        newobjs[oid] = o
                else:
                    newobjs[oid] = o
            elif oid in objs:
                newobjs[oid] = o
        st.objs = newobjs
        for (f, lo, hi) in st.lin:
            live.update(f.co)
        for k in st.discr:
            if isinstance(k, int):
                live.add(k)
        live.update(t for t in st.tested if isinstance(t, int))
        frontier = list(live)
        for _ in range(2):
            nxt = []
            for v in frontier:
                t = D.TERM.get(v)
                if t is not None and t[0] != 'const':
                    for o in t[1:]:
                        if isinstance(o, int) and o not in live:
                            live.add(o); nxt.append(o)
                a = D.AFF.get(v)
                if a is not None:
                    for y in a.co:
                        if y not in live:
                            live.add(y); nxt.append(y)
            frontier = nxt
            if not frontier:
                break
        if getattr(self, 'gc_debug', False):
            print('gc', len(st.iv), '->', sum(1 for v in st.iv if v in live), 'objs', len(st.objs), 'cells', len(st.frames.get(0, {})))
        st.iv = {v: i for v, i in st.iv.items() if v in live}
        st.rel = {k: r for k, r in st.rel.items() if k[0] in live and k[1] in live}
        st.discr = {k: v for k, v in st.discr.items() if (k in live if isinstance(k, int) else (k[1] in live))}
        st.lazy = {}
        st.gcmark = len(st.iv)

    def _returns_opaque(self, body):
        """does the function return only collections / strings / unit (possibly inside Result / Option / tuples)?
        Such results carry no numeric correlation worth keeping apart: they are joined per shape."""
        c = self._cfg.get(('opaque', body['id']))
        if c is not None:
            return c

        def opaque(ty, depth=0):
            k = ty.get('k')
            if k == 'tuple':
                return bool(ty['elems']) and all(opaque(t, depth + 1) for t in ty['elems'])
            if k == 'adt':
                p = ty['path']
                if p in OBJ_TYPES:
                    return True
                if p in (RESULT, OPTION) and depth < 3:
                    return opaque(ty['args'][0], depth + 1)
                return False
            return False
        c = opaque(body['locals'][0])
        self._cfg[('opaque', body['id'])] = c
        return c

    def _relocate(self, st, fid, v, moved, depth=0):
        """references into the returning frame (promoted constants: `_0 = &_1`) are moved to heap cells"""
        if v is None or depth > 6:
            return v
        k = v[0]
        if k == 'r':
            if v[1][0] == fid:
                key = v[1][1]
                cell = moved.get(key)
                if cell is None:
                    inner = st.frames[fid].get(key)
                    inner = self._relocate(st, fid, inner, moved, depth + 1)
                    cell = self.alloc(st, inner)
                    moved[key] = cell
                return ('r', (cell[0], cell[1], v[1][2])) + tuple(v[2:])
            return v
        if k == 't':
            return ('t', tuple(self._relocate(st, fid, x, moved, depth + 1) for x in v[1]))
        if k == 's':
            return ('s', v[1], tuple(self._relocate(st, fid, x, moved, depth + 1) for x in v[2]), v[3])
        if k == 'a':
            return ('a', tuple(self._relocate(st, fid, x, moved, depth + 1) for x in v[1]))
        if k == 'e':
            return ('e', v[1], {vi: tuple(self._relocate(st, fid, x, moved, depth + 1) for x in fs) for vi, fs in v[2].items()})
        if k == 'clo':
            return ('clo', v[1], tuple(self._relocate(st, fid, x, moved, depth + 1) for x in v[2]))
        return v

    def _loop_head(self, fid, bb, states, head_acc):
        out = []
        over = []
        k = (fid, bb)
        fn = self.stack[-1][0] if self.stack else None
        unroll = self.unroll_for.get(fn, self.unroll)
        if states:
            need = self._finite_iter_len(states[0], fid)
            if need is not None and need <= 20:
                unroll = max(unroll, need + 1)
            elif need is None and fn not in self.unroll_for and self._has_unbounded_iter(states[0], fid):
                unroll = 1      # a loop over a collection of unknown length: unrolling only multiplies paths
        nmax = 0
        for s in states:
            n = s.loops.get(k, 0) + 1
            s.loops[k] = n
            if n <= unroll:
                out.append(s)
            else:
                over.append(s)
                nmax = max(nmax, n)
        if over:
            # trace partitioning: states that differ in the (known) value of a named bool variable are kept apart
            body = self.bodies.get(fn) if fn else None
            flags = [l for l, _n in (body.get('names', []) if body else []) if body['locals'][l].get('k') == 'bool'][:3]
            groups = {}
            pf = None
            for pref, f in self.partition_prefixes.items():
                if fn and fn.startswith(pref):
                    pf = f
            for s in over:
                key = []
                fr = s.frames.get(fid, {})
                for l in flags:
                    v = fr.get(l)
                    iv = D.get_iv(s, v[1]) if v is not None and v[0] == 'i' else (0, 1)
                    key.append(iv[0] if iv[0] == iv[1] else None)
                if pf is not None:
                    # user structs / enums held in locals keep their variants and constant fields apart
                    # (e.g. header.ver and data_block.time_size of the TZif reader stay correlated)
                    for l, v in sorted((l, v) for l, v in fr.items() if isinstance(l, int) and l >= 0):
                        if v is not None and v[0] in ('s', 'e') and not v[1].startswith(('std::', 'core::', 'alloc::')):
                            key.append((l, pf(self, s, v)))
                groups.setdefault(tuple(key), []).append(s)
            if pf is not None and len(groups) > 12:
                merged = {}
                for key, members in groups.items():
                    merged.setdefault(key[:len(flags)], []).extend(members)
                groups = merged
            for key, members in groups.items():
                hk = (bb, key)
                acc = head_acc.get(hk)
                changed = False
                for s in members:
                    if acc is None:
                        acc = s
                        changed = True
                        continue
                    if self.state_leq(s, acc):
                        continue
                    acc = self.join_states(acc, s, widen=nmax > unroll + 3)
                    changed = True
                if changed:
                    acc.loops[k] = nmax
                    head_acc[hk] = acc
                    out.append(acc.clone())
        return out

    def _finite_iter_len(self, st, fid):
        """length of the longest known-finite sequence iterator held in a local of the frame (loops driven by it are unrolled fully)"""
        best = None
        for l, v in st.frames.get(fid, {}).items():
            if l == -1 or l == -2 or v is None:
                continue
            n = self._iter_len(st, v)
            if n is not None and (best is None or n > best):
                best = n
        return best

    def _has_unbounded_iter(self, st, fid):
        for l, v in st.frames.get(fid, {}).items():
            if l not in (-1, -2) and v is not None and v[0] == 'it' and v[1] in ('vec', 'unk', 'strs', 'chars', 'anyof', 'sub'):
                return True
        return False

    def _iter_len(self, st, v, depth=0):
        if v is None or depth > 3:
            return None
        if v[0] == 'it':
            if v[1] == 'seq':
                return len(v[2])
            if v[1] in ('enum', 'rev'):
                return self._iter_len(st, v[2], depth + 1)
            if v[1] == 'zip':
                a, b = self._iter_len(st, v[2], depth + 1), self._iter_len(st, v[3], depth + 1)
                return a if b is None else b if a is None else min(a, b)
            return None
        if v[0] == 's' and v[1] in ('std::ops::Range', 'std::ops::RangeInclusive') and v[2][0][0] == 'i' and v[2][1][0] == 'i':
            (sl, sh), (el, eh) = D.get_iv(st, v[2][0][1]), D.get_iv(st, v[2][1][1])
            if sl == sh and el == eh and sl != -INF and el != INF:
                return max(0, int(el - sl) + 1)
        return None

    def shape_key(self, v, depth=0):
        if v is None:
            return None
        k = v[0]
        if k == 'e':
            return ('e', v[1], tuple(sorted((vi, tuple(self.shape_key(f, depth + 1) for f in fs) if depth < 5 else None) for vi, fs in v[2].items())))
        if k == 't' and depth < 5:
            return ('t', tuple(self.shape_key(f, depth + 1) for f in v[1]))
        if k == 's' and depth < 5:
            return ('s', v[1], tuple(self.shape_key(f, depth + 1) for f in v[2]), v[3])
        return k

    def merge_results(self, results, limit):
        groups = {}
        for s, v in results:
            groups.setdefault(self.shape_key(v), []).append((s, v))
        out = []
        for key, items in groups.items():
            if len(items) == 1:
                out.append(items[0])
                continue
            s, v = items[0]
            for s2, v2 in items[1:]:
                j = self.join_states(s, s2)
                v = self.join_val(j, s, s2, v, v2)
                s = j
            out.append((s, v))
        self.note('result disjuncts merged')
        return out

    def merge_states(self, states, limit):
        """too many disjuncts queue for one block: join those whose innermost frame has the same shape
        (same enum variants / constants structure), so that e.g. (unit, value) pairs stay correlated"""
        groups = {}
        for s in states:
            fids = [f for f in s.frames if f != 0]
            fr = s.frames[max(fids)] if fids else {}
            key = tuple((l, self.shape_key(v)) for l, v in sorted((k, v) for k, v in fr.items() if isinstance(k, int) and k >= 0))
            groups.setdefault(key, []).append(s)
        out = []
        for members in groups.values():
            s = members[0]
            for s2 in members[1:]:
                s = self.join_states(s, s2)
            out.append(s)
        self.note('block disjuncts merged')
        if len(out) > limit:
            s = out[0]
            for s2 in out[1:]:
                s = self.join_states(s, s2)
            self.note('block disjuncts merged wholesale')
            return [s]
        return out

    def exec_block(self, st, fid, fn, body, bb, results):
        """returns list of (next_bb, state)"""
        self.steps += 1
        if self.steps > self.max_steps:
            raise Budget(f'step budget exceeded in {fn} (entry {self.cur_entry})')
        blk = body['blocks'][bb]
        return self._exec_block_from(st, fid, fn, body, bb, blk, 0, results)

    def _index_split(self, st, fid, stmt):
        """a statement that indexes by a local whose value is one of a few numbers on this path (a table looked up by a small computed
        index): the values to decide, so that each path reads one table entry instead of the join of several"""
        if stmt.get('s') != 'assign':
            return None
        rv = stmt['rv']
        places = []
        for key in ('op', 'place', 'a', 'b'):
            o = rv.get(key)
            if isinstance(o, dict):
                pl = o.get('place') if 'place' in o else (o if 'p' in o else None)
                if isinstance(pl, dict) and pl.get('p'):
                    places.append(pl)
        for pl in places:
            for pe in pl['p']:
                if isinstance(pe, dict) and pe.get('k') == 'index':
                    v = st.frames[fid].get(pe['local'])
                    if v is not None and v[0] == 'i' and v[1] not in D.CONSTVAL:
                        lo, hi = D.get_iv(st, v[1])
                        if lo != -INF and hi != INF and 0 < hi - lo <= 12:
                            return v[1], range(int(lo), int(hi) + 1)
        return None

    def _exec_block_from(self, st, fid, fn, body, bb, blk, start, results):
        for si in range(start, len(blk['stmts'])):
            stmt = blk['stmts'][si]
            sp = self._index_split(st, fid, stmt)
            if sp is not None:
                outs = []
                for val in sp[1]:
                    s2 = st.clone()
                    if D.set_iv(s2, sp[0], val, val) and not s2.dead:
                        outs.extend(self._exec_block_from(s2, fid, fn, body, bb, blk, si, results))
                return outs
            self.exec_stmt(st, fid, fn, body, bb, si, stmt)
            if st.dead:
                return []
        return self.exec_term(st, fid, fn, body, bb, blk['term'], results)

    def exec_stmt(self, st, fid, fn, body, bb, si, stmt):
        k = stmt['s']
        if k == 'setdiscr':
            v = self.read_place(st, fid, stmt['place'])
            if v[0] == 'e':
                fs = v[2].get(stmt['v'], ())
                self.write_place(st, fid, stmt['place'], ('e', v[1], {stmt['v']: fs}))
            return
        if k != 'assign':
            return
        rv = stmt['rv']
        r = rv['r']
        pl = stmt['place']
        pty = self.local_ty(st, fid, pl['l']) if not pl['p'] else self.place_ty(st, fid, pl)
        if r == 'use':
            v = self.operand(st, fid, rv['op'])
        elif r == 'bin':
            a = self.operand(st, fid, rv['a'])
            b = self.operand(st, fid, rv['b'])
            v = self.binop(st, rv['op'], a, b, pty or {'k': 'other'}, fn, stmt.get('span'))
        elif r == 'un':
            a = self.operand(st, fid, rv['a'])
            op = rv['op']
            if op == 'Not' and a[0] == 'i' and a[2] == 'bool':
                lo, hi = D.get_iv(st, a[1])
                v = ('i', D.term_vid(st, ('Not', a[1]), 1 - hi, 1 - lo), 'bool')
            elif op == 'Neg' and a[0] == 'i':
                lo, hi = D.get_iv(st, a[1])
                v = ('i', D.term_vid(st, ('Neg', a[1]), -hi, -lo, D.aff_scale(D.aff_of(a[1]), -1)), a[2])
            elif op == 'PtrMetadata':
                if a[0] == 'str':
                    v = ('i', a[1].len, 'usize')
                elif a[0] == 'slice':
                    v = ('i', a[1]['len'], 'usize')
                elif a[0] == 'r':
                    tgt = self.read_resolved(st, ('L',) + a[1])
                    if tgt is not None and tgt[0] == 'a':
                        v = const_int(len(tgt[1]), 'usize')
                    else:
                        v = self.top(st, pty, 'meta') if pty else ('top', None)
                else:
                    v = self.top(st, pty, 'meta') if pty else ('top', None)
            else:
                v = self.top(st, pty, 'un') if pty else ('top', None)
        elif r == 'cast':
            a = self.operand(st, fid, rv['a'])
            kind = rv['kind']
            if kind == 'IntToInt':
                v, ok = self.cast_int(st, a, rv['to'])
                if ok is not None:
                    o = self.site(fn, 'CAST', self._cast_sub(body, rv), bb, si, stmt.get('span'))
                    lo, hi = D.get_iv(st, a[1]) if a[0] == 'i' else (None, None)
                    self.record(o, ok, st, f'operand in [{lo}, {hi}]')
            elif kind.startswith('PointerCoercion(Unsize'):
                v = self.unsize(st, a, rv['to'])
            elif kind.startswith('PointerCoercion(ReifyFnPointer') or kind.startswith('PointerCoercion(ClosureFnPointer'):
                v = a if a is not None and a[0] in ('fn', 'clo') else self.top(st, rv['to'], 'cast')     # a function used as a pointer is still that function
            else:
                v = self.top(st, rv['to'], 'cast')
        elif r == 'ref':
            rp = self.resolve(st, fid, rv['place'])
            if rp[0] == 'V':
                if not rp[2]:
                    v = rp[1]
                else:
                    inner = self.apply_proj(st, rp[1], rp[2])
                    if inner is None:
                        ty = self.place_ty(st, fid, rv['place'])
                        inner = self.top(st, ty, 'elem') if ty is not None else ('top', None)
                    v = ('r', self.alloc(st, inner))
            else:
                tgt = self.read_resolved(st, rp)
                if tgt is not None and tgt[0] in ('str', 'slice') and rv['place']['p'] and rv['place']['p'][-1]['k'] == 'deref':
                    v = tgt
                else:
                    v = ('r', (rp[1], rp[2], rp[3]))
        elif r == 'discr':
            a = self.read_place(st, fid, rv['place'])
            v = self.discriminant(st, fid, a, rv['place'], pty)
        elif r == 'agg':
            ops = tuple(self.operand(st, fid, o) for o in rv['ops'])
            kd = rv['kind']
            if kd['a'] == 'tuple':
                v = ('t', ops)
            elif kd['a'] == 'array':
                v = ('a', ops)
            elif kd['a'] == 'adt':
                path = kd['path']
                a = self.adts.get(path)
                site = (fn, bb, si, stmt.get('span'))
                if path in STD_ENUMS or (a is not None and a['is_enum']):
                    v = ('e', path, {kd['variant']: ops})
                else:
                    v = ('s', path, ops, tuple(f for f, _ in self.stack))
                for h in self.agg_hooks:
                    h(self, st, path, kd['variant'], ops, site)
            elif kd['a'] == 'closure':
                v = ('clo', kd['id'], ops)
            else:
                v = ('top', pty)
        elif r == 'repeat':
            a = self.operand(st, fid, rv['op'])
            try:
                n = int(rv['n'].split('_')[0])
            except ValueError:
                n = None
            v = ('a', tuple([a] * n)) if n is not None and n <= 64 else ('top', pty)
        else:
            v = self.top(st, pty, 'rv') if pty is not None else ('top', None)
            self.note('unhandled rvalue: ' + rv.get('text', r)[:40])
        self.write_place(st, fid, pl, v)

    def unsize(self, st, a, to_ty):
        to = to_ty.get('to', {})
        if a[0] == 'r' and to.get('k') == 'slice':
            tgt = self.read_resolved(st, ('L',) + a[1])
            if tgt is not None and tgt[0] == 'a':
                return ('slice', {'len': D.const_vid(len(tgt[1])), 'elems': tgt[1], 'elem_ty': to.get('elem'), 'ident': next(StrV._ids)})
            return ('slice', self.fresh_slice(st, to.get('elem')))
        return a if a[0] in ('r', 'clo', 'fn') else self.top(st, to_ty, 'unsize')

    def discr_values(self, path):
        if path in STD_ENUMS:
            return {i: dv for i, (_, dv, _) in enumerate(STD_ENUMS[path])}
        a = self.adts.get(path)
        return {i: int(v['discr']) for i, v in enumerate(a['variants'])}

    def discriminant(self, st, fid, a, place, pty):
        if a[0] == 'e':
            dv = self.discr_values(a[1])
            vals = sorted(dv[i] for i in a[2])
            if len(vals) == 1:
                v = D.const_vid(vals[0])
            else:
                v = D.fresh_vid(st, vals[0], vals[-1])
            st.discr[v] = (self.resolve(st, fid, place), a[1])
            return ('i', v, tyname(pty) if pty and tyname(pty) else 'isize')
        return self.top(st, pty, 'discr') if pty else ('top', None)

    def signed_case(self, raw, tn):
        raw = int(raw)
        if tn and tn[0] == 'i':
            bits = ty_of_name(tn)['bits']
            if raw >= 1 << (bits - 1):
                raw -= 1 << bits
        return raw

    def exec_term(self, st, fid, fn, body, bb, t, results):
        k = t['t']
        if k == 'goto':
            return [(t['target'], st)]
        if k == 'return':
            results.append((st, self.read_local(st, fid, 0)))
            return []
        if k in ('unreachable', 'resume'):
            return []
        if k == 'drop':
            return [(t['target'], st)]
        if k == 'assert':
            return self.exec_assert(st, fid, fn, body, bb, t)
        if k == 'switch':
            return self.exec_switch(st, fid, fn, body, bb, t)
        if k == 'call':
            return self.exec_call(st, fid, fn, body, bb, t)
        self.note('unhandled terminator ' + k)
        return []

    def exec_assert(self, st, fid, fn, body, bb, t):
        c = self.operand(st, fid, t['cond'])
        want = 1 if t['expected'] else 0
        kind = t['kind']
        sub = kind + (':' + t['op'] if 'op' in t else '')
        o = self.site(fn, 'ARITH' if kind != 'bounds' else 'BOUNDS', sub, bb, -1, t.get('span'))
        if c[0] != 'i':
            self.record(o, False, st, 'condition unknown')
            return [(t['target'], st)]
        lo, hi = D.get_iv(st, c[1])
        ok = lo == hi == want
        detail = None
        if not ok:
            info = st.discr.get(('ovf', c[1]))
            if info:
                detail = f'result in [{info[0][0]}, {info[0][1]}] but type range is [{info[1][0]}, {info[1][1]}]'
            elif kind == 'bounds':
                ln = self.operand(st, fid, t['len']); ix = self.operand(st, fid, t['index'])
                detail = f'index in {D.get_iv(st, ix[1]) if ix[0] == "i" else "?"}, len in {D.get_iv(st, ln[1]) if ln[0] == "i" else "?"}'
            else:
                a = self.operand(st, fid, t['a']) if 'a' in t else None
                detail = f'operand in {D.get_iv(st, a[1]) if a and a[0] == "i" else "?"}'
        self.record(o, ok, st, detail)
        if not D.set_iv(st, c[1], want, want):
            return []
        if kind == 'bounds':
            ln = self.operand(st, fid, t['len']); ix = self.operand(st, fid, t['index'])
            if ln[0] == 'i' and ix[0] == 'i':
                if not D.refine_cmp(st, 'Lt', ix[1], ln[1]):
                    return []
        return [(t['target'], st)]

    def _note_failing(self, st, fid, path, keep):
        """a `match` took the failing arm of a Result / Option (Err / None only): remember where that value came from, for a panic raised in the
        same function on this path (`match r { Ok(v) => v, Err(_) => panic!(..) }` is `r.unwrap_or_else(|_| panic!(..))` written out)"""
        from .models import RESULT, OPTION, origin_of, cause_of, none_org
        bad = 1 if path == RESULT else 0 if path == OPTION else None
        if bad is None or set(keep) != {bad}:
            return
        cause = None
        for f in keep[bad]:
            cause = cause or cause_of(origin_of(self, st, f))
        if cause is None and path == OPTION:
            cause = none_org(('e', path, keep))
        if cause:
            st.notes = tuple(n for n in st.notes if not (isinstance(n, tuple) and n and n[0] == 'failing')) + (('failing', fid, cause),)

    def exec_switch(self, st, fid, fn, body, bb, t):
        d = self.operand(st, fid, t['discr'])
        out = []
        if d[0] != 'i':
            for _, tgt in t['cases']:
                out.append((tgt, st.clone()))
            out.append((t['otherwise'], st.clone()))
            return out
        vid, tn = d[1], d[2]
        lo, hi = D.get_iv(st, vid)
        # (a discriminant that is already one constant is a shared constant value: it carries no link to a place)
        dinfo = None if vid in D.CONSTVAL else st.discr.get(vid)
        if lo != hi:
            st.tested = st.tested | ({('discr', dinfo[1])} if dinfo is not None else {vid})
        cases = [(self.signed_case(v, tn), tgt) for v, tgt in t['cases']]
        for val, tgt in cases:
            if not (lo <= val <= hi):
                continue
            s2 = st.clone()
            if dinfo is not None:
                rp, path = dinfo
                ev = self.read_resolved(s2, rp)
                if ev is not None and ev[0] == 'e':
                    dv = self.discr_values(path)
                    keep = {i: fs for i, fs in ev[2].items() if dv[i] == val}
                    if not keep:
                        continue
                    self.write_resolved(s2, rp, ('e', path, keep))
                    self._note_failing(s2, fid, path, keep)
            if not D.set_iv(s2, vid, val, val):
                continue
            out.append((tgt, s2))
        # otherwise edge
        vals = sorted(v for v, _ in cases)
        s3 = st
        feasible = True
        if dinfo is not None:
            rp, path = dinfo
            ev = self.read_resolved(s3, rp)
            if ev is not None and ev[0] == 'e':
                dv = self.discr_values(path)
                keep = {i: fs for i, fs in ev[2].items() if dv[i] not in vals}
                if not keep:
                    feasible = False
                else:
                    self.write_resolved(s3, rp, ('e', path, keep))
        if feasible:
            # split the interval around the excluded case values (bounded number of pieces)
            pieces = []
            cur = lo
            for v in vals:
                if v < cur:
                    continue
                if v > hi:
                    break
                if cur <= v - 1:
                    pieces.append((cur, v - 1))
                cur = v + 1
            if cur <= hi:
                pieces.append((cur, hi))
            if len(pieces) > 3:
                pieces = [(pieces[0][0], pieces[-1][1])]
            for i, (l, h) in enumerate(pieces):
                s4 = s3.clone() if i < len(pieces) - 1 else s3
                if D.set_iv(s4, vid, l, h):
                    out.append((t['otherwise'], s4))
        # a branch on `x == c` / `x != c` with c strictly inside the range of x: the "not equal" side is two ranges (below and above c), exactly
        # as a `match x { c => .., _ => .. }` is handled above
        tm = D.TERM.get(vid)
        if tm is not None and tm[0] in ('Eq', 'Ne') and isinstance(tm[1], int) and isinstance(tm[2], int) and len(out) <= 4:
            x, c = (tm[1], tm[2]) if tm[2] in D.CONSTVAL else ((tm[2], tm[1]) if tm[1] in D.CONSTVAL else (None, None))
            if x is not None and x not in D.CONSTVAL:
                cval = D.CONSTVAL[c]
                new = []
                for tgt, s in out:
                    bv = D.get_iv(s, vid)
                    xl, xh = D.get_iv(s, x)
                    if bv[0] == bv[1] and ((bv[0] == 1) == (tm[0] == 'Ne')) and xl < cval < xh and xl != -D.INF and xh != D.INF and xh - xl <= 1024:      # (small ranges only: bytes, field values)
                        s_lo = s.clone()
                        if D.set_iv(s_lo, x, xl, cval - 1):
                            new.append((tgt, s_lo))
                        if D.set_iv(s, x, cval + 1, xh):
                            new.append((tgt, s))
                        continue
                    new.append((tgt, s))
                out = new
        return out

    # ------------------------------------------------------------------ calls
    def exec_call(self, st, fid, fn, body, bb, t):
        f = t['func']
        cid = f.get('id')
        decl = f.get('decl')
        args = [self.operand(st, fid, a) for a in t['args']]
        dest = t['dest']
        dty = self.local_ty(st, fid, dest['l']) if not dest['p'] else self.place_ty(st, fid, dest)
        sub_ = st.frames[fid].get(-2)
        tya_ = f.get('tyargs')
        if sub_ and tya_:
            tya_ = [self.subst_ty(x, sub_) for x in tya_]
        site = {'fn': fn, 'bb': bb, 'span': t.get('span'), 'callee': cid or decl, 'tyargs': tya_, 'expn': t.get('expn'),
                'dty': dty, 'fid': fid, 'decl': decl}
        if cid is None and decl is None and f.get('op') is not None:
            # a call through a function pointer / callable value held in a local: when the value is a known function or closure, call it
            fv = self.operand(st, fid, f['op'])
            if fv is not None and fv[0] == 'r':
                tgt = self.read_resolved(st, ('L',) + fv[1])
                fv = tgt if tgt is not None else fv
            if fv is not None and fv[0] in ('fn', 'clo'):
                r_ = self.call_closure(st, fv, args, dict(site, callee=fv[1]))
                if r_ is not None:
                    outs = r_
                    if t['target'] is None:
                        return []
                    res = []
                    for s2, v in outs:
                        if s2.dead or fid not in s2.frames:
                            continue
                        self.write_place(s2, fid, dest, v)
                        res.append((t['target'], s2))
                    return res
        outs = self.do_call(st, cid, decl, args, dty, site, f)
        if t['target'] is None:
            return []
        res = []
        for s2, v in outs:
            if s2.dead:
                continue
            if fid not in s2.frames:
                continue
            self.write_place(s2, fid, dest, v)
            res.append((t['target'], s2))
        return res

    def do_call(self, st, cid, decl, args, dty, site, f=None):
        name = cid or decl or '?'
        obs = self.observers.get(name)
        if obs is not None:
            obs(self, st, args, site)
        con = self.contracts.get(name)
        if con is not None:
            r = con(self, st, args, dty, site)
            if r is not None:
                return r
        # closure / fn-pointer calls through the Fn* traits
        if decl in ('std::ops::Fn::call', 'std::ops::FnMut::call_mut', 'std::ops::FnOnce::call_once') and args:
            callee = args[0]
            if callee[0] == 'r':
                tgt = self.read_resolved(st, ('L',) + callee[1])
                if tgt is not None:
                    callee = tgt
            spread = list(args[1][1]) if len(args) > 1 and args[1][0] == 't' else args[1:]
            if callee[0] == 'clo':
                return self.call_closure(st, callee, spread, site)
            if callee[0] == 'fn' and callee[1] in self.bodies:
                return self.call_body(st, callee[1], spread, site)
            if callee[0] == 'fn':
                return self.do_call(st, callee[1], callee[1], spread, dty, site)
            if self.opaque_callables and callee[0] == 'top' and all(f_.startswith(self.stack[0][0] + '::{closure') for f_, _s in self.stack[1:]):
                # a callable *parameter of the analysed entry*: its own panics belong to whoever passes it (the callers'
                # closures are analysed at their call sites); its result is unknown
                self.note('opaque callable parameter called')
                s2 = st.clone()
                return [(s2, self.top(s2, dty, 'ret') if dty is not None else ('top', None))]
        if cid in self.bodies and (f is None or f.get('local', True)):
            b = self.bodies[cid]
            if b['kind'] == 'Closure':
                return self.call_closure(st, args[0], args[1:], site)
            return self.call_body(st, cid, args, site)
        m = self.find_model(name)
        if m is not None:
            self.models_used[name] = self.models_used.get(name, 0) + 1
            r = m(self, st, args, dty, site)
            if r is not None:
                return r
        self.unmodelled[name] = self.unmodelled.get(name, 0) + 1
        return self.unknown_call(st, args, dty)

    def unknown_call(self, st, args, dty):
        s = st.clone()
        for a in args:
            if a[0] == 'r':
                tgt = self.read_resolved(s, ('L',) + a[1])
                if tgt is not None and tgt[0] == 'obj':
                    self.havoc_obj(s, tgt)
        return [(s, self.top(s, dty, 'ret') if dty is not None else ('top', None))]

    def havoc_obj(self, st, o):
        cur = st.objs.get(o[1])
        if cur is None:
            return
        if cur[0] == 'String':
            st.objs[o[1]] = ('String', self.fresh_str(st, 'havoc'))
        else:
            v = D.sym_vid(0, (1 << 63) - 1, 'len(havoc)')
            st.iv[v] = (0, (1 << 63) - 1)
            st.objs[o[1]] = (cur[0], v) + tuple(cur[2:3]) + ((None,) if cur[0] == 'Vec' else ())

    def find_model(self, name):
        m = self.models.get(name)
        if m is not None:
            return m
        for pred, fnc in self.model_preds:
            if pred(name):
                self.models[name] = fnc
                return fnc
        # `<T as Trait>::method` of a std type without a row of its own: the row of the trait method (a specialised implementation, e.g.
        # slice::Iter::position, has the documented behaviour of the trait method)
        if name.startswith('<') and ' as std::iter::' in name and '>::' in name:
            trait_ = name[name.index(' as ') + 4:name.rindex('>::')]
            if '<' in trait_:
                trait_ = trait_[:trait_.index('<')]
            generic = trait_ + '::' + name.rsplit('::', 1)[1]
            if generic != name:
                m = self.find_model(generic)
                if m is not None:
                    self.models[name] = m
                    return m
        return None

    def call_closure(self, st, clo, args, site):
        """clo: ('clo', id, captures) ; args: the closure's own parameters"""
        if clo[0] == 'r':
            tgt = self.read_resolved(st, ('L',) + clo[1])
            if tgt is not None:
                clo = tgt
        if clo[0] == 'fn':
            if clo[1] in self.bodies:
                return self.call_body(st, clo[1], list(args), site)
            dty_ = None
            ga = clo[2] if len(clo) > 2 and isinstance(clo[2], str) else None
            if clo[1] == 'core::str::<impl str>::parse' and ga and ga.startswith('[') and ga.endswith(']') and ',' not in ga:
                # `str::parse::<F>` passed as a function: its result type is Result<F, _>
                from .models import ty_of_name, RESULT
                ft = ty_of_name(ga[1:-1])
                if ft is not None:
                    dty_ = {'k': 'adt', 'path': RESULT, 'args': [ft, {'k': 'other'}]}
            return self.do_call(st, clo[1], clo[1], list(args), dty_, dict(site, callee=clo[1]) if isinstance(site, dict) else site)
        if clo[0] != 'clo' or clo[1] not in self.bodies:
            self.note('call of unknown closure')
            return None
        body = self.bodies[clo[1]]
        envty = body['locals'][1]
        if envty['k'] == 'ref':
            s = st.clone()
            env = ('r', self.alloc(s, clo))
            return self.call_body(s, clo[1], [env] + list(args), site)
        return self.call_body(st, clo[1], [clo] + list(args), site)

    # ------------------------------------------------------------------ entry points
    def run_entry(self, fn, build_args, label=None):
        """build_args(interp, st) -> list of arg values.  returns [(st, retval)]"""
        if fn not in self.bodies:
            raise KeyError(fn)
        self.cur_entry = label or fn
        st = St()
        st.frames[0] = {}
        cfgs = build_args(self, st)
        if cfgs and not (isinstance(cfgs[0], tuple) and len(cfgs[0]) == 2 and isinstance(cfgs[0][0], St)):
            cfgs = [(st, cfgs)]
        self.stack = []
        outs = []
        for s, args in cfgs:
            outs.extend(self.call_body(s, fn, args, ('entry', fn)))
        return outs

    def describe(self, st, v, depth=0):
        if v is None:
            return None
        k = v[0]
        if k == 'i':
            lo, hi = D.get_iv(st, v[1])
            return int(lo) if lo == hi else [lo if lo != -INF else '-inf', hi if hi != INF else 'inf']
        if k == 't':
            return [self.describe(st, x, depth + 1) for x in v[1]]
        if k == 's':
            return {v[1]: [self.describe(st, x, depth + 1) for x in v[2]]}
        if k == 'e':
            return {f'{v[1]}#{vi}': [self.describe(st, x, depth + 1) for x in fs] for vi, fs in v[2].items()}
        if k == 'str':
            return repr(v[1])
        if k == 'a':
            return [self.describe(st, x, depth + 1) for x in v[1][:16]]
        return k
