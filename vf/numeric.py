"""Shared machinery for the value-level rule families F1 (failure freedom), F2 (invariants), F3 (guard/message
consistency) and AFF (affine identities), on top of the E2 interpreter."""
from . import domain as D
from .absint import Interp, Budget
from .entries import (default_args, install_offset_contract, install_partitions, NPD, OFF_MAX, TIME, DATETIME,
                      DATE, OFFSET, STRUCT_INV)
from .models import cause_of, origin_of

OOR = 'errors::out_of_range::OutOfRange'

ASSUMPTIONS = [
    'A-USIZE: usize is 64 bits',
    'A-ALLOC: allocation never fails',
    'A-FIXED: every Offset::Fixed(s) met at an API boundary satisfies |s| < 86_400 (the variant is public; the two constructors are checked to establish it)',
    'A-LOCAL: Offset::Local resolves to one value in [-86_399, 86_399] during one API call',
    'A-INV: incoming Time/DateTime values satisfy nanoseconds < 86_400e9 (established at every construction site, rule F2)',
    'A-STD: the std effect table (vf/models.py) describes the std functions it models correctly',
]
LOCAL_RANGE = ('A-LOCALRANGE: for an incoming DateTime the local instant days*86_400e9 + nanoseconds + 1e9*offset is representable '
               '(set_offset panics otherwise; constructors that can break it are reported under C10)')


class Numeric:
    def __init__(self, ctx, cfg='default', unroll=3, max_disj=400, max_steps=3_000_000):
        self.ctx = ctx
        self.facts = ctx.facts(cfg)
        D.reset()
        self.I = Interp(self.facts, unroll=unroll, max_disj=max_disj, max_steps=max_steps)
        install_offset_contract(self.I)
        install_partitions(self.I)
        self.I.agg_hooks.append(self._agg_hook)
        self.I.panic_hooks.append(self._panic_hook)
        self.I.return_hooks.append(self._return_hook)
        self.pending_o2 = []
        self.panics = {}        # entry label -> [(cfg index, state, cause)]
        self.cur_cfg = 0
        self.results = {}       # entry label -> [(st, retval)]
        self.entry_args = {}    # entry label -> [(st, args)]  (initial configurations)
        self.oor_sites = {}     # key -> info
        self.budget_failures = []
        for a in ASSUMPTIONS:
            ctx.assumptions.append(a)

    # ------------------------------------------------------------------ hooks
    def _caller_site(self):
        """(function, call site into errors::, stack depth of that function's frame) of the innermost frame outside errors::"""
        st = self.I.stack
        for i in range(len(st) - 1, -1, -1):
            fn, site = st[i]
            if not fn.startswith('errors::'):
                nxt = st[i + 1][1] if i + 1 < len(st) else None
                j = i
                while j > 0 and '::{closure' in st[j][0]:
                    j -= 1          # a guard inside a closure belongs to the enclosing function
                return st[j][0], nxt, j
        return None, None, 0

    def _return_hook(self, I, fn, depth, results):
        """F3/O2, per invocation: when the function that owns a guard returns Ok, the guarded value lies inside
        the range its message states (checked against the results of this very invocation)"""
        if not self.pending_o2:
            return
        keep = []
        for p in self.pending_o2:
            if p['depth'] > depth:
                continue            # frame already gone
            if p['depth'] < depth or p['fn'] != fn:
                keep.append(p)
                continue
            for st, rv in results:
                is_ok = True
                if rv is not None and rv[0] == 'e' and rv[1].endswith('Result'):
                    is_ok = set(rv[2]) == {0}
                if not is_ok:
                    continue
                if p.get('ctx'):
                    same_case = True
                    for cv, (cl, ch) in p['ctx'].items():
                        sl, sh = D.get_iv(st, cv)
                        if sl < cl or sh > ch:
                            same_case = False
                    if not same_case:
                        continue
                if p.get('live') and (p['vid'] not in st.iv or any(cv not in st.iv for cv in p['ctx'])):
                    continue          # the value is not tracked in this result state any more
                l, h = D.get_iv(st, p['vid'])
                ok2 = p['min'][0] <= l and h <= p['max'][1]
                if p.get('side') == 'hi':
                    ok2 = h <= p['max'][1]
                elif p.get('side') == 'lo':
                    ok2 = p['min'][0] <= l
                I.record(p['o'], ok2, st, f'O2: a value in [{l}, {h}] is accepted by {fn} but the message states [{p["min"][0]}, {p["max"][1]}]')
        self.pending_o2 = keep

    def _agg_hook(self, I, st, path, variant, ops, site):
        fn, bb, si, span = site
        if path == TIME:
            self._inv(I, st, fn, bb, si, span, path, ops[0], 0, NPD - 1, 'Time.nanoseconds < 86_400e9')
        elif path == DATETIME:
            self._inv(I, st, fn, bb, si, span, path, ops[1], 0, NPD - 1, 'DateTime.nanoseconds < 86_400e9')
        elif path == OFFSET and variant == 0:
            self._inv(I, st, fn, bb, si, span, path, ops[0], -OFF_MAX, OFF_MAX, '|Offset::Fixed| < 86_400')
        elif path == OOR:
            self._oor(I, st, fn, bb, si, span, ops)
        elif path in STRUCT_INV:
            for idx, (lo, hi) in STRUCT_INV[path].items():
                self._inv(I, st, fn, bb, si, span, path, ops[idx], lo, hi, f'{path} field {idx} in [{lo}, {hi}]')

    def _panic_hook(self, I, st, site, cause):
        self.panics.setdefault(I.cur_entry, []).append((self.cur_cfg, st.clone(), cause))

    def _inv(self, I, st, fn, bb, si, span, path, v, lo, hi, what):
        o = I.site(fn, 'INV', path, bb, si, span)
        if v[0] != 'i':
            I.record(o, False, st, f'{what}: field value unknown')
            return
        l, h = D.get_iv(st, v[1])
        I.record(o, lo <= l and h <= hi, st, f'{what}: field in [{l}, {h}]')

    def _oor(self, I, st, fn, bb, si, span, ops):
        name, mn, mx, val, custom, cond = ops
        cfn, csite, cdepth = self._caller_site()
        if csite is not None and isinstance(csite, dict):
            o = I.site(csite['fn'], 'OOR', csite['callee'], csite['bb'], -1, csite.get('span'))
        else:
            o = I.site(fn, 'OOR', OOR, bb, si, span)
        has_custom = custom[0] == 'e' and 1 in custom[2]
        if has_custom:
            # prints no range: exempt from O1/O2
            I.record(o, True, st)
            self.oor_sites.setdefault(o.key, {'exempt': True, 'name': self._lit(name)})
            return
        if not (mn[0] == val[0] == mx[0] == 'i'):
            I.record(o, False, st, 'OutOfRange fields unknown')
            return
        (l1, h1), (l2, h2), (vl, vh) = D.get_iv(st, mn[1]), D.get_iv(st, mx[1]), D.get_iv(st, val[1])
        ok1 = vh < l1 or vl > h2
        if not ok1:
            # relational guard: value compared against the very value stored in min/max
            if D.rel_get(st, val[1], mx[1]) <= frozenset('>') or D.rel_get(st, val[1], mn[1]) <= frozenset('<'):
                ok1 = True
        I.record(o, ok1, st, f'O1: rejected value in [{vl}, {vh}] is not excluded by the stated range [{l1}..{h1}, {l2}..{h2}]')
        info = self.oor_sites.setdefault(o.key, {'exempt': False, 'name': self._lit(name), 'checks': []})
        conditional = cond[0] == 'e' and 1 in cond[2]
        if conditional and cond[2][1]:
            # a condition text that is a fixed literal ("because unit is Hour") does not depend on other arguments
            from .models import strv_of
            sv = strv_of(I, st, cond[2][1][0])
            if sv is not None and sv.lits is not None and len(sv.lits) == 1:
                conditional = False
        info['conditional'] = conditional
        if val[1] not in D.CONSTVAL and cfn is not None:
            key = (cfn, cdepth, val[1], o.key)
            ctxiv = None
            if conditional:
                # a range that holds "because <other argument> is ...": O2 applies to the Ok results of this invocation that
                # lie in the same case, i.e. whose other integer arguments are inside the values they have on this path
                ctxiv = {}
                fids = [f for f, fr in st.frames.items() if f != 0 and fr.get(-1) == cfn]
                body = I.bodies.get(cfn)
                if fids and body is not None:
                    fr = st.frames[max(fids)]
                    for l in range(1, body['argc'] + 1):
                        a = fr.get(l)
                        if a is not None and a[0] == 'i' and a[1] != val[1]:
                            ctxiv[a[1]] = D.get_iv(st, a[1])
                if not ctxiv:
                    ctxiv = None
            if (not conditional or ctxiv) and not any(p['k'] == key for p in self.pending_o2):
                side = None
                if conditional:
                    # the guard of a conditional site tests one end of the range (the other end belongs to another guard,
                    # possibly in the caller): O2 is applied to the end that this guard rejects
                    side = 'hi' if vl > h2 else 'lo' if vh < l1 else None
                self.pending_o2.append({'k': key, 'fn': cfn, 'depth': cdepth, 'vid': val[1], 'min': (l1, h1), 'max': (l2, h2), 'o': o, 'ctx': ctxiv, 'side': side})
                if side is not None and cdepth > 0 and ctxiv and all(a_ == b_ and cv_ not in D.CONSTVAL for cv_, (a_, b_) in ctxiv.items()):
                    # the other end of the stated range is guarded by a sibling guard, possibly in the caller (validate_date rejects the days
                    # above the last representable one, date_to_days the day 0).  When the case is exact -- the condition pins every other
                    # integer argument to one value -- that end is compared with what the direct caller accepts in the same case.
                    self.pending_o2.append({'k': key + ('caller',), 'fn': I.stack[cdepth - 1][0], 'depth': cdepth - 1, 'vid': val[1], 'min': (l1, h1), 'max': (l2, h2),
                                            'o': o, 'ctx': ctxiv, 'side': 'lo' if side == 'hi' else 'hi', 'live': True})

    def _lit(self, v):
        if v[0] == 'str' and v[1].lits:
            return sorted(v[1].lits)[0]
        return '?'

    # ------------------------------------------------------------------ running
    def run(self, fn, label=None, overrides=None, local_in_range=True, variants=('fixed', 'local')):
        label = label or fn
        I = self.I
        if fn not in I.bodies:
            self.ctx.finding(f'{self.ctx.prop}:ANCHOR|{fn}', 'anchor', None, f'ANCHOR-MISSING: entry point {fn} not found; fails closed')
            return []
        builder = default_args(fn, overrides, local_in_range, variants)

        from .domain import St
        I.steps = 0
        I.cur_entry = label
        I.stack = []
        st0 = St()
        st0.frames[0] = {}
        outs = []
        try:
            for ci, (st, args) in enumerate(builder(I, st0)):
                self.cur_cfg = ci
                outs.append((args, st, I.call_body(st, fn, args, ('entry', fn))))
        except Budget as e:
            self.budget_failures.append(str(e))
            self.ctx.finding(f'{self.ctx.prop}:BUDGET|{label}', 'analysis budget', None, f'analysis of {label} exceeded its step budget: {e}')
        self.results[label] = outs
        self.ctx.cov['entries'].append(label)
        if local_in_range and LOCAL_RANGE not in self.ctx.assumptions:
            self.ctx.assumptions.append(LOCAL_RANGE)
        return outs

    def flat(self, label):
        return [(st, rv) for (_a, _s, outs) in self.results.get(label, []) for (st, rv) in outs]

    # ------------------------------------------------------------------ O2
    def check_o2(self):
        """O2 is checked per invocation by _return_hook; nothing left to do at the end"""
        self.pending_o2 = []

    # ------------------------------------------------------------------ judging
    def judge(self, kinds=('ARITH', 'BOUNDS', 'CAST', 'UNWRAP', 'PANIC', 'STDPRE', 'INV', 'OOR'), allowed_causes=(), scope=None,
              skip_fns=(), rule='F1'):
        """turn the interpreter's obligation table into findings.  allowed_causes: causes (function ids) that
        designate a PANIC/UNWRAP as the documented range panic."""
        ctx = self.ctx
        I = self.I
        nobl = 0
        for key, o in sorted(I.obl.items(), key=lambda kv: str(kv[0])):
            if o.kind not in kinds:
                continue
            if scope is not None and not scope(o):
                continue
            if any(o.fn.startswith(s) for s in skip_fns):
                continue
            nobl += 1
            ctx.cov['obligations'] += 1
            oid = o.id()
            if o.fail == 0:
                ctx.cov['discharged'] += 1
                if len(ctx.cov['samples']) < 8 and o.kind in ('ARITH', 'CAST', 'INV', 'OOR'):
                    ctx.cov['samples'].append({'obligation': oid, 'at': o.span, 'verdict': 'discharged', 'contexts': o.ok})
                continue
            if o.kind in ('PANIC', 'UNWRAP') and o.causes and all(_cause_allowed(c, allowed_causes) for c in o.causes):
                ctx.cov['designated'] += 1
                continue
            if oid in getattr(ctx, 'auto_by_classes', {}):
                # discharged in every member of an exhaustive finite partition of the function's inputs (see the note)
                ctx.cov['discharged'] += 1
                ctx.cov['notes'].append(f'discharged by case analysis: {oid}: {ctx.auto_by_classes[oid]}')
                continue
            if oid in ctx.hand:
                ctx.cov['hand_discharged'] += 1
                ctx.cov['notes'].append(f'hand-discharged: {oid}')
                continue
            s = o.samples[0] if o.samples else {}
            ctx.finding(f'{ctx.prop}:{oid}', f'{rule}/{o.kind}', o.span,
                        f'{o.kind} obligation not discharged in {o.fn} ({o.sub} #{o.ordinal}): {s.get("detail")}'
                        + (f'; cause {sorted(o.causes)}' if o.causes else ''),
                        {'entry': s.get('entry'), 'stack': s.get('stack'), 'causes': sorted(o.causes), 'contexts_ok': o.ok, 'contexts_failed': o.fail})
        for n, c in I.unmodelled.items():
            ctx.cov['obligations'] += 1
            ctx.finding(f'{ctx.prop}:UNMODELLED|{n}', 'std table', None, f'std function {n} has no row in the effect table ({c} call(s) reached): unknown effect, fails closed')
        ctx.cov['notes'].extend(f'{k} x{v}' for k, v in I.notes.items())
        ctx.cov['std_rows_used'] = len(I.models_used)
        return nobl


def _cause_allowed(c, allowed):
    """a designated cause, or a helper that only ever created its error inside the dynamic extent of a designated function
    (validate_date -> a private validate_year extracted from it)"""
    if c in allowed:
        return True
    from .models import CAUSE_STACKS
    stacks = CAUSE_STACKS.get(c)
    return bool(stacks) and all(any(f in allowed for f in st_) for st_ in stacks)


def construction_entries(facts, adt_path):
    """functions (closures folded into their parent) whose MIR contains an Aggregate building `adt_path`"""
    out = {}
    for b in facts.body_list:
        n = 0
        for blk in b['blocks']:
            for s in blk['stmts']:
                if s['s'] == 'assign' and s['rv']['r'] == 'agg' and s['rv']['kind'].get('a') == 'adt' and s['rv']['kind']['path'] == adt_path:
                    n += 1
        if n:
            name = b['id'].split('::{closure')[0]
            if '::promoted[' in name or b['kind'] not in ('Fn', 'AssocFn', 'Closure'):
                continue
            out[name] = out.get(name, 0) + n
    return out


def flow_walk(st, start, is_cut, forbidden, tags=()):
    """F6 'flows only through': walk the definition DAG (terms and affine forms) from `start` vids toward the
    inputs, stopping at vids for which is_cut holds.  Returns (reached_forbidden, opaque) vid sets."""
    bad, opaque = set(), set()
    seen = set()
    work = [v for v in start if isinstance(v, int)]
    while work:
        v = work.pop()
        if v in seen or v in D.CONSTVAL:
            continue
        seen.add(v)
        if is_cut(v):
            continue
        if v in forbidden:
            bad.add(v)
            continue
        t = D.TERM.get(v)
        a = D.AFF.get(v)
        nxt = []
        if t is not None and t[0] != 'const':
            nxt += [o for o in t[1:] if isinstance(o, int)]     # structural provenance first
        elif a is not None:
            nxt += [y for y in a.co if y != v]
        if not nxt and v not in D.NAME:
            opaque.add(v)
        work.extend(nxt)
    return bad, opaque


def local_split(st, X, exclude=()):
    """vids that provably hold the local day / local nanoseconds of an instant whose shifted affine form is X:
    (lds, lns) with 0 <= ln < 86_400e9, ln == X (mod 86_400e9) and 86_400e9*ld + ln == X"""
    lns = set()
    cand = [v for v in st.iv if v not in D.CONSTVAL and v not in exclude and (v in D.TRIPLES or v in D.AFF)]
    for v in cand:
        lo, hi = D.get_iv(st, v)
        if 0 <= lo and hi < NPD and D.aff_equiv(D.aff_of(v), X, NPD, st=st):
            lns.add(v)
    lds = set()
    for v in cand:
        if v in lns:
            continue
        lo, hi = D.get_iv(st, v)
        if lo < -(1 << 31) or hi >= (1 << 31):
            continue
        for ln in lns:
            if D.aff_equiv(D.aff_add(D.aff_scale(D.aff_of(v), NPD), D.aff_of(ln)), X, 0, st=st):
                lds.add(v)
                break
    return lds, lns


def aff_equal_cong(st, f1, f2, m):
    """f1 == f2 proved either exactly, or because they are congruent modulo m and their difference lies in (-m, m)"""
    if D.aff_equiv(f1, f2, 0, st=st):
        return True
    if not D.aff_equiv(f1, f2, m, st=st):
        return False
    d = D.aff_add(f1, f2, -1)
    if d is None or d.mod:
        return False
    for f in sorted(D.aff_variants(d), key=lambda a: len(a.co)):
        iv = D.eval_aff(st, D.aff_concretize(st, f), depth=0)
        if iv is not None and -m < iv[0] and iv[1] < m:
            return True
    return False


# ---------------------------------------------------------------- parallel entry analysis (one process per entry)

def _worker(args):
    prop, cfg, fn, opts = args
    from .cli import Ctx
    ctx = Ctx(prop, 'quick', 0)
    nopts = dict(opts.get('numeric', {}))
    nopts.update(opts.get('per_entry', {}).get(fn, {}))
    N = Numeric(ctx, cfg, **nopts)
    for setup in opts.get('setup', ()):
        setup(N.I)
    N.run(fn, **opts.get('run', {}))
    obl = {}
    for k, o in N.I.obl.items():
        obl[k] = (o.kind, o.fn, o.sub, o.ordinal, o.span, o.ok, o.fail, o.samples, sorted(o.causes))
    res = [(len(outs),) for (_a, _s, outs) in N.results.get(fn, [])]
    for post in opts.get('post', ()):
        post(N, fn, ctx)
    return fn, obl, dict(N.I.unmodelled), dict(N.I.notes), [f.to_json() for f in ctx.findings], sorted(N.I.models_used), N.I.steps, res


def run_entries_parallel(ctx, N, entries, opts=None, procs=8):
    """analyse each entry in its own process and merge the obligation tables into N.I.obl"""
    import multiprocessing as mp
    from .absint import Obl
    opts = opts or {}
    jobs = [(ctx.prop, N.facts.cfg, fn, opts) for fn in entries]
    with mp.get_context('fork').Pool(min(procs, len(jobs))) as pool:
        results = pool.map(_worker, jobs, chunksize=1)
    stats = {}
    import os
    for fn, obl, unm, notes, findings, used, steps, res in results:
        ctx.cov['entries'].append(fn)
        if os.environ.get('VF_DEBUG'):
            print(f'== {fn}: steps {steps}, results {res}, unmodelled {unm}')
            for k, o in obl.items():
                if o[6]:
                    print(f'   FAIL {k} {o[4]} ok {o[5]} fail {o[6]} {o[8]} {o[7][:1]}')
        stats[fn] = {'steps': steps, 'result_disjuncts': sum(r[0] for r in res)}
        for k, (kind, ofn, sub, ordinal, span, okc, fail, samples, causes) in obl.items():
            o = N.I.obl.get(k)
            if o is None:
                o = Obl(k, kind, ofn, sub, ordinal, span)
                N.I.obl[k] = o
            o.ok += okc
            o.fail += fail
            o.causes.update(causes)
            o.entries.add(fn)
            for s_ in samples:
                if len(o.samples) < 3:
                    o.samples.append(s_)
        for k, v in unm.items():
            N.I.unmodelled[k] = N.I.unmodelled.get(k, 0) + v
        for k, v in notes.items():
            N.I.notes[k] = N.I.notes.get(k, 0) + v
        for u in used:
            N.I.models_used[u] = N.I.models_used.get(u, 0) + 1
        for f in findings:
            ctx.finding(f['key'], f['rule'], f['where'], f['message'], f['detail'])
    return stats
