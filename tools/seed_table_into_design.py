#!/usr/bin/env python3
"""replace the seed matrix of DESIGN.md section 8 by the output of tools/seed_table.py"""
import subprocess, sys
tab = subprocess.run([sys.executable, '/verif/tools/seed_table.py'], capture_output=True, text=True, check=True).stdout.rstrip('\n').split('\n')
L = open('/verif/DESIGN.md').read().split('\n')
a = next(i for i, l in enumerate(L) if l.startswith('| seed | change | verdict |'))
b = a
while b < len(L) and L[b].startswith('|'):
    b += 1
L[a:b] = tab
open('/verif/DESIGN.md', 'w').write('\n'.join(L))
print('rows', len(tab) - 2)
