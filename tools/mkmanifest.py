#!/usr/bin/env python3
"""Regenerate MANIFEST.json from the property modules present in vf/props (run after adding a check)."""
import importlib, json, os, sys
VERIF = os.path.dirname(os.path.dirname(os.path.abspath(__file__)))
sys.path.insert(0, VERIF)
props = [json.loads(l) for l in open(os.path.join(VERIF, 'properties.jsonl'))]
NA = {
}
checks, na = [], []
for p in props:
    pid = p['id']
    try:
        m = importlib.import_module(f'vf.props.{pid}')
    except ModuleNotFoundError:
        na.append({'property_id': pid, 'reason': NA.get(pid, 'check not built yet (DESIGN.md section 9 build order)')})
        continue
    meta = getattr(m, 'META', {})
    checks.append({
        'property_id': pid,
        'quick_cmd': f'./check {pid} quick',
        'thorough_cmd': f'./check {pid} thorough',
        'evidence_file': f'/verif/evidence/{pid}.json',
        'replay_cmd_template': f'./check {pid} quick --explain {{path}}',
        'engine': 'absint' if meta.get('engine', 'absint') == 'absint' else meta['engine'],
        'level_claimed': {'category': getattr(m, 'LEVEL', 'other'), 'text': meta.get('text', getattr(m, 'EXPLANATION', '')),
                          'design_ref': meta.get('design_ref', f'DESIGN.md section 4, {pid}')},
        'level_note': meta.get('note', 'trusted: rustc MIR (dev profile), the std effect table vf/models.py, assumptions listed in the evidence file'),
        'technique': meta.get('technique', 'static analysis: abstract interpretation of rustc MIR'),
    })
man = {
    'version': 1,
    'setup_cmd': './setup.sh',
    'hooks': {'guard': 'astrolabe_verif', 'enable': 'none needed: the analyser reads the compiler\'s MIR of the unmodified library; no hook commits exist',
              'baseline_off_cmd': 'cd /repo && cargo test --workspace --no-fail-fast --offline', 'source_commits': [], 'add_only': True},
    'engines': [
        {'name': 'mirfacts', 'path': 'driver/', 'serves_properties': [c['property_id'] for c in checks], 'kind_free_text': 'rustc_private driver dumping typed MIR, resolved callees, constants, ADT layouts as JSON (E1)'},
        {'name': 'absint', 'path': 'vf/absint.py vf/domain.py vf/models.py vf/numeric.py', 'serves_properties': [c['property_id'] for c in checks],
         'kind_free_text': 'path-sensitive abstract interpreter over MIR: intervals x affine forms (with modulus) x div/mod linearisation x variant maps x str-lite (E2)'},
        {'name': 'shape', 'path': 'vf/shape.py', 'serves_properties': [c['property_id'] for c in checks], 'kind_free_text': 'CFG dominators, call graph, dependence, table agreement rules (E3/E4)'},
    ],
    'checks': checks,
    'not_applicable': na,
    'notes': 'Static analysis only: no check runs astrolabe code. See DESIGN.md. Known findings: known_findings.json.',
}
json.dump(man, open(os.path.join(VERIF, 'MANIFEST.json'), 'w'), indent=1)
print('checks:', [c['property_id'] for c in checks], 'n/a:', [n['property_id'] for n in na])
