#!/usr/bin/env python3
"""Mechanical mutation sweep (development tool, not a registered check): single-token mutants of /repo's non-test source are built in
scratch copies outside /repo and /verif; a mutant that still compiles and passes the unedited test suite (a *survivor*) is handed to the
checks relevant for its file, and the table says which check reports it.  Survivors no check reports are triaged by hand (equivalent
mutant or a gap of the checks) -- see DESIGN.md section 8.

usage: tools/mutsweep.py [--files f1,f2] [--per-file N] [--seed S] [--jobs J] [--out FILE]"""
import argparse, json, os, random, re, shutil, subprocess, sys, tempfile
from concurrent.futures import ThreadPoolExecutor

REPO = '/repo'
RELEVANT = {
    'src/util/date/convert.rs': ['C01', 'C02', 'C05', 'C07', 'C09', 'C18', 'C15'],
    'src/util/date/manipulate.rs': ['C04', 'C05', 'C09', 'C15'],
    'src/util/date/validate.rs': ['C01', 'C15', 'C05', 'C09'],
    'src/util/leap.rs': ['C01', 'C05', 'C02'],
    'src/util/time/convert.rs': ['C04', 'C08', 'C09', 'C06', 'C03', 'C13', 'C10'],
    'src/util/time/manipulate.rs': ['C08', 'C09', 'C04', 'C15'],
    'src/util/time/validate.rs': ['C08', 'C15', 'C13'],
    'src/util/offset.rs': ['C10', 'C09', 'C12', 'C13'],
    'src/offset.rs': ['C10', 'C15', 'C18'],
    'src/util/format.rs': ['C11', 'C13', 'C20', 'C14', 'C12'],
    'src/util/parse.rs': ['C12', 'C14', 'C20'],
    'src/cron.rs': ['C16', 'C17', 'C14'],
    'src/local/timezone.rs': ['C18', 'C19'],
    'src/local/transition_rule.rs': ['C18', 'C19'],
    'src/local/cursor.rs': ['C19', 'C18'],
    'src/local/header.rs': ['C19', 'C18'],
    'src/local/data_block.rs': ['C19', 'C18'],
    'src/date.rs': ['C01', 'C03', 'C04', 'C05', 'C06', 'C07', 'C09', 'C15', 'C12', 'C20'],
    'src/time.rs': ['C08', 'C06', 'C09', 'C10', 'C15', 'C12', 'C20'],
    'src/datetime.rs': ['C03', 'C04', 'C05', 'C06', 'C07', 'C09', 'C10', 'C13', 'C15', 'C12', 'C20', 'C01'],
}
OPS = [(' + ', ' - '), (' - ', ' + '), (' < ', ' <= '), (' <= ', ' < '), (' > ', ' >= '), (' >= ', ' > '), (' == ', ' != '), (' != ', ' == '),
       (' && ', ' || '), (' || ', ' && '), (' / ', ' % '), (' % ', ' / '), (' * ', ' / ')]


def sites(path):
    """(line number, column, old, new) for every mutable token outside tests, comments and attribute lines"""
    out = []
    lines = open(os.path.join(REPO, path)).read().split('\n')
    in_tests = False
    for i, l in enumerate(lines):
        s = l.strip()
        if s.startswith('#[cfg(test)]'):
            in_tests = True
        if in_tests:
            continue
        if s.startswith('//') or s.startswith('#[') or s.startswith('use ') or 'format!(' in s and '"' in s and s.count('"') >= 2 and not any(o in s.split('"')[0] for o, _ in OPS):
            continue
        code = l.split('//')[0]
        # skip string literal contents
        masked = re.sub(r'"(?:[^"\\]|\\.)*"', lambda m: '"' + ' ' * (len(m.group(0)) - 2) + '"', code)
        for old, new in OPS:
            for m in re.finditer(re.escape(old), masked):
                out.append((i, m.start(), old, new))
        for m in re.finditer(r'(?<![\w.])(\d+)(?![\w.])', masked):
            n = int(m.group(1))
            if n <= 400 and 'const ' not in masked:
                out.append((i, m.start(), m.group(1), str(n + 1)))
    return lines, out


def run(job):
    idx, path, (ln, col, old, new), tgt = job
    lines = open(os.path.join(REPO, path)).read().split('\n')
    tmp = tempfile.mkdtemp(prefix='vf-ms-')
    res = {'id': idx, 'file': path, 'line': ln + 1, 'old': old.strip(), 'new': new.strip(), 'source': lines[ln].strip()}
    try:
        repo = os.path.join(tmp, 'repo')
        os.makedirs(repo)
        for f in ('src', 'tests', 'Cargo.toml', 'Cargo.lock'):
            src = os.path.join(REPO, f)
            (shutil.copytree if os.path.isdir(src) else shutil.copy)(src, os.path.join(repo, f))
        l = lines[ln]
        lines[ln] = l[:col] + new + l[col + len(old):]
        open(os.path.join(repo, path), 'w').write('\n'.join(lines))
        env = dict(os.environ, CARGO_NET_OFFLINE='true', CARGO_TARGET_DIR=tgt)
        # own process group: a mutant that loops for ever is killed together with the test binaries cargo started
        import signal
        pr = subprocess.Popen(['cargo', 'test', '--offline', '--no-fail-fast', '-q'], cwd=repo, env=env, stdout=subprocess.PIPE, stderr=subprocess.PIPE, text=True,
                              start_new_session=True)
        try:
            so, se = pr.communicate(timeout=600)
        except subprocess.TimeoutExpired:
            os.killpg(pr.pid, signal.SIGKILL)
            pr.communicate()
            raise

        class _R:
            pass
        r = _R()
        r.returncode, r.stdout, r.stderr = pr.returncode, so, se
        if 'error[' in r.stderr or 'error: could not compile' in r.stderr:
            res['status'] = 'does not compile'
            return res
        if r.returncode != 0:
            res['status'] = 'killed by the test suite'
            return res
        res['status'] = 'survivor'
        hits = []
        crashed = []
        envc = dict(os.environ, VERIF_REPO=repo, VERIF_SCRATCH_DIR=tmp)
        for p in RELEVANT.get(path, []):
            out = subprocess.run([sys.executable, '-m', 'vf.cli', p, 'quick'], cwd='/verif', env=envc, capture_output=True, text=True)
            if out.returncode == 1:
                keys = [x.split('key: ', 1)[1].strip() for x in out.stdout.splitlines() if 'key: ' in x]
                hits.append({'check': p, 'keys': keys[:3]})
                break
            if out.returncode != 0:
                crashed.append(p)
        res['detected_by'] = hits
        res['crashed'] = crashed
        return res
    except subprocess.TimeoutExpired:
        res['status'] = 'timeout (killed by the test suite)'
        return res
    finally:
        shutil.rmtree(tmp, ignore_errors=True)


def main():
    ap = argparse.ArgumentParser()
    ap.add_argument('--files', default=','.join(RELEVANT))
    ap.add_argument('--per-file', type=int, default=8)
    ap.add_argument('--seed', type=int, default=1)
    ap.add_argument('--jobs', type=int, default=4)
    ap.add_argument('--rerun-survivors', action='store_true', help='re-evaluate every survivor of the stored sweep with the current checks')
    ap.add_argument('--rerun-undetected', action='store_true', help='re-evaluate the survivors of the stored sweep that no check reported')
    ap.add_argument('--out', default='/verif/mutation/sweep.json')
    a = ap.parse_args()
    rnd = random.Random(a.seed)
    jobs = []
    tdirs = [tempfile.mkdtemp(prefix='vf-ms-target-') for _ in range(a.jobs)]
    if a.rerun_undetected or a.rerun_survivors:
        for r in json.load(open(a.out))['mutants']:
            if r['status'] == 'survivor' and (a.rerun_survivors or not r.get('detected_by')):
                lines = open(os.path.join(REPO, r['file'])).read().split('\n')
                _l, ss = sites(r['file'])
                for s in ss:
                    if s[0] == r['line'] - 1 and s[2].strip() == r['old'] and s[3].strip() == r['new'] and not any(j[1] == r['file'] and j[2] == s for j in jobs):
                        jobs.append([len(jobs), r['file'], s, None])
    else:
        for path in a.files.split(','):
            _lines, ss = sites(path)
            rnd.shuffle(ss)
            for s in ss[:a.per_file]:
                jobs.append([len(jobs), path, s, None])
    for i, j in enumerate(jobs):
        j[3] = tdirs[i % a.jobs]
    # one worker per target dir so that cargo's lock is never contended
    buckets = [[j for j in jobs if j[3] == t] for t in tdirs]
    results = []

    def work(bucket):
        out = []
        for j in bucket:
            r = run(tuple(j))
            print(f"{r['id']:4} {r['file']}:{r['line']} {r['old']!r}->{r['new']!r}: {r['status']}"
                  + (('  detected by ' + ','.join(h['check'] for h in r['detected_by'])) if r.get('detected_by') else ('  NOT DETECTED' if r['status'] == 'survivor' else ''))
                  + (f"  [crashed: {r['crashed']}]" if r.get('crashed') else ''), flush=True)
            out.append(r)
        return out
    try:
        with ThreadPoolExecutor(max_workers=a.jobs) as ex:
            for out in ex.map(work, buckets):
                results.extend(out)
    finally:
        for t in tdirs:
            shutil.rmtree(t, ignore_errors=True)
    results.sort(key=lambda r: r['id'])
    prev = []
    if os.path.exists(a.out):
        prev = json.load(open(a.out)).get('mutants', [])
    key = lambda r: (r['file'], r['line'], r['old'], r['new'])
    merged = {key(r): r for r in prev}
    merged.update({key(r): r for r in results})
    allr = sorted(merged.values(), key=key)
    for i, r in enumerate(allr):
        r['id'] = i
    surv = [r for r in allr if r['status'] == 'survivor']
    summ = {'mutants': len(allr), 'do not compile': sum(r['status'] == 'does not compile' for r in allr),
            'killed by the test suite': sum('killed' in r['status'] for r in allr), 'survivors': len(surv),
            'survivors reported by a check': sum(bool(r.get('detected_by')) for r in surv),
            'survivors not reported': sum(not r.get('detected_by') for r in surv)}
    json.dump({'summary': summ, 'mutants': allr}, open(a.out, 'w'), indent=1)
    print(json.dumps(summ, indent=1))


if __name__ == '__main__':
    main()
