#!/usr/bin/env python3
"""usage: tools/mkmut.py <src path> <line> <old> <new> [occurrence]  -> prints a unified diff against /repo (for tools/mutant_patch.sh)"""
import sys, difflib
path, line, old, new = sys.argv[1], int(sys.argv[2]), sys.argv[3], sys.argv[4]
occ = int(sys.argv[5]) if len(sys.argv) > 5 else 0
a = open('/repo/' + path).read().split('\n')
b = list(a)
if line == 0 or old not in b[line - 1]:
    line = [i for i, x in enumerate(b) if old in x][0] + 1
l = b[line - 1]
idx = -1
for _ in range(occ + 1):
    idx = l.index(old, idx + 1)
b[line - 1] = l[:idx] + new + l[idx + len(old):]
sys.stdout.write('\n'.join(difflib.unified_diff(a, b, 'a/' + path, 'b/' + path, lineterm='')) + '\n')
