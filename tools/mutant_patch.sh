#!/bin/sh
# usage: tools/mutant_patch.sh <prop> <patch file> [-R]   -- run a check against a scratch copy of /repo with a patch applied
set -e
D=$(mktemp -d /tmp/vf-mut-XXXXXX)
trap 'rm -rf "$D"' EXIT
mkdir -p "$D/repo"
cp -r /repo/src /repo/Cargo.toml /repo/Cargo.lock "$D/repo/"
(cd "$D/repo" && patch -s -p1 $3 < "$2")
if diff -rq /repo/src "$D/repo/src" >/dev/null; then echo "MUTATION DID NOT APPLY"; exit 3; fi
cd /verif && VERIF_REPO="$D/repo" python3 -m vf.cli "$1" ${TIER:-quick} | grep -E "VIOLATION|key:|violation\(s\)|INFRA" | head -${4:-8}
