#!/bin/sh
# usage: tools/seed_confirm.sh <seed dir with patch.diff demo.rs meta.json> <prop> <name>
# Confirms a seeded change in a scratch copy of /repo (outside /repo and /verif): the patch applies, the full test suite
# still passes, the demonstration fails on the changed tree and passes on the original; then runs the property's check on
# the changed copy and stores everything as /verif/seeded/<name>/.
S=$1; P=$2; NAME=$3
D=$(mktemp -d /tmp/vf-seed-XXXXXX)
trap 'rm -rf "$D"' EXIT
mkdir -p "$D/repo"
cp -r /repo/src /repo/tests /repo/Cargo.toml /repo/Cargo.lock "$D/repo/" 2>/dev/null
[ -d /repo/.cargo ] && cp -r /repo/.cargo "$D/repo/"
[ -d /repo/benches ] && cp -r /repo/benches "$D/repo/"
[ -f /repo/README.md ] && cp /repo/README.md "$D/repo/"
cd "$D/repo"
export CARGO_NET_OFFLINE=true CARGO_TARGET_DIR="$D/target"
demo_kind=integration
FEAT=""
head -2 "$S/demo.rs" | grep -q "features serde" && FEAT="--features serde"
head -3 "$S/demo.rs" | grep -qi "append" && demo_kind=incrate
run_demo() {   # prints PASS / FAIL
  if [ $demo_kind = integration ]; then
    cp "$S/demo.rs" tests/zz_demo.rs
    if cargo test --offline $FEAT --test zz_demo >"$D/demo.log" 2>&1; then echo PASS; else echo FAIL; fi
    rm -f tests/zz_demo.rs
  else
    f=$(head -3 "$S/demo.rs" | grep -o "src/[A-Za-z0-9_/]*\.rs" | head -1)
    cp "$f" "$D/keep.rs"; cat "$S/demo.rs" >> "$f"
    if cargo test --offline --lib zz_demo >"$D/demo.log" 2>&1; then echo PASS; else echo FAIL; fi
    cp "$D/keep.rs" "$f"
  fi
}
orig=$(run_demo)
if ! git apply --check "$S/patch.diff" 2>/dev/null && ! patch -p1 --dry-run -s < "$S/patch.diff" >/dev/null 2>&1; then echo "RESULT $NAME patch-does-not-apply"; exit 1; fi
patch -p1 -s < "$S/patch.diff"
if cargo test --offline $FEAT --no-fail-fast >"$D/suite.log" 2>&1; then suite=PASS; else suite=FAIL; fi
mod=$(run_demo)
cd /verif
out=$(VERIF_REPO="$D/repo" python3 -m vf.cli "$P" quick 2>&1); rc=$?
keys=$(echo "$out" | grep "key:" | sed 's/ *key: //' | head -5 | tr '\n' ';')
echo "RESULT $NAME demo_on_original=$orig suite_on_changed=$suite demo_on_changed=$mod check_exit=$rc keys=$keys"
if [ "$orig" = PASS ] && [ "$suite" = PASS ] && [ "$mod" = FAIL ]; then
  mkdir -p /verif/seeded/$NAME
  cp "$S/patch.diff" "$S/demo.rs" /verif/seeded/$NAME/
  [ -f "$S/demo_output.txt" ] && cp "$S/demo_output.txt" /verif/seeded/$NAME/
  python3 - "$S/meta.json" /verif/seeded/$NAME/meta.json "$P" "$rc" "$keys" <<'PY'
import json, sys
src, dst, prop, rc, keys = sys.argv[1:6]
try:
    m = json.load(open(src))
except Exception:
    m = {}
m['property'] = prop
m['confirmed'] = {'demo_on_original': 'PASS', 'test_suite_on_changed_tree': 'PASS', 'demo_on_changed_tree': 'FAIL'}
m['detected_by_check'] = (rc == '1')
m['check_findings'] = [k for k in keys.split(';') if k]
json.dump(m, open(dst, 'w'), indent=1)
PY
fi
