#!/usr/bin/env python3
"""print the Markdown seed matrix of DESIGN.md section 8 from /verif/seeded/*/meta.json"""
import json, os
ROOT = '/verif/seeded'


def key(n):
    p, i = n.split('-')
    return (p, int(i))


print('| seed | change | verdict |')
print('| --- | --- | --- |')
for n in sorted(os.listdir(ROOT), key=key):
    m = json.load(open(os.path.join(ROOT, n, 'meta.json')))
    s = (m.get('summary') or '').replace('|', '/').replace('\n', ' ')
    if len(s) > 150:
        s = s[:147] + '...'
    hits = m.get('detected_by') or []
    if not hits:
        v = '✗ missed'
    else:
        parts = []
        for h in hits:
            rules = sorted({f.split('|')[0].split(':')[1] if ':' in f.split('|')[0] else f.split('|')[0] for f in h['findings'][:4]})
            parts.append(('✓ ' if h['check'] == m['property'] else '(✓ by sibling) ') + h['check'] + ' ' + ', '.join(rules[:3]))
        v = '; '.join(parts)
    print(f'| {n} | {s} | {v} |')
