#!/bin/sh
# usage: tools/mutant_py.sh <prop> <file> '<python expression transforming string s>'
set -e
D=$(mktemp -d /tmp/vf-mut-XXXXXX)
trap 'rm -rf "$D"' EXIT
mkdir -p "$D/repo"
cp -r /repo/src /repo/Cargo.toml /repo/Cargo.lock "$D/repo/"
python3 - "$D/repo/$2" "$3" <<'PY'
import sys
p, expr = sys.argv[1], sys.argv[2]
s = open(p).read()
t = eval(expr)
assert t != s, 'MUTATION DID NOT APPLY'
open(p, 'w').write(t)
PY
cd /verif && VERIF_REPO="$D/repo" python3 -m vf.cli "$1" quick | grep -E "VIOLATION|key:|violation\(s\)|INFRA" | head -${4:-8}
