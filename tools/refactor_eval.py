#!/usr/bin/env python3
"""Run the checks against behaviour-preserving refactorings (development tool): every patch under <dir>/refactor*/patch.diff is applied to a
scratch copy of /repo (outside /repo and /verif) and the checks relevant for the touched files must stay silent.  A report here is a false
alarm of the checker (or a refactoring that is not behaviour preserving after all -- to be decided by reading it).
usage: tools/refactor_eval.py <dir> [<dir> ...] [--all-checks]"""
import json, os, re, shutil, subprocess, sys, tempfile
from concurrent.futures import ThreadPoolExecutor
sys.path.insert(0, os.path.dirname(os.path.abspath(__file__)))
from mutsweep import RELEVANT

ALL = [f'C{i:02d}' for i in range(1, 21)]


def run(job):
    d, all_checks = job
    patch = os.path.abspath(os.path.join(d, 'patch.diff'))
    files = re.findall(r'^\+\+\+ b/(\S+)', open(patch).read(), re.M)
    checks = ALL if all_checks else sorted({c for f in files for c in RELEVANT.get(f, ALL)})
    tmp = tempfile.mkdtemp(prefix='vf-rf-')
    try:
        repo = os.path.join(tmp, 'repo')
        os.makedirs(repo)
        for f in ('src', 'Cargo.toml', 'Cargo.lock'):
            src = os.path.join('/repo', f)
            (shutil.copytree if os.path.isdir(src) else shutil.copy)(src, os.path.join(repo, f))
        r = subprocess.run(['patch', '-p1', '-s', '-i', patch], cwd=repo, capture_output=True, text=True)
        if r.returncode != 0:
            return d, 'patch does not apply', []
        env = dict(os.environ, VERIF_REPO=repo, VERIF_SCRATCH_DIR=tmp)
        alarms = []
        for c in checks:
            out = subprocess.run([sys.executable, '-m', 'vf.cli', c, 'quick'], cwd='/verif', env=env, capture_output=True, text=True)
            if out.returncode != 0:
                keys = [x.split('key: ', 1)[1].strip() for x in out.stdout.splitlines() if 'key: ' in x]
                msgs = [x.strip() for x in out.stdout.splitlines() if x.startswith('   ') and 'key:' not in x and 'rule:' not in x and ' at:' not in x]
                alarms.append({'check': c, 'exit': out.returncode, 'keys': keys[:5], 'messages': msgs[:3], 'tail': out.stdout[-400:] if out.returncode != 1 else ''})
        return d, f'{len(checks)} checks', alarms
    finally:
        shutil.rmtree(tmp, ignore_errors=True)


if __name__ == '__main__':
    args = [a for a in sys.argv[1:] if not a.startswith('--')]
    all_checks = '--all-checks' in sys.argv
    dirs = []
    for a in args:
        dirs += sorted(os.path.join(a, x) for x in os.listdir(a) if (x.startswith('refactor') or a.rstrip('/').endswith('refactors')) and os.path.exists(os.path.join(a, x, 'patch.diff')))
    with ThreadPoolExecutor(max_workers=int(os.environ.get("RF_WORKERS", "3"))) as ex:
        for d, what, alarms in ex.map(run, [(d, all_checks) for d in dirs]):
            print(f'{d}: {what}: ' + ('silent' if not alarms else 'ALARM'))
            for a in alarms:
                print('    ', json.dumps(a)[:900])
