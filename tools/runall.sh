#!/bin/sh
# run every registered quick check on /repo and validate MANIFEST + evidence against the schemas
cd /verif
rc=0
for p in $(python3 -c "import json;print(' '.join(c['property_id'] for c in json.load(open('MANIFEST.json'))['checks']))"); do
  out=$(./check $p ${1:-quick} 2>&1); e=$?
  echo "$out" | grep -E "^KNOWN-FINDING|^VIOLATION|^$p " | cut -c1-220
  [ $e -ne 0 ] && rc=1
done
python3-vt - <<'PY'
import json, jsonschema, glob
m = json.load(open('/verif/MANIFEST.json'))
jsonschema.validate(m, json.load(open('/root/.vp/MANIFEST.schema.json')))
es = json.load(open('/root/.vp/EVIDENCE.schema.json'))
for c in m['checks']:
    ev = json.load(open(c['evidence_file']))
    jsonschema.validate(ev, es)
    assert ev['level'] == c['level_claimed']['category'], (c['property_id'], ev['level'], c['level_claimed']['category'])
    if ev['level'] == 'proof':
        assert ev['coverage']['obligations'] == ev['coverage']['discharged'], c['property_id']
print('manifest + evidence valid for', len(m['checks']), 'checks')
PY
exit $rc
