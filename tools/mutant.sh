#!/bin/sh
# usage: tools/mutant.sh <prop> <file> <sed-expr>   -- run a check against a scratch copy of /repo with one edit
set -e
D=$(mktemp -d /tmp/vf-mut-XXXXXX)
trap 'rm -rf "$D"' EXIT
mkdir -p "$D/repo"
cp -r /repo/src /repo/Cargo.toml /repo/Cargo.lock "$D/repo/"
[ -d /repo/.cargo ] && cp -r /repo/.cargo "$D/repo/" || true
sed -i "$3" "$D/repo/$2"
if diff -rq /repo/src "$D/repo/src" >/dev/null; then echo "MUTATION DID NOT APPLY"; exit 3; fi
cd /verif && VERIF_REPO="$D/repo" python3 -m vf.cli "$1" quick | grep -E "VIOLATION|key:|violation\(s\)|INFRA" | head -${4:-8}
