#!/usr/bin/env python3
"""Re-run the registered checks against every confirmed seeded change (/verif/seeded/<id>/patch.diff applied to a scratch
copy of /repo outside /repo and /verif) and record in meta.json which checks report it.
usage: tools/seed_eval.py [seed names...]   (default: all)"""
import json, os, subprocess, sys, tempfile, shutil
from concurrent.futures import ThreadPoolExecutor

ROOT = '/verif/seeded'
EXTRA = {'C15': ['C09', 'C01'], 'C02': ['C10', 'C09', 'C11'], 'C03': ['C07', 'C06'], 'C10': ['C11', 'C06', 'C03'], 'C05': ['C01', 'C15'],
         'C01': ['C15'], 'C17': ['C16'], 'C20': ['C14', 'C10', 'C12', 'C11'], 'C18': ['C19'], 'C13': ['C11', 'C10'], 'C11': ['C13', 'C10']}     # sibling checks worth trying when the own check is silent


def run(name):
    d = os.path.join(ROOT, name)
    meta = json.load(open(os.path.join(d, 'meta.json')))
    prop = meta['property']
    tmp = tempfile.mkdtemp(prefix='vf-seedeval-')
    try:
        repo = os.path.join(tmp, 'repo')
        os.makedirs(repo)
        for f in ('src', 'Cargo.toml', 'Cargo.lock'):
            src = os.path.join('/repo', f)
            (shutil.copytree if os.path.isdir(src) else shutil.copy)(src, os.path.join(repo, f))
        r = subprocess.run(['patch', '-p1', '-s', '-i', os.path.join(d, 'patch.diff')], cwd=repo, capture_output=True, text=True)
        if r.returncode != 0:
            meta['applies_to_current_tree'] = False
            json.dump(meta, open(os.path.join(d, 'meta.json'), 'w'), indent=1)
            return name, 'patch does not apply to the current tree', []
        meta['applies_to_current_tree'] = True
        hits = []
        crashed = []
        env = dict(os.environ, VERIF_REPO=repo, VERIF_SCRATCH_DIR=tmp)
        for p in [prop] + EXTRA.get(prop, []):
            out = subprocess.run([sys.executable, '-m', 'vf.cli', p, 'quick'], cwd='/verif', env=env, capture_output=True, text=True)
            keys = [l.split('key: ', 1)[1].strip() for l in out.stdout.splitlines() if 'key: ' in l]
            if out.returncode not in (0, 1):
                sys.stderr.write(f'{name}: check {p} CRASHED (exit {out.returncode})\n{out.stdout[-600:]}\n{out.stderr[-1500:]}\n')
                crashed.append(p)
            if out.returncode == 1:
                hits.append({'check': p, 'findings': keys[:6]})
            if hits and p == prop:
                break
        meta['detected_by_check'] = any(h['check'] == prop for h in hits)
        meta['detected_by'] = hits
        meta['check_findings'] = hits[0]['findings'] if hits else []
        json.dump(meta, open(os.path.join(d, 'meta.json'), 'w'), indent=1)
        meta['check_crashed'] = crashed
        json.dump(meta, open(os.path.join(d, 'meta.json'), 'w'), indent=1)
        v = 'detected by ' + ', '.join(h['check'] for h in hits) if hits else 'NOT DETECTED'
        if crashed:
            v += '   [CRASHED: ' + ', '.join(crashed) + ']'
        return name, v, hits
    finally:
        shutil.rmtree(tmp, ignore_errors=True)


if __name__ == '__main__':
    names = sys.argv[1:] or sorted(os.listdir(ROOT))
    with ThreadPoolExecutor(max_workers=6) as ex:
        for name, verdict, _ in ex.map(run, names):
            print(f'{name:8} {verdict}')
