"""debug helper: run one entry with the C19-style setup and print failing obligations
usage: PYTHONPATH=/verif python3 tools/one.py <fn> [max_steps] [setup names...]"""
import sys
import time
from vf.cli import Ctx
from vf.numeric import Numeric
from vf import entries

fn = sys.argv[1]
ctx = Ctx('DBG', 'quick', 0)
N = Numeric(ctx, 'default', max_disj=64, max_steps=int(sys.argv[2]) if len(sys.argv) > 2 else 20000)
for name in sys.argv[3:] or ['install_tz_partitions']:
    if hasattr(entries, name):
        getattr(entries, name)(N.I)
    else:
        from vf.props import C19
        getattr(C19, name)(N.I)
t = time.time()
try:
    N.run(fn)
except Exception as e:
    import traceback
    traceback.print_exc()
print('steps', N.I.steps, round(time.time() - t, 2), 's')
for k, o in N.I.obl.items():
    if o.fail:
        print('FAIL', k, o.ok, o.fail, o.samples[:1])
print(N.I.unmodelled, N.I.notes)
