#!/bin/sh
# usage: tools/rf1.sh <refactor id> <check> ...   -- run checks on one stored refactoring
R=$1; shift
D=$(mktemp -d /tmp/vf-rf1-XXXXXX); trap 'rm -rf "$D"' EXIT
mkdir -p "$D/repo"; cp -r /repo/src /repo/Cargo.toml /repo/Cargo.lock "$D/repo/"
(cd "$D/repo" && patch -s -p1 < /verif/refactors/$R/patch.diff) || exit 3
cd /verif
for c in "$@"; do VERIF_REPO="$D/repo" VERIF_SCRATCH_DIR="$D" python3 -m vf.cli $c quick | grep -E "key:|^   [a-zA-Z<]|quick:" | grep -v "rule:\| at:" | cut -c1-${W:-400} | head -${N:-12}; done
