#![feature(rustc_private)]
extern crate rustc_abi;
extern crate rustc_driver;
extern crate rustc_hir;
extern crate rustc_interface;
extern crate rustc_middle;
extern crate rustc_span;

use rustc_driver::{Callbacks, Compilation};
use rustc_hir::def::DefKind;
use rustc_hir::def_id::DefId;
use rustc_interface::interface::Compiler;
use rustc_middle::mir::{
    AggregateKind, AssertKind, BorrowKind, Const, Operand,
    Place, ProjectionElem, Rvalue, StatementKind, TerminatorKind,
};
use rustc_middle::ty::{self, Instance, Ty, TyCtxt, TypingEnv};
use std::fmt::Write as _;

fn esc(s: &str) -> String {
    let mut o = String::with_capacity(s.len() + 2);
    o.push('"');
    for c in s.chars() {
        match c {
            '"' => o.push_str("\\\""),
            '\\' => o.push_str("\\\\"),
            '\n' => o.push_str("\\n"),
            '\r' => o.push_str("\\r"),
            '\t' => o.push_str("\\t"),
            c if (c as u32) < 0x20 => { let _ = write!(o, "\\u{:04x}", c as u32); }
            c => o.push(c),
        }
    }
    o.push('"');
    o
}

struct Cx<'tcx> {
    tcx: TyCtxt<'tcx>,
}

impl<'tcx> Cx<'tcx> {
    fn path(&self, did: DefId) -> String { self.tcx.def_path_str(did) }

    fn ty(&self, t: Ty<'tcx>) -> String {
        match t.kind() {
            ty::Bool => r#"{"k":"bool"}"#.into(),
            ty::Char => r#"{"k":"char"}"#.into(),
            ty::Int(i) => format!(r#"{{"k":"int","s":true,"bits":{},"name":"{}"}}"#, i.bit_width().unwrap_or(64), i.name_str()),
            ty::Uint(u) => format!(r#"{{"k":"int","s":false,"bits":{},"name":"{}"}}"#, u.bit_width().unwrap_or(64), u.name_str()),
            ty::Str => r#"{"k":"str"}"#.into(),
            ty::Never => r#"{"k":"never"}"#.into(),
            ty::Ref(_, inner, m) => format!(r#"{{"k":"ref","mut":{},"to":{}}}"#, m.is_mut(), self.ty(*inner)),
            ty::RawPtr(inner, m) => format!(r#"{{"k":"ptr","mut":{},"to":{}}}"#, m.is_mut(), self.ty(*inner)),
            ty::Tuple(ts) => format!(r#"{{"k":"tuple","elems":[{}]}}"#, ts.iter().map(|t| self.ty(t)).collect::<Vec<_>>().join(",")),
            ty::Slice(e) => format!(r#"{{"k":"slice","elem":{}}}"#, self.ty(*e)),
            ty::Array(e, n) => format!(r#"{{"k":"array","elem":{},"len":{}}}"#, self.ty(*e), n.try_to_target_usize(self.tcx).map(|v| v.to_string()).unwrap_or("null".into())),
            ty::Adt(def, args) => format!(r#"{{"k":"adt","path":{},"local":{},"args":[{}],"text":{}}}"#,
                esc(&self.path(def.did())), def.did().is_local(),
                args.types().map(|t| self.ty(t)).collect::<Vec<_>>().join(","), esc(&t.to_string())),
            ty::Param(p) => format!(r#"{{"k":"param","name":{}}}"#, esc(p.name.as_str())),
            ty::Closure(did, _) => format!(r#"{{"k":"closure","id":{}}}"#, esc(&self.path(*did))),
            ty::FnDef(did, args) => format!(r#"{{"k":"fndef","id":{},"args":{}}}"#, esc(&self.path(*did)), esc(&format!("{:?}", args))),
            _ => format!(r#"{{"k":"other","text":{}}}"#, esc(&t.to_string())),
        }
    }

    fn place(&self, p: &Place<'tcx>) -> String {
        let mut proj = Vec::new();
        for e in p.projection.iter() {
            proj.push(match e {
                ProjectionElem::Deref => r#"{"k":"deref"}"#.to_string(),
                ProjectionElem::Field(f, _) => format!(r#"{{"k":"field","i":{}}}"#, f.index()),
                ProjectionElem::Downcast(_, v) => format!(r#"{{"k":"downcast","v":{}}}"#, v.index()),
                ProjectionElem::Index(l) => format!(r#"{{"k":"index","local":{}}}"#, l.index()),
                ProjectionElem::ConstantIndex { offset, min_length, from_end } => format!(r#"{{"k":"cindex","offset":{},"min":{},"from_end":{}}}"#, offset, min_length, from_end),
                ProjectionElem::Subslice { from, to, from_end } => format!(r#"{{"k":"subslice","from":{},"to":{},"from_end":{}}}"#, from, to, from_end),
                other => format!(r#"{{"k":"other","text":{}}}"#, esc(&format!("{:?}", other))),
            });
        }
        format!(r#"{{"l":{},"p":[{}]}}"#, p.local.index(), proj.join(","))
    }

    fn konst(&self, c: &Const<'tcx>, env: TypingEnv<'tcx>) -> String {
        let ty = c.ty();
        let tys = self.ty(ty);
        // scalar ints / bools / chars
        if ty.is_integral() || ty.is_bool() || ty.is_char() {
            if let Some(si) = c.try_eval_scalar_int(self.tcx, env) {
                let size = si.size();
                let v: String = if ty.is_signed() { si.to_int(size).to_string() } else { si.to_uint(size).to_string() };
                return format!(r#"{{"c":"int","v":"{}","ty":{}}}"#, v, tys);
            }
        }
        // fn items (ZST)
        if let ty::FnDef(did, _) = ty.kind() {
            return format!(r#"{{"c":"fn","id":{},"ty":{}}}"#, esc(&self.path(*did)), tys);
        }
        // &str literals
        if let ty::Ref(_, inner, _) = ty.kind() {
            if inner.is_str() {
                if let Ok(val) = c.eval(self.tcx, env, rustc_span::DUMMY_SP) {
                    if let Some(bytes) = val.try_get_slice_bytes_for_diagnostics(self.tcx) {
                        return format!(r#"{{"c":"str","v":{},"ty":{}}}"#, esc(&String::from_utf8_lossy(bytes)), tys);
                    }
                }
            }
        }
        // named const item?
        if !matches!(c, Const::Unevaluated(..)) || matches!(ty.kind(), ty::Adt(..)) {
            if let Ok(val) = c.eval(self.tcx, env, rustc_span::DUMMY_SP) {
                if let Some(s) = self.const_val(val, ty, 0) {
                    if let Const::Unevaluated(u, _) = c {
                        if self.tcx.def_kind(u.def) != DefKind::AnonConst && u.promoted.is_none() && !matches!(self.tcx.def_kind(u.def), DefKind::InlineConst) {
                            return format!(r#"{{"c":"val","named":{},"val":{},"ty":{}}}"#, esc(&self.path(u.def)), s, tys);
                        }
                    }
                    return format!(r#"{{"c":"val","named":null,"val":{},"ty":{}}}"#, s, tys);
                }
            }
        }
        let named = match c {
            Const::Unevaluated(u, _) => Some(match u.promoted { Some(p) => format!("{}::promoted[{}]", self.path(u.def), p.index()), None => self.path(u.def) }),
            _ => None,
        };
        format!(r#"{{"c":"other","named":{},"text":{},"ty":{}}}"#,
            named.map(|n| esc(&n)).unwrap_or("null".into()), esc(&format!("{}", c)), tys)
    }

    /// structured rendering of an evaluated constant (scalars, tuples, ADTs, arrays); None if not representable
    fn const_val(&self, val: rustc_middle::mir::ConstValue, ty: Ty<'tcx>, depth: usize) -> Option<String> {
        if depth > 6 { return None; }
        if ty.is_integral() || ty.is_bool() || ty.is_char() {
            let si = val.try_to_scalar_int()?;
            let size = si.size();
            let v: String = if ty.is_signed() { si.to_int(size).to_string() } else { si.to_uint(size).to_string() };
            return Some(format!(r#"{{"v":"int","n":"{}","ty":{}}}"#, v, self.ty(ty)));
        }
        if let ty::Ref(_, inner, _) = ty.kind() {
            if inner.is_str() {
                let bytes = val.try_get_slice_bytes_for_diagnostics(self.tcx)?;
                return Some(format!(r#"{{"v":"str","s":{}}}"#, esc(&String::from_utf8_lossy(bytes))));
            }
            return None;
        }
        match ty.kind() {
            ty::Tuple(_) | ty::Adt(..) | ty::Array(..) => {
                if let ty::Adt(def, _) = ty.kind() { if def.is_union() { return None; } }
                let d = self.tcx.try_destructure_mir_constant_for_user_output(val, ty)?;
                let mut fs = Vec::new();
                for (fv, fty) in d.fields.iter() {
                    fs.push(self.const_val(*fv, *fty, depth + 1)?);
                }
                let variant = d.variant.map(|v| v.index().to_string()).unwrap_or("null".into());
                let kind = match ty.kind() { ty::Tuple(_) => "tuple", ty::Array(..) => "array", _ => "adt" };
                Some(format!(r#"{{"v":"{}","variant":{},"fields":[{}],"ty":{}}}"#, kind, variant, fs.join(","), self.ty(ty)))
            }
            _ => None,
        }
    }

    fn operand(&self, o: &Operand<'tcx>, env: TypingEnv<'tcx>) -> String {
        match o {
            Operand::Copy(p) => format!(r#"{{"o":"copy","place":{}}}"#, self.place(p)),
            Operand::Move(p) => format!(r#"{{"o":"move","place":{}}}"#, self.place(p)),
            Operand::Constant(c) => format!(r#"{{"o":"const","const":{}}}"#, self.konst(&c.const_, env)),
            #[allow(unreachable_patterns)]
            _ => format!(r#"{{"o":"other","text":{}}}"#, esc(&format!("{:?}", o))),
        }
    }

    fn rvalue(&self, rv: &Rvalue<'tcx>, env: TypingEnv<'tcx>) -> String {
        match rv {
            Rvalue::Use(o, _) => format!(r#"{{"r":"use","op":{}}}"#, self.operand(o, env)),
            Rvalue::BinaryOp(op, b) => format!(r#"{{"r":"bin","op":"{:?}","a":{},"b":{}}}"#, op, self.operand(&b.0, env), self.operand(&b.1, env)),
            Rvalue::UnaryOp(op, o) => format!(r#"{{"r":"un","op":"{:?}","a":{}}}"#, op, self.operand(o, env)),
            Rvalue::Cast(kind, o, t) => format!(r#"{{"r":"cast","kind":{},"a":{},"to":{}}}"#, esc(&format!("{:?}", kind)), self.operand(o, env), self.ty(*t)),
            Rvalue::Ref(_, bk, p) => format!(r#"{{"r":"ref","mut":{},"place":{}}}"#, matches!(bk, BorrowKind::Mut { .. }), self.place(p)),
            Rvalue::RawPtr(_, p) => format!(r#"{{"r":"ref","mut":false,"raw":true,"place":{}}}"#, self.place(p)),
            Rvalue::Discriminant(p) => format!(r#"{{"r":"discr","place":{}}}"#, self.place(p)),
            Rvalue::CopyForDeref(p) => format!(r#"{{"r":"use","op":{{"o":"copy","place":{}}}}}"#, self.place(p)),
            Rvalue::Aggregate(kind, ops) => {
                let k = match &**kind {
                    AggregateKind::Tuple => r#"{"a":"tuple"}"#.to_string(),
                    AggregateKind::Array(_) => r#"{"a":"array"}"#.to_string(),
                    AggregateKind::Adt(did, variant, _, _, _) => format!(r#"{{"a":"adt","path":{},"variant":{}}}"#, esc(&self.path(*did)), variant.index()),
                    AggregateKind::Closure(did, _) => format!(r#"{{"a":"closure","id":{}}}"#, esc(&self.path(*did))),
                    other => format!(r#"{{"a":"other","text":{}}}"#, esc(&format!("{:?}", other))),
                };
                format!(r#"{{"r":"agg","kind":{},"ops":[{}]}}"#, k, ops.iter().map(|o| self.operand(o, env)).collect::<Vec<_>>().join(","))
            }
            Rvalue::Repeat(o, n) => format!(r#"{{"r":"repeat","op":{},"n":{}}}"#, self.operand(o, env), esc(&format!("{}", n))),
            other => format!(r#"{{"r":"other","text":{}}}"#, esc(&format!("{:?}", other))),
        }
    }

    fn span(&self, sp: rustc_span::Span) -> String {
        let sm = self.tcx.sess.source_map();
        let lo = sm.lookup_char_pos(sp.lo());
        format!("{}:{}:{}", lo.file.name.prefer_local_unconditionally(), lo.line, lo.col.0 + 1)
    }

    fn body(&self, did: DefId, body: &rustc_middle::mir::Body<'tcx>, name: String, out: &mut String) {
        let tcx = self.tcx;
        let env = TypingEnv::post_analysis(tcx, did);
        let kind = tcx.def_kind(did);
        let vis = if matches!(kind, DefKind::Fn | DefKind::AssocFn) { format!("{:?}", tcx.visibility(did)) } else { "n/a".into() };
        let mut names = Vec::new();
        for vdi in body.var_debug_info.iter() {
            if let rustc_middle::mir::VarDebugInfoContents::Place(p) = &vdi.value {
                if p.projection.is_empty() {
                    names.push(format!(r#"[{},{}]"#, p.local.index(), esc(vdi.name.as_str())));
                }
            }
        }
        let mut docs = String::new();
        if let Some(ldid) = did.as_local() {
            let hid = tcx.local_def_id_to_hir_id(ldid);
            for a in tcx.hir_attrs(hid) {
                if let Some(d) = a.doc_str() { docs.push_str(d.as_str()); docs.push('\n'); }
            }
        }
        // type parameters in declaration order (parents first), as the resolved callee's `tyargs` list them
        let mut gens: Vec<String> = Vec::new();
        {
            let mut chain = Vec::new();
            let mut cur = Some(tcx.generics_of(did));
            while let Some(g) = cur {
                chain.push(g);
                cur = g.parent.map(|p| tcx.generics_of(p));
            }
            for g in chain.iter().rev() {
                for p in g.own_params.iter() {
                    if matches!(p.kind, ty::GenericParamDefKind::Type { .. }) {
                        gens.push(esc(p.name.as_str()));
                    }
                }
            }
        }
        let _ = write!(out, r#"{{"id":{},"kind":"{:?}","vis":{},"span":{},"expn":{},"argc":{},"names":[{}],"generics":[{}],"docs":{},"locals":["#,
            esc(&name), kind, esc(&vis), esc(&self.span(body.span)), body.span.from_expansion(), body.arg_count, names.join(","), gens.join(","), esc(&docs));
        for (i, l) in body.local_decls.iter().enumerate() {
            if i > 0 { out.push(','); }
            out.push_str(&self.ty(l.ty));
        }
        out.push_str(r#"],"blocks":["#);
        for (bi, (_bb, data)) in body.basic_blocks.iter_enumerated().enumerate() {
            if bi > 0 { out.push(','); }
            out.push_str(r#"{"stmts":["#);
            let mut first = true;
            for st in &data.statements {
                let s = match &st.kind {
                    StatementKind::Assign(b) => format!(r#"{{"s":"assign","place":{},"rv":{},"span":{}}}"#, self.place(&b.0), self.rvalue(&b.1, env), esc(&self.span(st.source_info.span))),
                    StatementKind::SetDiscriminant { place, variant_index } => format!(r#"{{"s":"setdiscr","place":{},"v":{}}}"#, self.place(place), variant_index.index()),
                    StatementKind::StorageLive(_) | StatementKind::StorageDead(_) | StatementKind::Nop | StatementKind::FakeRead(..) | StatementKind::PlaceMention(..) | StatementKind::AscribeUserType(..) | StatementKind::Coverage(..) | StatementKind::ConstEvalCounter => continue,
                    other => format!(r#"{{"s":"other","text":{}}}"#, esc(&format!("{:?}", other))),
                };
                if !first { out.push(','); }
                first = false;
                out.push_str(&s);
            }
            out.push_str(r#"],"term":"#);
            let term = data.terminator();
            let sp = esc(&self.span(term.source_info.span));
            let t = match &term.kind {
                TerminatorKind::Goto { target } => format!(r#"{{"t":"goto","target":{}}}"#, target.index()),
                TerminatorKind::SwitchInt { discr, targets } => {
                    let cases = targets.iter().map(|(v, bb)| format!(r#"["{}",{}]"#, v, bb.index())).collect::<Vec<_>>().join(",");
                    format!(r#"{{"t":"switch","discr":{},"cases":[{}],"otherwise":{}}}"#, self.operand(discr, env), cases, targets.otherwise().index())
                }
                TerminatorKind::Return => r#"{"t":"return"}"#.to_string(),
                TerminatorKind::Unreachable => r#"{"t":"unreachable"}"#.to_string(),
                TerminatorKind::UnwindResume => r#"{"t":"resume"}"#.to_string(),
                TerminatorKind::Drop { place, target, .. } => format!(r#"{{"t":"drop","place":{},"target":{}}}"#, self.place(place), target.index()),
                TerminatorKind::Assert { cond, expected, msg, target, .. } => {
                    let (k, extra) = match &**msg {
                        AssertKind::Overflow(op, a, b) => ("overflow", format!(r#","op":"{:?}","a":{},"b":{}"#, op, self.operand(a, env), self.operand(b, env))),
                        AssertKind::OverflowNeg(a) => ("overflow_neg", format!(r#","a":{}"#, self.operand(a, env))),
                        AssertKind::DivisionByZero(a) => ("div0", format!(r#","a":{}"#, self.operand(a, env))),
                        AssertKind::RemainderByZero(a) => ("rem0", format!(r#","a":{}"#, self.operand(a, env))),
                        AssertKind::BoundsCheck { len, index } => ("bounds", format!(r#","len":{},"index":{}"#, self.operand(len, env), self.operand(index, env))),
                        _ => ("other", String::new()),
                    };
                    format!(r#"{{"t":"assert","cond":{},"expected":{},"kind":"{}"{},"target":{},"span":{}}}"#, self.operand(cond, env), expected, k, extra, target.index(), sp)
                }
                TerminatorKind::Call { func, args, destination, target, .. } => {
                    let fty = func.ty(&body.local_decls, tcx);
                    let resolved = if let ty::FnDef(cdid, gargs) = fty.kind() {
                        match Instance::try_resolve(tcx, env, *cdid, gargs) {
                            Ok(Some(inst)) => {
                                let idid = inst.def_id();
                                let tyargs = inst.args.types().map(|t| self.ty(t)).collect::<Vec<_>>().join(",");
                                format!(r#"{{"id":{},"decl":{},"local":{},"has_mir":{},"tyargs":[{}],"inst":{}}}"#,
                                    esc(&self.path(idid)), esc(&self.path(*cdid)), idid.is_local(), tcx.is_mir_available(idid), tyargs, esc(&format!("{:?}", inst.def)))
                            }
                            _ => format!(r#"{{"id":null,"decl":{},"local":{},"tyargs":[{}]}}"#, esc(&self.path(*cdid)), cdid.is_local(),
                                    gargs.types().map(|t| self.ty(t)).collect::<Vec<_>>().join(",")),
                        }
                    } else { format!(r#"{{"id":null,"indirect":{},"op":{}}}"#, esc(&fty.to_string()), self.operand(func, env)) };
                    format!(r#"{{"t":"call","func":{},"args":[{}],"dest":{},"target":{},"span":{},"expn":{}}}"#,
                        resolved,
                        args.iter().map(|a| self.operand(&a.node, env)).collect::<Vec<_>>().join(","),
                        self.place(destination),
                        target.map(|t| t.index().to_string()).unwrap_or("null".into()), sp, term.source_info.span.from_expansion())
                }
                other => format!(r#"{{"t":"other","text":{}}}"#, esc(&format!("{:?}", other))),
            };
            out.push_str(&t);
            out.push('}');
        }
        out.push_str("]}");
    }

    fn adts(&self, out: &mut String) {
        let tcx = self.tcx;
        let mut first = true;
        for id in tcx.hir_free_items() {
            let did = id.owner_id.to_def_id();
            if !matches!(tcx.def_kind(did), DefKind::Struct | DefKind::Enum) { continue; }
            let adt = tcx.adt_def(did);
            if !first { out.push(','); }
            first = false;
            let _ = write!(out, r#"{{"path":{},"vis":{},"is_enum":{},"variants":["#, esc(&self.path(did)), esc(&format!("{:?}", tcx.visibility(did))), adt.is_enum());
            for (vi, v) in adt.variants().iter_enumerated() {
                if vi.index() > 0 { out.push(','); }
                let discr = if adt.is_enum() { adt.discriminant_for_variant(tcx, vi).val } else { 0 };
                let _ = write!(out, r#"{{"name":{},"discr":"{}","fields":["#, esc(v.name.as_str()), discr);
                for (fi, f) in v.fields.iter().enumerate() {
                    if fi > 0 { out.push(','); }
                    let fty = tcx.type_of(f.did).instantiate_identity().skip_norm_wip();
                    let _ = write!(out, r#"{{"name":{},"vis":{},"ty":{}}}"#, esc(f.name.as_str()), esc(&format!("{:?}", f.vis)), self.ty(fty));
                }
                out.push_str("]}");
            }
            out.push_str("]}");
        }
    }
}

struct Cb;
impl Callbacks for Cb {
    fn after_analysis<'tcx>(&mut self, _c: &Compiler, tcx: TyCtxt<'tcx>) -> Compilation {
        let crate_name = tcx.crate_name(rustc_span::def_id::LOCAL_CRATE).to_string();
        let want = std::env::var("MIRFACTS_CRATE").unwrap_or_default();
        if crate_name != want { return Compilation::Continue; }
        let cx = Cx { tcx };
        let mut out = String::new();
        out.push_str(r#"{"crate":"#); out.push_str(&esc(&crate_name));
        out.push_str(r#","bodies":["#);
        let mut n = 0;
        for ldid in tcx.hir_body_owners() {
            let did = ldid.to_def_id();
            let kind = tcx.def_kind(did);
            let is_fn = matches!(kind, DefKind::Fn | DefKind::AssocFn | DefKind::Closure);
            let is_const = matches!(kind, DefKind::Const { .. } | DefKind::AssocConst { .. });
            if !is_fn && !is_const { continue; }
            if n > 0 { out.push(','); }
            n += 1;
            if is_fn {
                cx.body(did, tcx.optimized_mir(did), cx.path(did), &mut out);
            } else {
                cx.body(did, tcx.mir_for_ctfe(did), cx.path(did), &mut out);
            }
            for (pi, pb) in tcx.promoted_mir(did).iter_enumerated() {
                out.push(',');
                n += 1;
                cx.body(did, pb, format!("{}::promoted[{}]", cx.path(did), pi.index()), &mut out);
            }
        }
        out.push_str(r#"],"adts":["#);
        cx.adts(&mut out);
        out.push_str("]}");
        let path = std::env::var("MIRFACTS_OUT").expect("MIRFACTS_OUT");
        std::fs::write(&path, out).expect("write facts");
        eprintln!("mirfacts: wrote {} bodies to {}", n, path);
        Compilation::Continue
    }
}

fn main() {
    let mut args: Vec<String> = std::env::args().collect();
    if args.len() > 1 && (args[1].ends_with("rustc") || args[1].contains("/rustc")) { args.remove(1); }
    rustc_driver::run_compiler(&args, &mut Cb);
}
